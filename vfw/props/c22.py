"""C22 Broadcasts override in precedence order and persist exactly.

Engine C (history exploration): breadth-first search over histories of
put / clear / expire / flush / restart operations on a *real* BroadcastMgr
wired to a *real* WorkflowDatabaseManager with sqlite files under the scratch
directory.  Every transition is executed by rebuilding the component and
replaying the history linearly; states are deduplicated on a canonical
projection of everything that can influence the future (broadcast dict,
queued DB operations, broadcast_states table, reference state).

Reference (written from the property statement, never from cylc's code): a
flat dict {(point, namespace, key-path): value}.
  put     overlay every leaf of every setting on every (point, namespace)
  clear   drop exactly the leaves that match all the given filters
  expire  drop leaves of cycle-specific points numerically < cutoff
  flush / restart   no change
The configuration a task receives = static config, overlaid with the
all-cycle layer then the own-cycle layer, each from root through the
ancestors to the task.
"""
from __future__ import annotations

import itertools
import logging
import os
import re
import shutil
import sqlite3
from pathlib import Path
from types import SimpleNamespace

from ..core import Ctx, HarnessError, Result, Violation, chunks, pmap, \
    scratch_root

LEVEL = 'model_checking'

FLOW = '''
[scheduler]
    allow implicit tasks = False
[scheduling]
    cycling mode = integer
    initial cycle point = 1
    [[graph]]
        P1 = t & u
[runtime]
    [[root]]
        script = static-root
        [[[environment]]]
            A = sA
            Z = sZ
    [[FAM]]
        pre-script = static-fam
    [[t]]
        inherit = FAM
        [[[environment]]]
            B = sB
    [[u]]
'''
# Written by hand from FLOW (not read back from cylc): root first.
ANCESTRY = {'t': ['root', 'FAM', 't'], 'u': ['root', 'u']}
NS_ROLE = {'root': 'root', 'FAM': 'family', 't': 'task', 'u': 'task'}
TASKS = ['t', 'u']
# (task, cycle) pairs whose received configuration is judged: t at a cycle
# with / without cycle-specific broadcasts, u (not in FAM) at one cycle
TARGETS = [('t', '1'), ('t', '2'), ('t', '3'), ('u', '1')]


# ------------------------------------------------------------------- menu

def _leaves(d, pre=()):
    """Leaves of a nested dict in iteration order: [(key-path, value)]."""
    out = []
    for k, v in d.items():
        if isinstance(v, dict):
            out.extend(_leaves(v, pre + (k,)))
        else:
            out.append((pre + (k,), v))
    return out


def menu(name):
    """The operation alphabet ('mini', 'core' or 'wide').  Every put entry carries
    values unique to the entry, so that any two entries touching the same key
    are told apart.  Each part of the menu is a full cartesian product."""
    ops = []

    def puts(pts, nss, kinds):
        for p in pts:
            for n in nss:
                v = '+'.join(p) + '/' + '+'.join(n)
                k = 1 + len(ops)
                sets = {
                    's1': [{'script': f'{v}/s1'}],
                    's2': [{'environment': {'A': f'{v}/s2'}}],
                    # multi-key dictionaries, as the API delivers them
                    's3': [{'environment': {
                        'A': f'{v}/s3a', 'B': f'{v}/s3b'}}],
                    's4': [{'script': f'{v}/s4',
                            'environment': {'B': f'{v}/s4b'}}],
                    # two single-key settings (the CLI's form)
                    's5': [{'environment': {'B': f'{v}/s5b'}},
                           {'script': f'{v}/s5'}],
                    # a value that cylc coerces (ISO8601 duration -> seconds)
                    's6': [{'execution time limit': f'PT{k}M'}],
                }
                for kind in kinds:
                    ops.append(['put', p, n, sets[kind]])
    single_p = [['*'], ['1'], ['2']]
    single_n = [['root'], ['FAM'], ['t']]
    if name == 'wide':
        puts(single_p, single_n, ['s1', 's2', 's3', 's4', 's5', 's6'])
        puts([['*', '2']], [['root', 't']], ['s1', 's3'])
        cpts = [None, ['*'], ['1']]
        cnss = [None, ['root'], ['t']]
        ccan = [None, [{'script': 'x'}], [{'environment': {'A': 'x'}}],
                [{'environment': {'A': 'x', 'B': 'x'}}],
                [{'execution time limit': 'x'}]]
        cuts = ['1', '2', '3']
    elif name == 'core':
        puts(single_p, single_n, ['s1', 's3', 's6'])
        cpts = [None, ['*'], ['1']]
        cnss = [None, ['t']]
        ccan = [None, [{'script': 'x'}], [{'environment': {'A': 'x'}}]]
        cuts = ['1', '2', '3']
    elif name == 'mini':
        puts([['*'], ['1']], [['root'], ['t']], ['s1', 's3'])
        cpts = [None, ['1']]
        cnss = [None, ['t']]
        ccan = [None, [{'script': 'x'}]]
        cuts = ['1', '2']
    else:
        raise HarnessError(name)
    for p, n, c in itertools.product(cpts, cnss, ccan):
        ops.append(['clear', p, n, c])
    for cut in cuts:
        ops.append(['expire', cut])
    ops.append(['flush'])
    ops.append(['restart'])
    return ops


def ref_value(raw):
    """Expected coerced value (by hand: 'PT<k>M' is k minutes)."""
    if raw.startswith('PT') and raw.endswith('M') and raw[2:-1].isdigit():
        return float(60 * int(raw[2:-1]))
    return raw


# -------------------------------------------------------------- reference

class Ref:
    def __init__(self):
        self.flat = {}     # (point, ns, keys) -> value
        self.prov = {}     # (point, ns, keys) -> (n_leaves, leaf_index)
        self.gone = {}     # (point, ns, keys) -> 'clear' | 'expire'
        # harness observation, used only to name the class of a violation:
        # live settings that are neither in the DB nor queued for it, and
        # the kind of operation after which that was first seen
        self.unrecorded = {}

    def apply(self, op):
        kind = op[0]
        if kind == 'put':
            _, points, nss, settings = op
            for setting in settings:
                lv = _leaves(setting)
                for p in points:
                    for n in nss:
                        for i, (keys, val) in enumerate(lv):
                            k = (p, n, keys)
                            self.flat[k] = ref_value(val)
                            self.prov[k] = (len(lv), i)
                            self.gone.pop(k, None)
        elif kind == 'clear':
            _, points, nss, cancel = op
            ckeys = None
            if cancel:
                ckeys = {keys for c in cancel for keys, _ in _leaves(c)}
            for k in list(self.flat):
                p, n, keys = k
                if points and p not in points:
                    continue
                if nss and n not in nss:
                    continue
                if ckeys is not None and keys not in ckeys:
                    continue
                del self.flat[k]
                self.gone[k] = 'clear'
        elif kind == 'expire':
            cut = int(op[1])
            for k in list(self.flat):
                if k[0] != '*' and int(k[0]) < cut:
                    del self.flat[k]
                    self.gone[k] = 'expire'

    def rtconfig(self, static, task, cycle):
        """(expected flat config, winner layer per key-path)."""
        cfg = dict(static)
        who = {k: 'static' for k in static}
        for layer, p in (('all', '*'), ('cycle', cycle)):
            for n in ANCESTRY[task]:
                for (pp, nn, keys), val in self.flat.items():
                    if pp == p and nn == n:
                        cfg[keys] = val
                        who[keys] = f'{layer}/{NS_ROLE[n]}'
        return cfg, who


# -------------------------------------------------------------- component

_ENV = {}


def setup(scratch: Path):
    """Real WorkflowConfig + template DB, once per process tree."""
    if _ENV:
        return _ENV
    from cylc.flow import LOG
    LOG.addHandler(logging.NullHandler())
    LOG.propagate = False
    from cylc.flow.config import WorkflowConfig
    from cylc.flow.scheduler_cli import RunOptions
    from cylc.flow.workflow_db_mgr import WorkflowDatabaseManager
    base = Path(scratch) / 'c22'
    wf = base / 'wf'
    wf.mkdir(parents=True, exist_ok=True)
    (wf / 'flow.cylc').write_text(FLOW)
    cfg = WorkflowConfig(
        'c22', str(wf / 'flow.cylc'), RunOptions(), run_dir=str(wf))
    tmpl = base / 'tmpl'
    shutil.rmtree(tmpl, ignore_errors=True)
    (tmpl / 'pri').mkdir(parents=True)
    (tmpl / 'pub').mkdir()
    dbm = WorkflowDatabaseManager(str(tmpl / 'pri'), str(tmpl / 'pub'))
    dbm.on_workflow_start(is_restart=False)     # the real fresh-start path
    dbm.on_workflow_shutdown()
    static = {}
    for t in TASKS:
        static[t] = {
            keys: val for keys, val in _leaves(_plain(cfg.taskdefs[t].rtconfig))
        }
    _ENV.update(cfg=cfg, base=base, tmpl=tmpl, static=static)
    return _ENV


def _plain(d):
    return {
        k: (_plain(v) if hasattr(v, 'items') else v) for k, v in d.items()}


def _norm(v):
    if isinstance(v, float):
        return float(v)
    if isinstance(v, list):
        return [_norm(x) for x in v]
    return v


def flat_impl(broadcasts):
    out = {}
    for p, nss in broadcasts.items():
        for n, sett in nss.items():
            for keys, val in _leaves(sett):
                out[(p, n, keys)] = _norm(val)
    return out


class Comp:
    """The real component: BroadcastMgr + WorkflowDatabaseManager + DB."""

    def __init__(self, env):
        self.env = env
        self.dir = env['base'] / f'w{os.getpid()}'
        if not self.dir.exists():
            (self.dir / 'pri').mkdir(parents=True)
            (self.dir / 'pub').mkdir()
        for f in os.listdir(self.dir / 'pub'):
            os.unlink(self.dir / 'pub' / f)
        for f in os.listdir(self.dir / 'pri'):
            os.unlink(self.dir / 'pri' / f)
        shutil.copyfile(env['tmpl'] / 'pri' / 'db', self.dir / 'pri' / 'db')
        self.restarts = 0
        self._wire()

    def _wire(self):
        from cylc.flow.broadcast_mgr import BroadcastMgr
        from cylc.flow.run_modes import RunMode
        from cylc.flow.workflow_db_mgr import WorkflowDatabaseManager
        cfg = self.env['cfg']
        self.dbm = WorkflowDatabaseManager(
            str(self.dir / 'pri'), str(self.dir / 'pub'))
        self.dbm.on_workflow_start(is_restart=True)
        schd = SimpleNamespace(
            get_run_mode=lambda: RunMode.LIVE,
            workflow_db_mgr=self.dbm,
            data_store_mgr=SimpleNamespace(delta_broadcast=lambda: None),
            config=cfg,
        )
        self.mgr = BroadcastMgr(schd)
        # as Scheduler.load_workflow_params_and_tmpl_vars/configure does
        self.mgr.linearized_ancestors.update(cfg.get_linearized_ancestors())

    def restart(self):
        """Flush, shut down, and bring up fresh managers from the DB the way
        Scheduler._load_pool_from_db does."""
        self.dbm.process_queued_ops()
        self.dbm.on_workflow_shutdown()
        self._wire()
        self.dbm.pri_dao.select_broadcast_states(
            self.mgr.load_db_broadcast_states)
        self.mgr.post_load_db_coerce()
        self.restarts += 1

    def apply(self, op):
        kind = op[0]
        if kind == 'put':
            _, bad = self.mgr.put_broadcast(op[1], op[2], op[3])
            if bad:
                raise HarnessError(
                    f'menu entry {op} rejected by cylc: {bad}')
        elif kind == 'clear':
            self.mgr.clear_broadcast(op[1], op[2], op[3])
        elif kind == 'expire':
            self.mgr.expire_broadcast(op[1])
        elif kind == 'flush':
            self.dbm.process_queued_ops()
        elif kind == 'restart':
            self.restart()
        else:
            raise HarnessError(f'unknown op {op}')

    def db_rows(self):
        con = sqlite3.connect(str(self.dir / 'pri' / 'db'))
        try:
            return sorted(con.execute(
                'SELECT point, namespace, key, value FROM broadcast_states'))
        finally:
            con.close()

    def recorded(self):
        """Settings the database holds or is about to hold:
        (rows - queued deletes) + queued inserts, as reference keys."""
        T = self.dbm.TABLE_BROADCAST_STATES

        def k(point, ns, key):
            secs = tuple(re.findall(r'\[([^\]]+)\]', key))
            return (point, ns, secs + (key.rsplit(']', 1)[-1],))
        out = {k(*r[:3]) for r in self.db_rows()}
        out -= {k(d['point'], d['namespace'], d['key'])
                for d in self.dbm.db_deletes_map[T]}
        out |= {k(i['point'], i['namespace'], i['key'])
                for i in self.dbm.db_inserts_map[T]}
        return out

    def projection(self):
        T = self.dbm.TABLE_BROADCAST_STATES
        return (
            tuple(sorted(
                (k, repr(v)) for k, v in flat_impl(self.mgr.broadcasts).items()
            )),
            repr(self.dbm.db_inserts_map[T]),
            repr(self.dbm.db_deletes_map[T]),
            tuple(self.db_rows()),
        )

    def rtconfig(self, task, cycle):
        from cylc.flow.id import Tokens
        itask = SimpleNamespace(
            tokens=Tokens(cycle=cycle, task=task),
            tdef=self.env['cfg'].taskdefs[task])
        got = self.mgr.get_updated_rtconfig(itask)
        return {keys: _norm(v) for keys, v in _leaves(_plain(got))}

    def close(self):
        self.dbm.on_workflow_shutdown()


# ----------------------------------------------------------------- oracle

def _kstr(k):
    p, n, keys = k
    return f"{p}/{n}:" + ''.join(f'[{x}]' for x in keys[:-1]) + keys[-1]


def diff_state(impl, ref: Ref, stage, op_kind):
    """Compare impl flat state with the reference; [(signature, what)]."""
    out = []
    want = ref.flat
    for k in sorted(set(want) | set(impl), key=repr):
        if k in want and k not in impl:
            if stage == 'restart':
                n, i = ref.prov[k]
                if n > 1:
                    cls = ('nonfirst' if i else 'first') + \
                        '-leaf-of-multi-key-setting'
                else:
                    cls = 'single-key-setting'
                how = ref.unrecorded.get(k, 'recorded-but-not-loaded')
                sig = f'restart-loses:{how}:{cls}'
            else:
                sig = f'state-after-{op_kind}:setting-missing'
            out.append((sig, f'{_kstr(k)}={want[k]!r} missing'))
        elif k in impl and k not in want:
            if stage == 'restart':
                sig = f"restart-resurrects:{ref.gone.get(k, 'never-set')}"
            else:
                sig = f'state-after-{op_kind}:setting-not-removed'
            out.append((sig, f'{_kstr(k)}={impl[k]!r} should not exist'))
        elif impl[k] != want[k] or type(impl[k]) is not type(want[k]):
            sig = ('restart-changes-value' if stage == 'restart'
                   else f'state-after-{op_kind}:wrong-value')
            out.append((sig, f'{_kstr(k)}={impl[k]!r}, expected {want[k]!r}'))
    return out


def diff_rtconfig(comp: Comp, ref: Ref):
    out = []
    for task, cycle in TARGETS:
        want, who = ref.rtconfig(comp.env['static'][task], task, cycle)
        got = comp.rtconfig(task, cycle)
        for keys in sorted(set(want) | set(got), key=repr):
            w = want.get(keys, '<absent>')
            g = got.get(keys, '<absent>')
            if w == g:
                continue
            if w is None and g == '<absent>' or (
                    g is None and w == '<absent>'):
                continue
            # which layer's value did the task receive instead?
            src = 'other'
            for layer, p in (('all', '*'), ('cycle', cycle)):
                for n in ANCESTRY[task]:
                    if ref.flat.get((p, n, keys)) == g:
                        src = f'{layer}/{NS_ROLE[n]}'
            if src == 'other' and comp.env['static'][task].get(keys) == g:
                src = 'static'
            sig = (f"rtconfig-precedence:want={who.get(keys, 'absent')}"
                   f":got={src}")
            out.append((
                sig,
                f"{cycle}/{task} {'/'.join(keys)}={g!r}, expected {w!r} "
                f"(from {who.get(keys, 'nowhere')})"))
    return out


def execute(history, env, seen=None, final_restart=True):
    """Run one history on a fresh component with the whole oracle.

    Returns (key, [(signature, what)], fresh, effect): `fresh` is False
    when `seen` already contains the reached state's key, in which case the
    state-level checks are skipped (they are a deterministic function of the
    key); `effect` tells whether the last operation did anything.
    """
    comp = Comp(env)
    ref = Ref()
    bad = []
    try:
        blamed = False
        effect = False
        for j, op in enumerate(history):
            if j == len(history) - 1:
                before = dict(ref.flat)
                T = comp.dbm.TABLE_BROADCAST_STATES
                pending = bool(comp.dbm.db_inserts_map[T]
                               or comp.dbm.db_deletes_map[T])
            comp.apply(op)
            ref.apply(op)
            rec = comp.recorded()
            for k in ref.flat:
                if k not in rec:
                    ref.unrecorded.setdefault(
                        k, 'never-recorded' if op[0] == 'put'
                        else f'dropped-at-{op[0]}')
                else:
                    ref.unrecorded.pop(k, None)
            if j == len(history) - 1:
                effect = (pending if op[0] in ('flush', 'restart')
                          else before != ref.flat)
            if not blamed:
                d = diff_state(
                    flat_impl(comp.mgr.broadcasts), ref,
                    'restart' if op[0] == 'restart' else 'op', op[0])
                if d:
                    bad.extend(d)
                    blamed = True
        key = (comp.projection(),
               tuple(sorted((k, repr(v)) for k, v in ref.flat.items())))
        if seen is not None and key in seen:
            return key, bad, False, effect
        if not blamed:
            bad.extend(diff_rtconfig(comp, ref))
            if final_restart:
                comp.restart()
                bad.extend(diff_state(
                    flat_impl(comp.mgr.broadcasts), ref, 'restart',
                    'restart'))
        return key, bad, True, effect
    finally:
        comp.close()


# ------------------------------------------------------------- exploration

_SEEN = set()
_MENU = []


def _expand(histories):
    env = setup(scratch_root())
    local = set()
    out = []
    for h in histories:
        for i, op in enumerate(_MENU):
            key, bad, fresh, effect = execute(
                h + [op], env, seen=_Both(_SEEN, local))
            if fresh:
                local.add(key)
            out.append((h, i, key if fresh else None, bad, effect))
    return out


class _Both:
    """Membership in either of two sets (no copying)."""

    def __init__(self, a, b):
        self.a, self.b = a, b

    def __contains__(self, x):
        return x in self.a or x in self.b


def explore(ctx: Ctx, env, menu_name, depth, vio):
    """One exhaustive BFS (all histories up to `depth` over the menu)."""
    global _MENU
    _MENU = menu(menu_name)
    _SEEN.clear()
    key0, bad0, _, _ = execute([], env)
    if bad0:
        raise HarnessError(f'empty history violates: {bad0}')
    _SEEN.add(key0)
    frontier = [[]]
    states = 1
    transitions = 0
    per_level = []
    effective = dict.fromkeys(
        ('put', 'clear', 'expire', 'flush', 'restart'), 0)
    samples = []
    for level in range(1, depth + 1):
        jobs = chunks(frontier, ctx.workers * 8)
        res = pmap(_expand, jobs, ctx.workers)
        nxt = []
        for part in res:
            for h, i, key, bad, effect in part:
                transitions += 1
                hist = h + [_MENU[i]]
                if effect:
                    effective[_MENU[i][0]] += 1
                if key is not None and key not in _SEEN:
                    _SEEN.add(key)
                    states += 1
                    nxt.append(hist)
                    if level == depth and len(nxt) % 1999 == 1 and (
                            len(samples) < 4):
                        samples.append(_show(hist))
                for sig, what in bad:
                    ent = vio.setdefault(sig, [0, []])
                    ent[0] += 1
                    if len(ent[1]) < 3:
                        ent[1].append((hist, what))
        per_level.append(len(nxt))
        frontier = nxt      # deterministic order (input order of pmap)
    # non-vacuity: every operation kind had an effect somewhere (put / clear
    # / expire changed the reference state; flush / restart had queued work)
    idle = [k for k, n in effective.items() if not n]
    if idle:
        raise HarnessError(f'operations that never had an effect: {idle}')
    _SEEN.clear()
    return {
        'menu': menu_name,
        'menu_size': len(_MENU),
        'menu_kinds': {
            k: sum(1 for o in _MENU if o[0] == k)
            for k in ('put', 'clear', 'expire', 'flush', 'restart')},
        'depth': depth,
        'states': states,
        'transitions': transitions,
        'new_states_per_level': per_level,
        'effective_transitions': effective,
        'samples': samples,
    }


def run(ctx: Ctx) -> Result:
    env = setup(ctx.scratch)
    plan = ctx.pick([('core', 3)], [('wide', 3), ('mini', 4)])
    if os.environ.get('C22_PLAN'):      # development aid, e.g. "core:2"
        plan = [(a.split(':')[0], int(a.split(':')[1]))
                for a in os.environ['C22_PLAN'].split(',')]
    vio = {}        # signature -> [count, [examples]]
    parts = [explore(ctx, env, name, depth, vio) for name, depth in plan]
    violations = []
    for sig, (count, examples) in sorted(vio.items()):
        for hist, what in examples:
            violations.append(Violation(
                sig,
                f'after {_show(hist)}: {what} [{count} occurrence(s) of this '
                f'class]',
                {'history': hist}))
    transitions = sum(p['transitions'] for p in parts)
    cov = {
        'states': sum(p['states'] for p in parts),
        'transitions': transitions,
        # every transition = one history replayed on a fresh real component
        'traces_validated_against_impl': transitions + len(parts),
        'explorations': parts,
        'violation_occurrences': {s: c for s, (c, _) in vio.items()},
        'observed': (
            'per history: broadcast state vs reference after each operation; '
            'get_updated_rtconfig for ' +
            ', '.join(f'{c}/{t}' for t, c in TARGETS) +
            '; broadcast state after flush + reload into fresh managers'),
        'samples': [x for p in parts for x in p['samples']][:8] or ['(none)'],
        'exhaustive': True,
    }
    return Result(cov, violations, assumptions=[
        'decided up to the stated depth over the stated menus (points *, 1, 2'
        '; namespaces root, FAM, t; settings script, [environment]A/B, '
        'execution time limit; integer cycling; one family level)',
        'expire with no cutoff (never produced by the CLI) is not judged',
        'only the point string "*" is used for all-cycle broadcasts',
        'settings that cylc rejects are outside the menu (a rejection of a '
        'menu entry is a harness error)',
        'key order inside the received configuration is not judged; a None '
        'value and an absent key are treated alike',
        'restart = process_queued_ops, close, new WorkflowDatabaseManager + '
        'BroadcastMgr, select_broadcast_states(load_db_broadcast_states), '
        'post_load_db_coerce (the calls Scheduler._load_pool_from_db makes); '
        'a whole-scheduler restart is the business of C19',
        'the public database is written but not judged here (C21)',
    ])


def _show(hist):
    parts = []
    for op in hist:
        if op[0] == 'put':
            parts.append(f"put({','.join(op[1])}; {','.join(op[2])}; "
                         f"{op[3]})")
        elif op[0] == 'clear':
            parts.append(f'clear(points={op[1]}, ns={op[2]}, '
                         f'cancel={op[3]})')
        elif op[0] == 'expire':
            parts.append(f'expire({op[1]})')
        else:
            parts.append(op[0])
    return ' ; '.join(parts)


def replay(payload):
    env = setup(scratch_root())
    _, bad, _, _ = execute(payload['history'], env)
    seen = set()
    out = []
    for sig, what in bad:
        if sig not in seen:
            seen.add(sig)
            out.append(Violation(sig, what, payload))
    return out
