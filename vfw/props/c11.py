"""C11 Completion: tasks are retained exactly when incomplete (Engine-B part).

Every graph-declarable task definition over the standard outputs and two
(thorough: three) custom outputs is produced by a real graph parse
(WorkflowConfig load), and for every subset of completed outputs the real
`TaskOutputs(tdef).is_complete()` is compared with a truth table written from
the documented default rule:

    complete  <=>  (every required output is there and the job finished)
                   or (failure is tolerated    and failed is there)
                   or (submit-failure tolerated and submit-failed is there)
                   or (expiry tolerated         and expired is there)

and, for user completion expressions (every and/or expression up to a leaf
bound), with an independent parse + evaluation of the expression.

The scheduler leg (pool membership after a finish) is not part of this module.
"""
from __future__ import annotations

import itertools
import os
import shutil
from pathlib import Path

from ..core import (
    Ctx, HarnessError, Result, Violation, chunks, pmap, scratch_root,
)
from .c12 import all_trees, ev, leaves, parse, render

LEVEL = 'exploration'

STD = ('expired', 'submitted', 'submit-failed', 'started', 'succeeded',
       'failed')
FINAL = ('succeeded', 'failed', 'submit-failed', 'expired')
CUSTOM2 = {'x': 'msg x', 'y-2': 'msg y two'}
CUSTOM3 = {'x': 'msg x', 'y-2': 'msg y two', 'z-z-3': 'z three'}


def compvar(trigger):
    return trigger.replace('-', '_')


# ------------------------------------------------------------ declarations

def declarations(custom, with_started=True):
    """None = not mentioned in the graph, 'req' = "a:o => s",
    'opt' = "a:o? => s"; only combinations the graph syntax admits."""
    sf = [(None, None), ('req', None), ('opt', None),
          (None, 'req'), (None, 'opt'), ('opt', 'opt')]
    sub = [(None, None), ('req', None), ('opt', None),
           (None, 'opt'), ('opt', 'opt')]
    tri = [None, 'req', 'opt']
    out = []
    for (s, f), (sb, sbf), e, st in itertools.product(
            sf, sub, [None, 'opt'], tri if with_started else [None]):
        for cus in itertools.product(tri, repeat=len(custom)):
            d = {'succeeded': s, 'failed': f, 'submitted': sb,
                 'submit-failed': sbf, 'expired': e, 'started': st}
            d.update(zip(custom, cus))
            out.append(d)
    return out


def fmt_decl(decl):
    return ', '.join(
        f"{t}{'?' if h == 'opt' else ''}" for t, h in decl.items() if h
    ) or 'nothing declared'


def flow_text(tasks, custom):
    """tasks: [(name, decl, completion|None)]"""
    lines = ['r => ' + ' & '.join(n for n, _, _ in tasks)]
    for name, decl, _ in tasks:
        for trig, how in decl.items():
            if how:
                lines.append(
                    f"{name}:{trig}{'?' if how == 'opt' else ''} => s")
    rt = [f'    [[{name}]]\n        completion = {comp}'
          for name, _, comp in tasks if comp is not None]
    graph = '\n            '.join(lines)
    outs = '\n'.join(f'            {t} = {m}' for t, m in custom.items())
    return (
        '[scheduler]\n    allow implicit tasks = True\n'
        '[scheduling]\n    [[graph]]\n'
        f'        R1 = """\n            {graph}\n        """\n'
        '[runtime]\n    [[root]]\n        [[[outputs]]]\n'
        f'{outs}\n' + '\n'.join(rt) + '\n')


_N = [0]


def load(scratch, text):
    from cylc.flow.config import WorkflowConfig
    from cylc.flow.scheduler_cli import RunOptions
    _N[0] += 1
    d = Path(scratch) / f'c11-{os.getpid()}-{_N[0]}'
    d.mkdir(parents=True, exist_ok=True)
    (d / 'flow.cylc').write_text(text)
    try:
        return WorkflowConfig('c11', str(d / 'flow.cylc'), RunOptions())
    finally:
        shutil.rmtree(d, ignore_errors=True)


# ---------------------------------------------------------------- reference

def rule(decl):
    """The documented default rule for a declaration:
    (required outputs, fail_tol, sf_tol, exp_tol); sf_tol is None when the
    statement does not decide it (submitted optional, submit-failed not)."""
    req = {t for t, h in decl.items() if h == 'req'}
    if decl['succeeded'] is None and decl['failed'] is None:
        # success is presumed required when neither is mentioned
        req.add('succeeded')
    fail_tol = decl['succeeded'] == 'opt' or decl['failed'] == 'opt'
    if decl['submit-failed'] == 'opt':
        sf_tol = True
    elif decl['submitted'] == 'opt':
        sf_tol = None
    else:
        sf_tol = False
    exp_tol = decl['expired'] == 'opt'
    return req, fail_tol, sf_tol, exp_tol


def ref_complete(rl, S):
    """True/False, or None where the statement does not decide; plus the
    name of the deciding clause."""
    req, fail_tol, sf_tol, exp_tol = rl

    def val(sf):
        if req <= S and ('succeeded' in S or 'failed' in S):
            return True, 'all-required'
        if fail_tol and 'failed' in S:
            return True, 'failure-tolerated'
        if sf and 'submit-failed' in S:
            return True, 'submit-failure-tolerated'
        if exp_tol and 'expired' in S:
            return True, 'expiry-tolerated'
        return False, 'incomplete'
    if sf_tol is None:
        a, b = val(True), val(False)
        return (a if a[0] == b[0] else (None, 'undecided'))
    return val(sf_tol)


def closed(S):
    if ('succeeded' in S or 'failed' in S) and not (
            'started' in S and 'submitted' in S):
        return False
    if 'started' in S and 'submitted' not in S:
        return False
    return True


def subsets(triggers):
    for r in range(len(triggers) + 1):
        for c in itertools.combinations(triggers, r):
            yield frozenset(c)


# --------------------------------------------------------------- real code

def real_is_complete(tdef, S, custom):
    """Fresh TaskOutputs for tdef, complete the messages of S, ask it."""
    from cylc.flow.task_outputs import TaskOutputs
    outs = TaskOutputs(tdef)
    for trig in sorted(S):
        r = outs.set_message_complete(custom.get(trig, trig))
        if r is not True:
            raise HarnessError(f'set_message_complete({trig}) -> {r}')
    try:
        got = outs.is_complete()
    except Exception as exc:
        # the decision could not be made at all: reported as a verdict that
        # equals neither True nor False
        return f'raises {type(exc).__name__}'
    if not isinstance(got, bool):
        return f'returns {type(got).__name__}'
    return got


def final_of(S):
    return '+'.join(f for f in FINAL if f in S) or 'none'


def sig_default(decl, S, got, want):
    req, fail_tol, sf_tol, exp_tol = rule(decl)
    tol = '+'.join(n for n, f in (
        ('fail', fail_tol), ('submit-fail', sf_tol), ('expire', exp_tol))
        if f) or 'none'
    extra = sorted(req - {'succeeded', 'failed'})
    kinds = sorted({'custom' if t not in STD else t for t in extra})
    if not isinstance(got, bool):
        return f"default-rule:is_complete-{got.replace(' ', '-')}"
    return (f"default-rule:{'removed' if got else 'retained'}-but-"
            f"{'complete' if want else 'incomplete'}:finished-by="
            f"{final_of(S)}:tolerates={tol}:other-required="
            f"{'+'.join(kinds) or 'none'}")


def sig_user(tree, S, got, want):
    if not isinstance(got, bool):
        return f"user-expression:is_complete-{got.replace(' ', '-')}"
    hy = any('-' in t and compvar(t) in leaves(tree) for t in S)
    return (f'user-expression:is_complete={got}-but-expression-{want}:'
            f'finished-by={final_of(S)}:hyphenated-output-complete={int(hy)}')


# ------------------------------------------------------------------ workers

_G = {}


def _work_default(job):
    scratch, idxs = job
    decls = _G['decls']
    custom = _G['custom']
    trigs = STD + tuple(custom)
    cfg = load(scratch, flow_text(
        [(f'a{i}', decls[i], None) for i in idxs], custom))
    all_S = list(subsets(trigs))
    bad = []
    n = {'judged': 0, 'undecided': 0, 'unfinished_not_judged': 0,
         'closed_judged': 0}
    clause = {}
    exprs = {}
    for i in idxs:
        decl = decls[i]
        tdef = cfg.taskdefs[f'a{i}']
        rl = rule(decl)
        exprs.setdefault(tdef.rtconfig['completion'], fmt_decl(decl))
        for S in all_S:
            if not any(f in S for f in FINAL):
                n['unfinished_not_judged'] += 1
                continue
            want, why = ref_complete(rl, S)
            if want is None:
                n['undecided'] += 1
                continue
            got = real_is_complete(tdef, S, custom)
            n['judged'] += 1
            n['closed_judged'] += closed(S)
            clause[why] = clause.get(why, 0) + 1
            if got != want and len(bad) < 200:
                bad.append({
                    'mode': 'default', 'decl': decl, 'S': sorted(S),
                    'custom': custom, 'got': got, 'want': want,
                    'closed': closed(S),
                    'expr': tdef.rtconfig['completion'],
                    'sig': sig_default(decl, S, got, want),
                    'what': (
                        f'graph [{fmt_decl(decl)}] (derived completion '
                        f'{tdef.rtconfig["completion"]!r}), completed outputs '
                        f'{sorted(S)}: is_complete()={got}, documented rule '
                        f'says {"complete" if want else "incomplete"} '
                        f'({why})')})
    return bad, n, clause, exprs


def _work_user(job):
    scratch, idxs = job
    trs = _G['trees']
    custom = _G['custom']
    udecls = _G['udecls']
    trigs = STD + tuple(custom)
    all_S = list(subsets(trigs))
    envs = [(S, {compvar(t): (t in S) for t in trigs}) for S in all_S]
    bad = []
    n = 0
    n_true = 0
    # one load holds this slice's expressions (tasks u<i>); the declaration
    # rotates through a few graph contexts the expression is valid in or not
    # - is_complete must not care
    from cylc.flow.taskdef import TaskDef
    for i in idxs:
        tree = trs[i]
        text = render(tree, 'min')
        decl = udecls[i % len(udecls)]
        tdef = TaskDef(f'u{i}', {'completion': text}, None, None)
        for trig, msg in custom.items():
            tdef.add_output(trig, msg)
        for trig, how in decl.items():
            if how:
                tdef.set_required_output(trig, how == 'req')
        tdef.tweak_outputs()
        for S, env in envs:
            want = ev(tree, env)
            got = real_is_complete(tdef, S, custom)
            n += 1
            n_true += want
            if got != want and len(bad) < 200:
                bad.append({
                    'mode': 'user', 'expr': text, 'S': sorted(S),
                    'decl': decl, 'custom': custom, 'got': got, 'want': want,
                    'sig': sig_user(tree, S, got, want),
                    'what': (f'completion = {text!r}, completed outputs '
                             f'{sorted(S)}: is_complete()={got} but the '
                             f'expression evaluates {want}')})
    return bad, n, n_true


def _work_user_loaded(job):
    """Cross-section through the full config path: user expressions that
    validation accepts, is_complete on the graph-derived TaskDef."""
    from cylc.flow.exceptions import WorkflowConfigError
    scratch, items = job
    trs = _G['trees']
    custom = _G['custom']
    trigs = STD + tuple(custom)
    all_S = list(subsets(trigs))
    bad = []
    n = loads = accepted = 0
    for i, decl in items:
        tree = trs[i]
        text = render(tree, 'min')
        try:
            cfg = load(scratch, flow_text([('a0', decl, text)], custom))
        except WorkflowConfigError:
            loads += 1
            continue
        loads += 1
        accepted += 1
        tdef = cfg.taskdefs['a0']
        for S in all_S:
            env = {compvar(t): (t in S) for t in trigs}
            want = ev(tree, env)
            got = real_is_complete(tdef, S, custom)
            n += 1
            if got != want and len(bad) < 50:
                bad.append({
                    'mode': 'user-loaded', 'expr': text, 'S': sorted(S),
                    'decl': decl, 'custom': custom, 'got': got, 'want': want,
                    'sig': 'via-config:' + sig_user(tree, S, got, want),
                    'what': (f'graph [{fmt_decl(decl)}] completion = '
                             f'{text!r}, completed outputs {sorted(S)}: '
                             f'is_complete()={got} but the expression '
                             f'evaluates {want}')})
    return bad, n, loads, accepted


# --------------------------------------------------------------------- run

def run(ctx: Ctx) -> Result:
    custom = ctx.pick(CUSTOM2, CUSTOM3)
    decls = declarations(tuple(custom))
    n_leaves = ctx.pick(4, 5)
    trs = all_trees(n_leaves)
    base = {t: None for t in STD + tuple(custom)}
    udecls = [
        dict(base),
        dict(base, succeeded='opt', failed='opt', x='opt'),
        dict(base, failed='req', x='req', expired='opt'),
    ]
    udecls[0]['y-2'] = 'req'
    _G.update(decls=decls, custom=custom, trees=trs, udecls=udecls)
    nchunk = ctx.workers * 4
    sc = str(ctx.scratch)
    vios = []

    # default rule on graph-derived task definitions
    n = {'judged': 0, 'undecided': 0, 'unfinished_not_judged': 0,
         'closed_judged': 0}
    clause = {}
    exprs = {}
    for bad, nn, cl, ex in pmap(
            _work_default,
            [(sc, c) for c in chunks(range(len(decls)), nchunk)],
            ctx.workers):
        vios.extend(bad)
        for k in n:
            n[k] += nn[k]
        for k, v in cl.items():
            clause[k] = clause.get(k, 0) + v
        for k, v in ex.items():
            exprs.setdefault(k, v)
    for why in ('all-required', 'failure-tolerated',
                'submit-failure-tolerated', 'expiry-tolerated', 'incomplete'):
        if not clause.get(why):
            raise HarnessError(f'clause {why} never decisive')

    # user expressions on directly built TaskDefs
    n_user = n_user_true = 0
    for bad, k, kt in pmap(
            _work_user, [(sc, c) for c in chunks(range(len(trs)), nchunk)],
            ctx.workers):
        vios.extend(bad)
        n_user += k
        n_user_true += kt
    if not (0 < n_user_true < n_user):
        raise HarnessError('user-expression leg vacuous')

    # user expressions through validation: a cross-section
    step = ctx.pick(40, 60)
    items = []
    for j, i in enumerate(range(0, len(trs), step)):
        t = trs[i]
        ref = leaves(t)
        # a declaration the expression has a chance against: mention every
        # referenced output as optional
        d = dict(base)
        for trig in d:
            if compvar(trig) in ref:
                d[trig] = 'opt'
        if d['succeeded'] == 'opt' or d['failed'] == 'opt':
            d['succeeded'] = d['failed'] = 'opt'
        items.append((i, d))
        if j % 2 == 0:
            items.append((i, dict(base)))
    n_ul = loads = acc = 0
    for bad, k, ld, ac in pmap(
            _work_user_loaded, [(sc, c) for c in chunks(items, nchunk)],
            ctx.workers):
        vios.extend(bad)
        n_ul += k
        loads += ld
        acc += ac
    if not acc:
        raise HarnessError('no user expression accepted by validation')

    vios.sort(key=lambda b: (b['sig'], len(b['S']), len(b['expr']),
                             b['expr'], b['S']))
    seen = set()
    violations = []
    for b in vios:
        key = (b['sig'], b['expr'], tuple(b['S']), fmt_decl(b['decl']))
        if key in seen:
            continue
        seen.add(key)
        violations.append(Violation(
            b['sig'], b['what'], {k: v for k, v in b.items() if k != 'what'}))

    ex_items = sorted(exprs.items(), key=lambda kv: (len(kv[0]), kv[0]))
    cov = {
        'evaluations': n['judged'] + n_user + n_ul,
        'distinct_nontrivial': len(exprs),
        'rule': (
            'one evaluation = one (task definition, set of completed '
            'outputs) through a fresh real TaskOutputs.is_complete(); '
            'non-trivial = distinct default completion expressions cylc '
            'derived for the enumerated graph declarations'),
        'graph_declarations': len(decls),
        'outputs': list(STD + tuple(custom)),
        'output_subsets_per_definition': 2 ** (len(STD) + len(custom)),
        'default_rule_judged': n['judged'],
        'default_rule_judged_implication_closed': n['closed_judged'],
        'default_rule_undecided_by_statement': n['undecided'],
        'default_rule_unfinished_sets_not_judged': n['unfinished_not_judged'],
        'deciding_clause_counts': clause,
        'user_expressions': len(trs),
        'user_expression_max_leaves': n_leaves,
        'user_expression_evaluations': n_user,
        'user_expression_true': n_user_true,
        'user_expression_config_loads': loads,
        'user_expression_config_accepted': acc,
        'user_expression_via_config_evaluations': n_ul,
        'samples': [
            {'graph': g, 'derived_completion': e}
            for e, g in ex_items[:: max(1, len(ex_items) // 6)][:6]
        ] + [{'user_completion': render(trs[i], 'min')}
             for i in (0, len(trs) // 2, len(trs) - 1)],
        'exhaustive': True,
    }
    # scheduler leg: pool membership after a finish
    leg = scheduler_leg(ctx)
    violations.extend(leg.violations)
    cov['scheduler_leg'] = leg.coverage
    cov['exhaustive'] = bool(leg.coverage.get('exhaustive'))
    return Result(cov, violations, assumptions=[
        'two legs: (B) TaskOutputs.is_complete() against the documented '
        'rule for every definition and output subset; (A) model checking of '
        'the real Scheduler: a proxy removed as completed in a final status '
        'must be complete, and at every main-loop boundary no complete '
        'proxy in a final status is still pooled (flow-wait proxies '
        'excepted); the "logged" part of the statement is not judged',
        'scheduler leg: one-cycle workflows (see scheduler_leg.bounds), jobs '
        'may emit any subset of their custom outputs, listed tasks may fail, '
        'one `cylc trigger` of the possibly incomplete task per execution at '
        'any main-loop boundary',
        'task definitions are those a graph can declare (submit-failed and '
        'expired never required; succeeded/failed and submitted/'
        'submit-failed only both mentioned when both optional); produced by '
        'a real WorkflowConfig load',
        'default rule judged on finished tasks only (completed set contains '
        'succeeded, failed, submit-failed or expired), for every such subset '
        '(implication-closed or not)',
        'tolerated failure waives the other required outputs (documented: '
        '"or failed" is an alternative to the required outputs); when '
        'failure is tolerated, success still needs every required output',
        'a task declaring only "submitted?" (submit-failed not mentioned): '
        'whether submit-failure is tolerated is not decided by the '
        'statement; sets where that matters are not judged',
        'user expressions: and/or/parentheses over succeeded, failed, x, '
        'y_2, expired, submit_failed up to the leaf bound, all subsets of '
        'completed outputs, on directly constructed real TaskDefs; a '
        'cross-section also through full validation',
        'the empty-expression fallback (task removed by reload/restart) is '
        'out of scope',
    ])


# ------------------------------------------------------------------ replay

# ------------------------------------------------ scheduler leg (Engine A)

def sched_catalogue(tier: str):
    from ..sched import catalogue as cat
    from ..sched.catalogue import A, E, spec_from
    shapes = dict(cat.basic_shapes())
    trig = [('force_trigger_tasks', {'tasks': ['1/a'], 'flow': ['all']})]
    rows = [
        # name, items, ops, failing tasks, emit
        # a required custom output the job may or may not produce; the
        # incomplete task may be run again by the operator (same proxy)
        ('custom-rerun', shapes['custom'], trig, (), 'any'),
        ('customopt', shapes['customopt'], [], (), 'any'),
        ('failopt', shapes['failopt'], [], ('a',), 'all'),
        ('chain2-fail-rerun', shapes['chain2'], trig, ('a',), 'all'),
    ]
    if tier == 'thorough':
        rows += [
            ('custom2-rerun', [E(A('a', 0, 'x'), 'b'), E(A('a', 0, 'y'), 'c')],
             trig, (), 'any'),
            ('customopt-rerun', shapes['customopt'], trig, ('a',), 'any'),
            ('finish', shapes['finish'], [], ('a',), 'all'),
        ]
    out = []
    for name, items, ops, fails, emit in rows:
        sp = spec_from([('P1', items)], 1, 1, name=name)
        sp.update(ops=ops, fail_tasks=list(fails), emit=emit)
        out.append(sp)
    return out


def make_factory(spec):
    from ..sched.mon_c11 import Retention
    from ..sched.monitors import PoolInvariants
    from ..sched.profile import OpProfile
    ops = list(spec['ops'])

    def factory():
        outcomes = {t: ['succeeded', 'failed'] for t in spec['fail_tasks']}
        return OpProfile(
            spec, ops=lambda w: ops, op_budget=1 if ops else 0,
            monitors=[Retention, PoolInvariants], outcomes=outcomes,
            emit=spec['emit'], jump=())
    return factory


def scheduler_leg(ctx: Ctx) -> Result:
    from ..sched.run import explore_all, result_from
    specs = sched_catalogue(ctx.tier)
    st = explore_all(
        ctx, [make_factory(s) for s in specs],
        max_states=ctx.pick(4000, 40000), max_seconds=ctx.pick(200, 1500))
    if not st.violations and not st.error:
        if not any(k.startswith('quiescent:stalled') for k in st.terminals):
            raise HarnessError(
                'scheduler leg vacuous: no run ended stalled on an '
                f'incomplete task (terminals {sorted(st.terminals)})')
    return result_from(
        ctx, st, prop='C11',
        bounds={'workflows': [s['name'] for s in specs],
                'operator commands per execution': 1},
        assumptions=[], min_states=100)


def replay(payload):
    if payload.get('events') is not None:
        from ..sched.run import replay_violation
        specs = {s['name']: s for s in sched_catalogue('thorough')}
        return replay_violation(
            payload, lambda pl: make_factory(specs[pl['spec_name']]))
    from cylc.flow.taskdef import TaskDef
    custom = payload['custom']
    decl = payload['decl']
    S = frozenset(payload['S'])
    sc = scratch_root()
    mode = payload['mode']
    trigs = STD + tuple(custom)
    if mode == 'default':
        cfg = load(sc, flow_text([('a0', decl, None)], custom))
        tdef = cfg.taskdefs['a0']
        want, why = ref_complete(rule(decl), S)
        if want is None:
            return []
        got = real_is_complete(tdef, S, custom)
        if got == want:
            return []
        return [Violation(
            sig_default(decl, S, got, want),
            f'graph [{fmt_decl(decl)}] (derived completion '
            f'{tdef.rtconfig["completion"]!r}), completed {sorted(S)}: '
            f'is_complete()={got}, rule says {want} ({why})', payload)]
    text = payload['expr']
    tree = parse(text)
    if mode == 'user':
        tdef = TaskDef('u0', {'completion': text}, None, None)
        for trig, msg in custom.items():
            tdef.add_output(trig, msg)
        for trig, how in decl.items():
            if how:
                tdef.set_required_output(trig, how == 'req')
        tdef.tweak_outputs()
    else:
        cfg = load(sc, flow_text([('a0', decl, text)], custom))
        tdef = cfg.taskdefs['a0']
    env = {compvar(t): (t in S) for t in trigs}
    want = ev(tree, env)
    got = real_is_complete(tdef, S, custom)
    if got == want:
        return []
    return [Violation(
        ('' if mode == 'user' else 'via-config:')
        + sig_user(tree, S, got, want),
        f'completion = {text!r}, completed {sorted(S)}: is_complete()={got} '
        f'but the expression evaluates {want}', payload)]
