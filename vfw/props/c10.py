"""C10 Stale, duplicate and out-of-order job messages cannot corrupt state."""
from __future__ import annotations

from ..core import Ctx, HarnessError, Result
from ..sched.mon_c10 import (
    MsgProfile, StaleGuard, collect_counters, reset_counters)
from ..sched.run import explore_all, replay_violation, result_from

LEVEL = 'model_checking'

ASSUME = [
    'bounded catalogue (see bounds): 1-2 tasks, 0-1 execution retries, one '
    'cycle point, integer cycling, localhost jobs, default poll intervals '
    '(PT15M) released by clock jumps',
    'one environment event per main-loop iteration, except for the "burst" '
    'deviation (a job message is queued without a scheduler iteration, so '
    'that the next event is batched with it)',
    'deviation budget per execution as in bounds; in-flight messages may be '
    'delivered in any order; a *lost* message is only considered for '
    'started/succeeded/failed (a lost custom-output message can only be '
    'recovered by a poll that nothing guarantees)',
    'poll results are computed from the true job state when the jobs-poll '
    'command completes, or (deviation "snap") at an earlier instant of its '
    'run; a poll timer only fires while no other poll is outstanding',
    'custom outputs are required outputs (the task stays in the pool until '
    'they arrive); tasks that left the pool are judged on the task_states '
    '/ task_outputs tables; messages for tasks no longer in the pool are '
    'not judged by clause (ii)',
    'the operator-free `poll_tasks */*` event is only offered when every '
    'non-waiting pool task has a launched job',
]


def catalogue(tier: str):
    """(name, graph, tasks, failing tasks, emit, budget, deviations)"""
    R1 = {'retries': {'exec': 1}}
    O1 = {'outputs': {'x': 'msg-x'}}
    rows = [
        ('one', 'a', {}, ('a',), 'all', 2, None),
        ('one-retry', 'a', {'a': R1}, ('a',), 'all', 1, None),
        ('custom1', 'a:x', {'a': dict(O1)}, ('a',), 'all', 1, None),
        ('chain', 'a => b', {}, (), 'all', 1, None),
    ]
    if tier == 'thorough':
        rows += [
            ('one-retry-b2', 'a', {'a': R1}, ('a',), 'all', 2, None),
            ('custom', 'a:x => b', {'a': dict(O1)}, ('a',), 'all', 1, None),
            ('custom1-b2', 'a:x', {'a': dict(O1)}, ('a',), 'all', 2, None),
            ('custom1-retry', 'a:x', {'a': {**O1, **R1}}, ('a',), 'any', 1,
             None),
            ('chain-fail', 'a => b', {}, ('a', 'b'), 'all', 1, None),
            ('chain-retry', 'a => b', {'a': R1}, ('a',), 'all', 1, None),
        ]
    specs = []
    for name, graph, tasks, fails, emit, budget, devs in rows:
        specs.append({
            'name': name, 'icp': 1, 'fcp': 1, 'graph': {'R1': graph},
            'tasks': tasks, 'fail_tasks': list(fails), 'emit': emit,
            'budget': budget, 'deviations': devs,
        })
    return specs


def make_factory(spec, monitors=None):
    def factory():
        outcomes = {t: ['succeeded', 'failed'] for t in spec['fail_tasks']}
        kw = {}
        if spec.get('deviations'):
            kw['deviations'] = tuple(spec['deviations'])
        return MsgProfile(
            spec, budget=spec['budget'], outcomes=outcomes,
            emit=spec['emit'],
            monitors=monitors or [StaleGuard], **kw)
    return factory


NEED = ('dev:hold', 'dev:lose', 'dev:dup', 'dev:early', 'dev:snap',
        'dev:pollcmd', 'dev:burst', 'deliver-late', 'stale-received',
        'backward-received', 'backward-poll-seen', 'batched-received',
        'timer-poll-seen',
        'final-judged', 'pm:(polled)', 'pm:(received)')


def run(ctx: Ctx) -> Result:
    specs = catalogue(ctx.tier)
    reset_counters()
    st = explore_all(
        ctx, [make_factory(s) for s in specs],
        max_states=ctx.pick(30000, 400000),
        max_seconds=ctx.pick(900, 3000))
    cnt = collect_counters()
    if not st.violations and not st.error:
        missing = [k for k in NEED if not cnt.get(k)]
        if missing:
            raise HarnessError(
                f'vacuous: never observed {missing} (counters {cnt})')
    return result_from(
        ctx, st, prop='C10',
        bounds={'workflows': {s['name']: {
                    'graph': s['graph']['R1'], 'deviation budget':
                    s['budget'], 'failing': s['fail_tasks'],
                    'retries': {t: v.get('retries') for t, v in
                                s['tasks'].items() if v.get('retries')}}
                    for s in specs}},
        assumptions=ASSUME, min_states=200,
        extra_cov={'observations': cnt})


def replay(payload):
    specs = {s['name']: s for s in catalogue('thorough')}
    specs.update({s['name']: s for s in catalogue('quick')})
    return replay_violation(
        payload, lambda pl: make_factory(specs[pl['spec_name']]))
