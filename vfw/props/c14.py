"""C14 Graph parsing is faithful and insensitive to presentation.

Engine B, three legs, all driving the real ``GraphParser``:

A. *structure x presentation*: every graph AST in a bounded grammar (chains of
   segments over task names a..d, ``&``/``|``/parentheses on the left, ``&``
   on the right, one decorated node) is rendered in every combination of up to
   2 (quick) / 3 (thorough) presentation edits out of {cut chains into pairs,
   reorder lines, duplicate a line, spacing, comments / blank lines, line
   continuation at any arrow or operator, before or after it}.  All renderings
   must give the same dependencies / output optionality (or all be rejected),
   and the dependencies must be the boolean expressions written.
B. *names*: expressions over task names that are prefixes / suffixes /
   substrings of one another or end in a non-word character, compared with
   the expression written.
C. *malformed lines*: every single-character deletion / replacement /
   insertion in a set of base lines; mutants that an independent strict
   tokenizer classifies as malformed must raise ``GraphParseError`` at every
   line position (alone, first, middle, last).

A difference in the *recorded* optionality between two renderings is only a
violation when it is confirmed by loading both through the real
``WorkflowConfig`` (different acceptance, TaskDef output flags or
dependencies).
"""
from __future__ import annotations

import itertools
import re

from ..core import Ctx, HarnessError, Result, Violation, chunks, pmap

LEVEL = 'exploration'

ALIAS = {'': 'succeeded', 'succeed': 'succeeded', 'fail': 'failed',
         'start': 'started', 'submit': 'submitted', 'finish': 'finished',
         'x': 'x', 'x-y': 'x-y', 'x_y': 'x_y', 'fail-x': 'fail-x',
         'start_2': 'start_2'}


# ===================================================================== AST
# node  = [name, offset, qualifier, optional, suicide]
# expr  = ['n', node] | ['&', e, e, ...] | ['|', e, e, ...]
# chain = [expr, expr, ...]          graph = [chain, ...]

def N(name, off='', qual='', opt=False, suicide=False):
    return ['n', [name, off, qual, opt, suicide]]


def node_text(n):
    name, off, qual, opt, suicide = n
    return (('!' if suicide else '') + name + off
            + (':' + qual if qual else '') + ('?' if opt else ''))


def toks(e, top=True):
    if e[0] == 'n':
        return [node_text(e[1])]
    out = []
    for i, x in enumerate(e[1:]):
        if i:
            out.append(e[0])
        out += toks(x, False)
    return out if top else ['('] + out + [')']


def nodes(e):
    if e[0] == 'n':
        return [e[1]]
    return [n for x in e[1:] for n in nodes(x)]


def atoms_for(n):
    name, off, qual, opt, suicide = n
    out = ALIAS.get(qual, qual)
    if out == 'finished':
        return [f'{name}{off}:succeeded', f'{name}{off}:failed']
    return [f'{name}{off}:{out}']


def ref_expr(e):
    if e[0] == 'n':
        at = [('atom', a) for a in atoms_for(e[1])]
        return at[0] if len(at) == 1 else ('or', at)
    return ('and' if e[0] == '&' else 'or', [ref_expr(x) for x in e[1:]])


def reference(graph):
    """{right task: (member-level AST, suicide)} from the AST: every pair
    (segment i, segment i+1) of every chain triggers every node of the right
    segment off the whole left expression."""
    out = {}
    for chain in graph:
        for left, right in zip(chain, chain[1:]):
            for n in nodes(right):
                if n[1]:
                    continue   # offset node on the right defines no trigger
                out.setdefault((n[0], n[4]), []).append(ref_expr(left))
    return {k: ('and', v) for k, v in out.items()}


def declared_opt(graph):
    """{(task, output): optional} as written; conflicts dropped."""
    exp, clash = {}, set()

    def put(n, implicit_ok):
        name, off, qual, opt, suicide = n
        if suicide:
            return
        if not qual and not opt and not implicit_ok:
            return
        out = ALIAS.get(qual, qual)
        outs = ['succeeded', 'failed'] if out == 'finished' else [out]
        for o in outs:
            val = True if out == 'finished' else bool(opt)
            if exp.setdefault((name, o), val) != val:
                clash.add((name, o))
    for chain in graph:
        for i, seg in enumerate(chain):
            is_left = i < len(chain) - 1 or len(chain) == 1
            for n in nodes(seg):
                put(n, implicit_ok=is_left)
    return {k: v for k, v in exp.items() if k not in clash}


# ----------------------------------------------------- tiny boolean algebra

def ev(ast, true):
    if ast[0] == 'atom':
        return ast[1] in true
    if ast[0] == 'and':
        return all(ev(x, true) for x in ast[1])
    return any(ev(x, true) for x in ast[1])


def atoms_of(ast, acc=None):
    acc = set() if acc is None else acc
    if ast[0] == 'atom':
        acc.add(ast[1])
    else:
        for x in ast[1]:
            atoms_of(x, acc)
    return acc


class BadExpr(Exception):
    pass


_TOK = re.compile(r'([&|()])')


def parse_bool(s):
    tk = [t.strip() for t in _TOK.split(s)]
    tk = [t for t in tk if t]
    pos = [0]

    def peek():
        return tk[pos[0]] if pos[0] < len(tk) else None

    def unit():
        t = peek()
        if t is None or t in '&|)':
            raise BadExpr(s)
        pos[0] += 1
        if t == '(':
            r = or_()
            if peek() != ')':
                raise BadExpr(s)
            pos[0] += 1
            return r
        return ('atom', t)

    def and_():
        items = [unit()]
        while peek() == '&':
            pos[0] += 1
            items.append(unit())
        return items[0] if len(items) == 1 else ('and', items)

    def or_():
        items = [and_()]
        while peek() == '|':
            pos[0] += 1
            items.append(and_())
        return items[0] if len(items) == 1 else ('or', items)

    r = or_()
    if pos[0] != len(tk):
        raise BadExpr(s)
    return r


def table(ast, atoms):
    return tuple(
        ev(ast, {a for a, b in zip(atoms, bits) if b})
        for bits in itertools.product((False, True), repeat=len(atoms)))


# ============================================================== rendering
# A rendering is described by a JSON-able dict `d`:
#   cut   : sorted list of [chain index, arrow index] cut into pairs
#   order : permutation of the logical lines (after cutting)
#   dup   : index of a logical line appended again at the end, or None
#   sp    : spacing policy 0..3
#   cm    : comment policy 0..3
#   br    : [logical line (after order/dup), operator token index,
#            'after'|'before'] or None

BASE = {'cut': [], 'order': None, 'dup': None, 'sp': 0, 'cm': 0, 'br': None}
OPS = ('=>', '&', '|')
COMMENT = '# note: a b => c & d | e'


def logical_lines(graph, cut):
    cut = {tuple(c) for c in cut}
    lines = []
    for ci, chain in enumerate(graph):
        cur = [chain[0]]
        for ai in range(len(chain) - 1):
            if (ci, ai) in cut:
                cur.append(chain[ai + 1])
                lines.append(cur)
                cur = [chain[ai + 1]]
            else:
                cur.append(chain[ai + 1])
        if len(cur) > 1 or len(chain) == 1:
            lines.append(cur)
    out = []
    for ln in lines:
        t = []
        for i, seg in enumerate(ln):
            if i:
                t.append('=>')
            t += toks(seg)
        out.append(t)
    return out


def join(tokens, sp):
    if sp == 1:
        return ''.join(tokens)
    if sp == 2:
        return ' \t '.join(tokens)
    if sp == 3:
        return '    ' + ' '.join(tokens) + '  \t'
    return ' '.join(tokens)


def render(graph, d):
    lines = logical_lines(graph, d['cut'])
    if d['order'] is not None:
        lines = [lines[i] for i in d['order']]
    if d['dup'] is not None:
        lines = lines + [lines[d['dup']]]
    phys = []
    for li, t in enumerate(lines):
        if d['br'] is not None and d['br'][0] == li:
            _, oi, mode = d['br']
            k = oi + 1 if mode == 'after' else oi
            phys.append((join(t[:k], d['sp']), True))
            phys.append((join(t[k:], d['sp']), False))
        else:
            phys.append((join(t, d['sp']), False))
    out = []
    cm = d['cm']
    if cm == 2:
        out.append(COMMENT)
    for text, _cont in phys:
        if cm == 1:
            text = text + '  ' + COMMENT
        elif cm == 3:
            text = text + '#x y'
        out.append(text)
        if cm == 2:
            out.append('   ' + COMMENT)
        elif cm == 3:
            out.append('')
            out.append('   \t')
    return '\n'.join(out)


def renderings(graph, max_edits):
    """Every descriptor with at most max_edits non-default dimensions."""
    # (cutting at the last arrow of a chain changes nothing)
    arrows = [[ci, ai] for ci, ch in enumerate(graph)
              for ai in range(len(ch) - 2)]
    cuts = [list(c) for r in range(len(arrows) + 1)
            for c in itertools.combinations(arrows, r)]
    seen = set()
    for cut in cuts:
        lines = logical_lines(graph, cut)
        nl = len(lines)
        n_used = 1 if cut else 0
        if n_used > max_edits:
            continue
        perms = [None] + [list(p) for p in itertools.permutations(range(nl))
                          if list(p) != list(range(nl))]
        dups = [None] + list(range(nl))
        for order, dup, sp, cm in itertools.product(
                perms, dups, range(4), range(4)):
            used = n_used + (order is not None) + (dup is not None) \
                + (sp != 0) + (cm != 0)
            if used > max_edits:
                continue
            ll = lines if order is None else [lines[i] for i in order]
            if dup is not None:
                ll = ll + [ll[dup]]
            brs = [None]
            if used < max_edits:
                for li, t in enumerate(ll):
                    for oi, tk in enumerate(t):
                        if tk in OPS:
                            brs.append([li, oi, 'after'])
                            brs.append([li, oi, 'before'])
            for br in brs:
                d = {'cut': cut, 'order': order, 'dup': dup, 'sp': sp,
                     'cm': cm, 'br': br}
                key = repr(d)
                if key not in seen:
                    seen.add(key)
                    yield d


def edit_kinds(d):
    k = []
    if d['cut']:
        k.append('cut-chain')
    if d['order'] is not None:
        k.append('reorder')
    if d['dup'] is not None:
        k.append('duplicate')
    if d['sp']:
        k.append(f"spacing{d['sp']}")
    if d['cm']:
        k.append(f"comment{d['cm']}")
    if d['br'] is not None:
        k.append(f"continuation-{d['br'][2]}-"
                 + {'=>': 'arrow', '&': 'and', '|': 'or'}[
                     _br_token(d)])
    return k


def _br_token(d):
    return d.get('_brtok', '=>')


# ================================================================ observing

def observe(text, family_map=None):
    """Normalised outcome of the real parser:
    ('rejected', msg) | ('crash', type) | ('ok', triggers, tasks, opt)"""
    from cylc.flow.exceptions import GraphParseError
    from cylc.flow.graph_parser import GraphParser
    gp = GraphParser(family_map or {})
    try:
        gp.parse_graph(text)
    except GraphParseError as exc:
        return ('rejected', str(exc).split('\n')[0][:80])
    except Exception as exc:   # noqa
        return ('crash', type(exc).__name__)
    trig = {}
    for right, ent in gp.triggers.items():
        items = sorted(
            (e, tuple(v[0]), bool(v[1])) for e, v in ent.items() if e)
        if items:
            trig[right] = items
    opt = {k: bool(v[0]) for k, v in gp.task_output_opt.items()}
    return ('ok', trig, sorted(gp.triggers), opt)


def judge_vs_reference(graph, obs, where):
    """Semantic comparison of one accepted observation with the AST."""
    bad = []
    _, trig, tasks, opt = obs
    ref = reference(graph)
    # (a node written with an offset refers to a task, it does not define
    # one: "Nodes with offsets on the RHS do not define triggers")
    names = {n[0] for ch in graph for seg in ch for n in nodes(seg)
             if not n[1]}
    if set(tasks) != names:
        bad.append(('tasks-differ',
                    f'{where}: parser knows tasks {sorted(tasks)}, the graph '
                    f'names {sorted(names)}'))
    targets = {}
    for (name, suicide), ast in ref.items():
        targets.setdefault(name, []).append((suicide, ast))
    for name in sorted(set(targets) | set(trig)):
        want_items = targets.get(name, [])
        got_items = trig.get(name, [])
        for suicide in (False, True):
            want = [a for s, a in want_items if s == suicide]
            got = [g for g in got_items if g[2] == suicide]
            if not want and not got:
                continue
            if bool(want) != bool(got):
                bad.append((
                    'trigger-presence',
                    f'{where}: task {name} (suicide={suicide}) has '
                    f'{len(got)} trigger expression(s), the graph gives '
                    f'{len(want)}'))
                continue
            want_ast = ('and', want)
            want_atoms = atoms_of(want_ast)
            listed = {a for g in got for a in g[1]}
            try:
                got_ast = ('and', [parse_bool(g[0]) for g in got])
            except BadExpr:
                bad.append((
                    'garbled-expr',
                    f'{where}: trigger expression(s) of {name} '
                    f'{[g[0] for g in got]} are not well-formed boolean '
                    'expressions'))
                continue
            got_atoms = atoms_of(got_ast)
            if got_atoms != want_atoms or listed != want_atoms:
                bad.append((
                    'atoms',
                    f'{where}: {name} depends on {sorted(got_atoms)} '
                    f'(listed {sorted(listed)}), the graph says '
                    f'{sorted(want_atoms)}'))
                continue
            atoms = sorted(want_atoms)
            if len(atoms) <= 10 and table(got_ast, atoms) != table(
                    want_ast, atoms):
                bad.append((
                    'logic',
                    f'{where}: trigger of {name} {[g[0] for g in got]} is '
                    'not equivalent to the expression written'))
    for (t, o), want in sorted(declared_opt(graph).items()):
        got = opt.get((t, o))
        if got is not None and got != want:
            bad.append((
                f'optionality:{o}',
                f'{where}: {t}:{o} recorded optional={got}, written '
                f'optional={want}'))
    return bad


# ============================================================ leg A: ASTs

L_TEMPLATES = {
    1: [lambda a: a],
    2: [lambda a, b: ['&', a, b], lambda a, b: ['|', a, b]],
    3: [lambda a, b, c: ['&', a, ['|', b, c]],
        lambda a, b, c: ['|', ['&', a, b], c],
        lambda a, b, c: ['|', a, ['&', b, c]],
        lambda a, b, c: ['&', a, b, c]],
}
R_TEMPLATES = {
    1: [lambda a: a],
    2: [lambda a, b: ['&', a, b]],
}
LEFT_DECOR = [
    dict(qual='fail', opt=True), dict(opt=True), dict(qual='x'),
    dict(off='[-P1]'), dict(qual='finish'), dict(qual='succeed'),
    dict(qual='start'), dict(off='[-P1]', qual='fail', opt=True),
]
RIGHT_DECOR = [
    dict(opt=True), dict(qual='x'), dict(qual='fail', opt=True),
    dict(suicide=True),
]


def restricted_growth(n, kmax):
    """Canonical name assignments for n slots with <= kmax distinct names."""
    def rec(prefix, m):
        if len(prefix) == n:
            yield list(prefix)
            return
        for v in range(min(m + 1, kmax - 1) + 1):
            yield from rec(prefix + [v], max(m, v))
    yield from rec([0], 0)


def skeletons(max_slots, max_arrows):
    """Lists of chains; a chain is a list of segment arities."""
    shapes = []
    seg_choices_first = [1, 2, 3]
    seg_choices_rest = [1, 2]

    def chains_with(arrows):
        out = []
        for firsts in seg_choices_first:
            for rest in itertools.product(seg_choices_rest, repeat=arrows):
                out.append([firsts] + list(rest))
        return out
    for nchains in (1, 2, 3):
        for arr in itertools.product((1, 2, 3), repeat=nchains):
            if sum(arr) > max_arrows or list(arr) != sorted(
                    arr, reverse=True):
                continue
            for combo in itertools.product(
                    *[chains_with(a) for a in arr]):
                if sum(sum(c) for c in combo) <= max_slots:
                    shapes.append([list(c) for c in combo])
    return shapes


def build(shape, names, tmpl_choice):
    """shape: [[arity...]...]; names: flat list of name strings per slot."""
    it = iter(names)
    tc = iter(tmpl_choice)
    graph = []
    for chain in shape:
        ch = []
        for i, ar in enumerate(chain):
            ns = [N(next(it)) for _ in range(ar)]
            tmpl = (L_TEMPLATES if i == 0 else R_TEMPLATES)[ar][next(tc)]
            ch.append(tmpl(*ns))
        graph.append(ch)
    return graph


def valid_names(shape, assign):
    """No repeated name inside a segment or in adjacent segments."""
    i = 0
    for chain in shape:
        prev = set()
        for ar in chain:
            seg = assign[i:i + ar]
            i += ar
            if len(set(seg)) != len(seg) or prev & set(seg):
                return False
            prev = set(seg)
    return True


def decorate(graph, slot, decor):
    """Copy of graph with the slot-th node occurrence decorated; None when
    the decoration does not apply to that position."""
    import copy
    g = copy.deepcopy(graph)
    k = 0
    for chain in g:
        for si, seg in enumerate(chain):
            for n in nodes(seg):
                if k == slot:
                    first = si == 0
                    if first and decor not in LEFT_DECOR:
                        return None
                    if not first and decor not in RIGHT_DECOR:
                        return None
                    n[1] = decor.get('off', '')
                    n[2] = decor.get('qual', '')
                    n[3] = decor.get('opt', False)
                    n[4] = decor.get('suicide', False)
                    if n[4] and si != len(chain) - 1:
                        return None   # suicide only at the end of a chain
                    return g
                k += 1
    return None


def leg_a_graphs(ctx: Ctx):
    max_slots, max_arrows = (4, 3) if ctx.quick else (5, 3)
    letters = 'abcd'
    out = []
    for shape in skeletons(max_slots, max_arrows):
        nslots = sum(sum(c) for c in shape)
        arities = [ar for c in shape for ar in c]
        firsts = [i == 0 for c in shape for i, _ in enumerate(c)]
        tmpl_ranges = [
            range(len((L_TEMPLATES if f else R_TEMPLATES)[ar]))
            for ar, f in zip(arities, firsts)]
        for assign in restricted_growth(nslots, 4):
            if not valid_names(shape, assign):
                continue
            names = [letters[i] for i in assign]
            for tc in itertools.product(*tmpl_ranges):
                g = build(shape, names, tc)
                out.append((g, 'plain'))
                decor_slots = range(nslots)
                for slot in decor_slots:
                    for decor in LEFT_DECOR + RIGHT_DECOR:
                        dg = decorate(g, slot, decor)
                        if dg is not None:
                            out.append((dg, 'decorated'))
    # larger graphs aimed at shortcuts visible in the code: a task that ends
    # one chain and is in the middle of another (end_of_chain_nodes is one
    # set of names for the whole graph), with and without its opposite
    # output being used
    out += [
        ([[N('a'), N('b'), N('c')], [N('x'), N('b')]], 'targeted'),
        ([[N('a'), N('b'), N('c')], [N('x'), N('b')],
          [N('b', qual='fail', opt=True), N('z')]], 'targeted'),
        ([[N('a'), N('b'), N('c')], [N('x'), N('b')],
          [N('b', qual='fail'), N('z')]], 'targeted'),
        ([[N('a'), N('b', opt=True), N('c')], [N('x'), N('b')],
          [N('b', qual='fail', opt=True), N('z')]], 'targeted'),
        ([[N('a'), ['&', N('b'), N('d')], N('c')], [N('x'), N('b')],
          [N('b', qual='fail', opt=True), N('z')]], 'targeted'),
        ([[N('a'), N('b'), N('c')], [N('a'), N('b')]], 'targeted'),
        ([[N('a'), N('b'), N('c')], [N('a'), N('b')],
          [N('b', qual='fail', opt=True), N('z')]], 'targeted'),
        ([[N('a'), N('b', qual='x'), N('c')], [N('x'), N('b')]], 'targeted'),
    ]
    return out


def graph_text(graph):
    return render(graph, BASE)


def _desc_with_tok(graph, d):
    """Attach the broken token (for the signature) to a descriptor."""
    if d['br'] is None:
        return d
    lines = logical_lines(graph, d['cut'])
    if d['order'] is not None:
        lines = [lines[i] for i in d['order']]
    if d['dup'] is not None:
        lines = lines + [lines[d['dup']]]
    dd = dict(d)
    dd['_brtok'] = lines[d['br'][0]][d['br'][1]]
    return dd


def cmp_obs(base, other):
    """None if identical, else the kind of difference."""
    if base[0] != other[0]:
        return f'{base[0]}-vs-{other[0]}'
    if base[0] != 'ok':
        return None
    if base[1] != other[1] or base[2] != other[2]:
        return 'dependencies'
    if base[3] != other[3]:
        return 'optionality-record'
    return None


def work_a(job):
    graphs, max_edits = job
    n_render = 0
    bad = []      # (signature, what, payload)
    escal = []    # (graph, desc) whose recorded optionality differs
    nontrivial = 0
    rejected_all = 0
    for graph, kind in graphs:
        base_text = render(graph, BASE)
        base = observe(base_text)
        n_render += 1
        if base[0] == 'crash':
            bad.append((f'parser-crash:{base[1]}',
                        f'{base_text!r}: {base[1]}',
                        {'leg': 'A', 'graph': graph, 'desc': BASE}))
        if base[0] == 'ok':
            nontrivial += 1
            for sig, what in judge_vs_reference(
                    graph, base, repr(base_text)):
                bad.append((f'faithful:{sig}', what,
                            {'leg': 'A', 'graph': graph, 'desc': BASE}))
        else:
            rejected_all += 1
        firsts = {}
        for d in renderings(graph, max_edits):
            if d == BASE:
                continue
            text = render(graph, d)
            obs = observe(text)
            n_render += 1
            diff = cmp_obs(base, obs)
            if diff is None:
                continue
            dd = _desc_with_tok(graph, d)
            if diff == 'optionality-record':
                key = ('opt', tuple(sorted(
                    set(base[3].items()) ^ set(obs[3].items()))))
                if key not in firsts:
                    firsts[key] = 1
                    escal.append((graph, dd))
                continue
            # attribute to a single edit where one suffices
            kinds = edit_kinds(dd)
            blame = kinds
            for single in single_edit_descs(graph, dd):
                if cmp_obs(base, observe(render(graph, single))) == diff:
                    blame = edit_kinds(_desc_with_tok(graph, single))
                    break
            sig = f"presentation:{'+'.join(blame)}:{diff}"
            if sig in firsts:
                firsts[sig] += 1
                continue
            firsts[sig] = 1
            bad.append((
                sig,
                f'{base_text!r} -> {base[0]}'
                f"{'' if base[0] == 'ok' else ' (' + str(base[1]) + ')'}; "
                f'the same graph written as {text!r} -> {obs[0]}'
                f"{'' if obs[0] == 'ok' else ' (' + str(obs[1]) + ')'}"
                + (f'; dependencies {obs[1]} vs {base[1]}'
                   if diff == 'dependencies' else ''),
                {'leg': 'A', 'graph': graph, 'desc': dd}))
    return n_render, bad, escal, nontrivial, rejected_all, len(graphs)


def single_edit_descs(graph, d):
    """Descriptors that keep exactly one of d's non-default dimensions
    (then, as a fall-back, the cut plus one other)."""
    out = []
    nl = len(logical_lines(graph, d['cut']))

    def br_on_original():
        li, oi, mode = d['br']
        if d['dup'] is not None and li == nl:
            li = d['dup']
        if d['order'] is not None:
            li = d['order'][li]
        return [li, oi, mode]
    for with_cut in ([False, True] if d['cut'] else [False]):
        for key in ('cut', 'order', 'dup', 'sp', 'cm', 'br'):
            if d[key] == BASE[key] or (with_cut and key == 'cut'):
                continue
            if key in ('order', 'dup', 'br') and d['cut'] and not with_cut:
                continue   # indices refer to the lines after cutting
            s = dict(BASE)
            if with_cut:
                s['cut'] = d['cut']
            s[key] = br_on_original() if key == 'br' else d[key]
            out.append(s)
    return out


# ------------------------------------------------ config-level confirmation

FLOW = """[scheduler]
    allow implicit tasks = True
[scheduling]
    cycling mode = integer
    initial cycle point = 1
    [[graph]]
        P1 = \"\"\"
{graph}
        \"\"\"
[runtime]
    [[root]]
        [[[outputs]]]
            x = the x message
            x-y = the x-y message
            x_y = the x_y message
"""


def effective(text, scratch, tag):
    """What WorkflowConfig makes of the graph: acceptance, every TaskDef's
    output flags and dependency expressions."""
    import shutil
    from pathlib import Path
    from types import SimpleNamespace
    from cylc.flow.config import WorkflowConfig
    from cylc.flow.cycling.loader import get_point
    from cylc.flow.exceptions import CylcError
    d = Path(scratch) / f'c14-{tag}'
    d.mkdir(parents=True, exist_ok=True)
    f = d / 'flow.cylc'
    body = '\n'.join('            ' + ln for ln in text.split('\n'))
    f.write_text(FLOW.format(graph=body))
    try:
        cfg = WorkflowConfig(f'c14-{tag}', str(f), options=SimpleNamespace())
    except CylcError as exc:
        return ('rejected', type(exc).__name__)
    finally:
        shutil.rmtree(d, ignore_errors=True)
    outs = {}
    deps = {}
    for name, tdef in sorted(cfg.taskdefs.items()):
        outs[name] = {o: v[1] for o, v in sorted(tdef.outputs.items())}
        ds = []
        for seq_deps in tdef.dependencies.values():
            for dep in seq_deps:
                ds.append((dep.get_expression(get_point('5')), dep.suicide))
        deps[name] = sorted(ds)
    return ('ok', outs, deps)


def work_escal(job):
    graph, d, scratch, idx = job
    base_text = render(graph, BASE)
    text = render(graph, d)
    e0 = effective(base_text, scratch, f'{idx}a')
    e1 = effective(text, scratch, f'{idx}b')
    if e0 == e1:
        return None
    kinds = '+'.join(edit_kinds(d))
    if e0[0] != e1[0]:
        what = f'config-{e0[0]}-vs-{e1[0]}'
    elif e0[1] != e1[1]:
        what = 'taskdef-output-flags'
    else:
        what = 'taskdef-dependencies'
    return (f'presentation:{kinds}:{what}',
            f'{base_text!r} and {text!r} differ after WorkflowConfig load: '
            f'{_first_diff(e0, e1)}',
            {'leg': 'A-config', 'graph': graph, 'desc': d})


def _first_diff(e0, e1):
    if e0[0] != e1[0]:
        return f'{e0[:2]} vs {e1[:2]}'
    for part in (1, 2):
        for k in sorted(set(e0[part]) | set(e1[part])):
            if e0[part].get(k) != e1[part].get(k):
                return f'{k}: {e0[part].get(k)} vs {e1[part].get(k)}'
    return ''


# ============================================================ leg B: names

NAME_POOL_Q = ['foo', 'foo1', '1foo', 'a-foo', 'foo_bar', 'foo+', 'foo%',
               'foo-', 'xfoo', 'foo-x']
NAME_POOL_T = NAME_POOL_Q + ['foo+x', 'a+foo', 'a%foo', 'Foo', 'foo__',
                             'f', 'fo']
B_QUALS = [dict(), dict(qual='fail', opt=True), dict(qual='finish'),
           dict(qual='x'), dict(opt=True), dict(off='[-P1]'),
           dict(qual='x-y'), dict(qual='x_y'),
           # custom outputs that begin with a qualifier alias
           dict(qual='fail-x'), dict(qual='start_2'),
           dict(off='[-P1]', qual='succeed', opt=True)]


def leg_b_cases(ctx: Ctx):
    pool = NAME_POOL_Q if ctx.quick else NAME_POOL_T
    quals = B_QUALS[:6] if ctx.quick else B_QUALS
    out = []
    for n1, n2 in itertools.permutations(pool, 2):
        for q1, q2 in itertools.product(quals, repeat=2):
            for op in '&|':
                out.append([[[op, N(n1, **q1), N(n2, **q2)], N('t')]])
            # chain: the first name is also a left node
            if not q2.get('off'):
                out.append([[N(n1, **q1), N(n2, **{
                    k: v for k, v in q2.items() if k != 'off'}), N('t')]])
        # three-node mixtures with a neutral third task
        for q1 in quals[:4]:
            out.append([[['&', N('p'), ['|', N(n1, **q1), N(n2)]], N('t')]])
            out.append([[['|', ['&', N(n1, **q1), N('p')], N(n2)], N('t')]])
    for n1 in pool:
        for q1 in quals:
            out.append([[N(n1, **q1), N('t')]])
            out.append([[N('p'), N(n1, **{
                k: v for k, v in q1.items() if k != 'off'})]])
    return out


def name_class(graph):
    names = sorted({n[0] for ch in graph for seg in ch for n in nodes(seg)})
    cls = []
    if any(not re.match(r'\w', nm[-1]) for nm in names):
        cls.append('name-ends-with-nonword-char')
    rel = set()
    for a, b in itertools.permutations(names, 2):
        if a in b:
            if b.endswith(a):
                rel.add('suffix')
            elif b.startswith(a):
                rel.add('prefix')
            else:
                rel.add('substring')
    if rel:
        cls.append('name-is-' + '/'.join(sorted(rel)) + '-of-another')
    return cls


def diagnose_b(graph, sig):
    """Root cause class for a leg-B failure: a node that is mis-parsed on its
    own is blamed first; else the relation between the names."""
    for ch in graph:
        for seg in ch[:-1]:
            for n in nodes(seg):
                g1 = [[['n', list(n)], N('t')]]
                o = observe(render(g1, BASE))
                if o[0] == 'ok' and judge_vs_reference(g1, o, ''):
                    last = n[0][-1]
                    return 'single-node:' + (
                        'name-ends-with-nonword-char'
                        if not re.match(r'\w', last) else sig)
    quals = sorted({n[2] for ch in graph for seg in ch for n in nodes(seg)
                    if n[2] == 'finish'})
    cls = name_class(graph)
    return ':'.join(['expr-rewrite'] + quals + (cls or [sig]))


def work_b(graphs):
    bad = []
    ok = rej = 0
    for graph in graphs:
        text = render(graph, BASE)
        obs = observe(text)
        if obs[0] == 'rejected':
            rej += 1
            continue
        if obs[0] == 'crash':
            bad.append((f'parser-crash:{obs[1]}', f'{text!r}: {obs[1]}',
                        {'leg': 'B', 'graph': graph}))
            continue
        ok += 1
        res = judge_vs_reference(graph, obs, repr(text))
        for sig, what in res[:1]:
            bad.append((diagnose_b(graph, sig), what,
                        {'leg': 'B', 'graph': graph}))
        # insensitivity to spacing for these names, too
        for sp in (1, 2):
            d = dict(BASE)
            d['sp'] = sp
            o2 = observe(render(graph, d))
            if cmp_obs(obs, o2):
                bad.append((
                    f'presentation:spacing{sp}:{cmp_obs(obs, o2)}:'
                    + ':'.join(name_class(graph) or ['plain']),
                    f'{text!r} vs {render(graph, d)!r}: {obs[:2]} vs '
                    f'{o2[:2]}',
                    {'leg': 'B', 'graph': graph, 'desc': d}))
    return ok, rej, bad, len(graphs)


# ======================================================= leg C: malformed

NAME_RE = r'[A-Za-z0-9_][\w\-+%]*'
NODE_RE = re.compile(
    rf'(?P<name>{NAME_RE})(?P<off>\[[\w\-+^:]+\])?(?P<qual>:[\w\-]+)?'
    r'(?P<opt>\?)?')


def classify(line):
    """Independent strict reading of ONE graph line (no comment handling
    needed: '#' is not in the mutation alphabet).

    -> ('ok', None) | ('bad', reason) | ('unsure', None)
    """
    if '#' in line or '<' in line or '@' in line:
        return ('unsure', None)
    if re.search(r'[\w\]?]\s+[\w!(\[]', line):
        # two operands with only white space between them (or white space
        # inside a node)
        return ('bad', 'missing-operator')
    if re.search(r'\S\s+[\[:?]', line) or re.search(r'[\[:!]\s+\S', line):
        return ('unsure', None)   # white space inside a node: not judged
    if re.search(r'=\s+>', line) or re.search(r'[&|]\s+[&|]', line):
        return ('unsure', None)
    s = ''.join(line.split())
    if not s:
        return ('unsure', None)
    if s.startswith(OPS) or s.endswith(OPS):
        # a leading / trailing =>, & or | is a line continuation: whether
        # the text is well-formed depends on the neighbouring lines
        return ('unsure', None)
    tokens = []
    i = 0
    while i < len(s):
        if s.startswith('=>', i):
            tokens.append('=>')
            i += 2
            continue
        c = s[i]
        if c in '&|()!':
            tokens.append(c)
            i += 1
            continue
        m = NODE_RE.match(s, i)
        if m:
            tokens.append(('node', m.group(0)))
            i = m.end()
            continue
        reason = {
            ':': 'stray-colon', '?': 'stray-question-mark',
            '[': 'stray-bracket', ']': 'stray-bracket',
            '=': 'broken-arrow', '>': 'broken-arrow',
        }.get(c, 'illegal-character')
        if c in '[' and re.match(r'\[[^\[\]]*\]', s[i:]):
            # a complete [..] with unusual content or in an odd place
            inner = re.match(r'\[([^\[\]]*)\]', s[i:]).group(1)
            if inner and not re.fullmatch(r'[\w\-+^:]+', inner):
                return ('unsure', None)
        return ('bad', reason)
    # adjacency: node directly after node / ')' etc.
    segs = [[]]
    for t in tokens:
        if t == '=>':
            segs.append([])
        else:
            segs[-1].append(t)
    for si, seg in enumerate(segs):
        if not seg:
            return ('bad', 'empty-side-of-arrow')
        first = si == 0
        last = si == len(segs) - 1
        r = _seg_ok(seg)
        if r:
            return ('bad', r)
        if '!' in seg and (first and len(segs) > 1 or not last):
            return ('bad', 'suicide-on-left')
        if '!' in seg and len(segs) == 1:
            return ('unsure', None)
        if '|' in seg and not first:
            return ('bad', 'or-on-right')
        if not first and ('(' in seg):
            return ('unsure', None)
    return ('ok', None)


def _seg_ok(seg):
    """None if the token list is a well-formed &,|,() expression of
    (optionally '!'-prefixed) nodes, else a reason."""
    pos = [0]

    def peek():
        return seg[pos[0]] if pos[0] < len(seg) else None

    def unit():
        t = peek()
        if t == '!':
            pos[0] += 1
            t = peek()
            if not isinstance(t, tuple):
                return 'stray-suicide-mark'
            pos[0] += 1
            return None
        if isinstance(t, tuple):
            pos[0] += 1
            return None
        if t == '(':
            pos[0] += 1
            r = expr()
            if r:
                return r
            if peek() != ')':
                return 'unbalanced-parenthesis'
            pos[0] += 1
            return None
        return 'missing-operand'

    def expr():
        r = unit()
        if r:
            return r
        while peek() in ('&', '|'):
            pos[0] += 1
            r = unit()
            if r:
                return r
        return None

    r = expr()
    if r:
        return r
    if pos[0] != len(seg):
        t = seg[pos[0]]
        if t == ')':
            return 'unbalanced-parenthesis'
        if t == '!':
            return 'stray-suicide-mark'
        return 'missing-operator'
    return None


BASE_LINES_Q = [
    'a => b',
    'a & b => c',
    'a:fail? | b => c & d',
    'a[-P1]:x => b?',
    '(a | b) & c => !d',
    'a => b => c',
]
BASE_LINES_T = BASE_LINES_Q + [
    'a:finish & b[^]:start => c:x',
    'a | (b & c:x?) => d => e?',
    'foo-1 & bar+x => baz%y',
]
ALPHABET_Q = ':?!&|()[]=>$.,;*z'
ALPHABET_T = ALPHABET_Q + '/\\\'"~^-+%{}A0_'
CONTEXTS = [
    ('alone', [], []),
    ('first', [], ['p => q']),
    ('last', ['p => q'], []),
    ('middle', ['p => q'], ['r & s => u']),
]


def mutants(line, alphabet):
    seen = {line}
    for i in range(len(line) + 1):
        cands = []
        if i < len(line):
            cands.append(line[:i] + line[i + 1:])
            cands += [line[:i] + c + line[i + 1:] for c in alphabet]
        cands += [line[:i] + c + line[i:] for c in alphabet]
        for m in cands:
            if m not in seen:
                seen.add(m)
                yield m


def work_c(job):
    lines, alphabet = job
    from cylc.flow.exceptions import GraphParseError
    from cylc.flow.graph_parser import GraphParser
    counts = {'ok': 0, 'bad': 0, 'unsure': 0}
    reasons = {}
    bad = []
    evals = 0
    for base in lines:
        if classify(base)[0] != 'ok':
            raise HarnessError(f'base line {base!r} not well-formed for the '
                               f'reference tokenizer: {classify(base)}')
        for m in mutants(base, alphabet):
            cls, reason = classify(m)
            counts[cls] += 1
            if cls != 'bad':
                continue
            reasons[reason] = reasons.get(reason, 0) + 1
            outcome = {}
            for cname, before, after in CONTEXTS:
                text = '\n'.join(before + [m] + after)
                evals += 1
                try:
                    GraphParser().parse_graph(text)
                    outcome[cname] = 'accepted'
                except GraphParseError:
                    outcome[cname] = 'rejected'
                except Exception as exc:   # noqa
                    outcome[cname] = f'crash:{type(exc).__name__}'
            if all(v == 'rejected' for v in outcome.values()):
                continue
            payload = {'leg': 'C', 'line': m, 'base': base,
                       'reason': reason}
            for sig in c_signatures(outcome, reason):
                bad.append((
                    sig,
                    f'malformed line {m!r} ({reason}) is not rejected with '
                    f'GraphParseError at every line position: {outcome}',
                    payload))
    return counts, reasons, bad, evals


def c_signatures(outcome, reason):
    if outcome['alone'] == 'rejected' and outcome['last'] == 'rejected':
        # rejected as the only / last line, not when another line follows
        return ['malformed-not-rejected-unless-last-line']
    sigs = []
    crashes = sorted({v.split(':', 1)[1] for v in outcome.values()
                      if v.startswith('crash')})
    if crashes:
        sigs.append(f'malformed-not-GraphParseError:{reason}:'
                    + ','.join(crashes))
    if 'accepted' in outcome.values():
        sigs.append(f'malformed-accepted:{reason}')
    return sigs


# ================================================================= driving

def run(ctx: Ctx) -> Result:
    max_edits = ctx.pick(2, 3)
    # ---- leg A
    ga = leg_a_graphs(ctx)
    jobs = [(c, max_edits) for c in chunks(ga, ctx.workers * 8)]
    ra = pmap(work_a, jobs, ctx.workers)
    n_render = sum(r[0] for r in ra)
    vio = [v for r in ra for v in r[1]]
    escal = [e for r in ra for e in r[2]]
    nontrivial_a = sum(r[3] for r in ra)
    rejected_a = sum(r[4] for r in ra)
    # confirm recorded-optionality differences through WorkflowConfig
    # (one representative per graph x edit-kind combination)
    ejobs = [(g, d, str(ctx.scratch), i) for i, (g, d) in enumerate(escal)]
    eres = pmap(work_escal, ejobs, ctx.workers, chunksize=4)
    benign = sum(1 for r in eres if r is None)
    vio += [r for r in eres if r is not None]
    # ---- leg B
    gb = leg_b_cases(ctx)
    rb = pmap(work_b, chunks(gb, ctx.workers * 4), ctx.workers)
    ok_b = sum(r[0] for r in rb)
    rej_b = sum(r[1] for r in rb)
    vio += [v for r in rb for v in r[2]]
    # ---- leg C
    lines = ctx.pick(BASE_LINES_Q, BASE_LINES_T)
    alphabet = ctx.pick(ALPHABET_Q, ALPHABET_T)
    rc = pmap(work_c, [([ln], alphabet) for ln in lines], ctx.workers)
    counts_c = {'ok': 0, 'bad': 0, 'unsure': 0}
    reasons = {}
    evals_c = 0
    for c, rs, b, e in rc:
        for k in counts_c:
            counts_c[k] += c[k]
        for k, v in rs.items():
            reasons[k] = reasons.get(k, 0) + v
        vio += b
        evals_c += e
    # ---- vacuity guards
    if nontrivial_a < 50 or ok_b < 50:
        raise HarnessError('too few accepted graphs: '
                           f'{nontrivial_a} / {ok_b}')
    if counts_c['bad'] < 100 or len(reasons) < 6:
        raise HarnessError(f'malformed-line space is thin: {reasons}')
    vios = [Violation(s, w, p) for s, w, p in vio]
    cov = {
        'evaluations': n_render + 3 * len(gb) + evals_c + 2 * len(escal),
        'distinct_nontrivial': nontrivial_a + ok_b + counts_c['bad'],
        'rule': (
            'evaluation = one graph text parsed by the real GraphParser (or '
            'loaded by WorkflowConfig for the optionality confirmations); '
            'non-trivial = graph ASTs accepted by cylc (legs A, B) plus '
            'distinct single-character mutants classified malformed by the '
            'reference tokenizer (leg C)'),
        'legA_graph_asts': len(ga),
        'legA_asts_accepted': nontrivial_a,
        'legA_asts_rejected_in_base_form': rejected_a,
        'legA_renderings_parsed': n_render,
        'legA_max_presentation_edits': max_edits,
        'legA_optionality_record_differences_checked_via_config':
            len(escal),
        'legA_optionality_record_differences_without_effect': benign,
        'legB_name_graphs': len(gb),
        'legB_accepted': ok_b,
        'legB_rejected_not_judged': rej_b,
        'legC_base_lines': len(lines),
        'legC_mutants_malformed': counts_c['bad'],
        'legC_mutants_wellformed_excluded': counts_c['ok'],
        'legC_mutants_unsure_excluded': counts_c['unsure'],
        'legC_malformed_reasons': reasons,
        'legC_parses': evals_c,
        'samples': (
            [render(g, BASE) for g, _ in ga[:: max(1, len(ga) // 5)][:5]]
            + [render(g, BASE) for g in gb[:: max(1, len(gb) // 3)][:3]]
            + [m for m in itertools.islice(
                (m for m in mutants(lines[2], alphabet)
                 if classify(m)[0] == 'bad'), 3)]),
        'exhaustive': True,
        'bounds': {
            'legA': 'node slots <= %d, arrows <= 3, <= 4 task names, <= 1 '
                    'decorated node, plus 8 targeted larger graphs' % (
                        4 if ctx.quick else 5),
            'legB': 'ordered pairs from %d colliding names x %d '
                    'decorations' % (
                        len(NAME_POOL_Q if ctx.quick else NAME_POOL_T),
                        6 if ctx.quick else len(B_QUALS)),
            'legC': 'all 1-character edits over alphabet %r, 4 line '
                    'positions' % alphabet,
        },
    }
    return Result(cov, vios, assumptions=[
        'decided up to the stated bounds only',
        "the per-task '' (lone node) marker entries of GraphParser.triggers "
        'are ignored when comparing dependencies: cutting a chain makes its '
        'middle node the head of a line, which adds such a marker and '
        'nothing else',
        'a difference in GraphParser.task_output_opt between two renderings '
        'counts only if the real WorkflowConfig then differs in acceptance, '
        'TaskDef output flags or dependencies; an output the parser leaves '
        'unrecorded is not compared with the written optionality',
        'graphs the parser rejects in every rendering are counted, not '
        'judged (self-consistent rejection)',
        'malformed = the strict reading NAME[OFFSET][:QUALIFIER][?] joined '
        'by &, | (left only), parentheses, =>, with ! only on the last '
        'segment; mutants with white space inside a node, parameters, '
        'xtriggers, unusual offset contents or parentheses on the right are '
        'excluded as ambiguous, well-formed mutants are excluded',
        'family triggers are C15; parameters and xtriggers are not generated',
    ])


def replay(payload):
    leg = payload['leg']
    out = []
    if leg == 'A':
        graph, d = payload['graph'], payload['desc']
        res = work_a(([(graph, 'replay')], 3))
        out = res[1]
        # also the single recorded rendering (cheap, exact)
        base = observe(render(graph, BASE))
        obs = observe(render(graph, d))
        diff = cmp_obs(base, obs)
        if diff and diff != 'optionality-record' and not out:
            out = [(f"presentation:{'+'.join(edit_kinds(d))}:{diff}",
                    f'{render(graph, BASE)!r} vs {render(graph, d)!r}',
                    payload)]
    elif leg == 'A-config':
        import os
        from ..core import scratch_root
        r = work_escal((payload['graph'], payload['desc'],
                        str(scratch_root()), os.getpid()))
        out = [r] if r else []
    elif leg == 'B':
        out = work_b([payload['graph']])[2]
    elif leg == 'C':
        from cylc.flow.exceptions import GraphParseError
        from cylc.flow.graph_parser import GraphParser
        m, reason = payload['line'], payload['reason']
        outcome = {}
        for cname, before, after in CONTEXTS:
            try:
                GraphParser().parse_graph('\n'.join(before + [m] + after))
                outcome[cname] = 'accepted'
            except GraphParseError:
                outcome[cname] = 'rejected'
            except Exception as exc:   # noqa
                outcome[cname] = f'crash:{type(exc).__name__}'
        out = [(sig, f'{m!r}: {outcome}', payload)
               for sig in c_signatures(outcome, reason)]
    return [Violation(s, w, p) for s, w, p in out]
