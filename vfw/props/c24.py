"""C24 Restricted expression evaluation cannot run arbitrary code.

Engine B.  Python expression sources are generated exhaustively as
context-chains: a *leaf* (one instance of every expression node kind over
canary variables) wrapped in up to K *contexts* (one per (parent node kind,
field) position a sub-expression can occupy: operand of and/or, call argument,
keyword value, slice bound, comprehension iterable/condition, lambda default,
f-string format spec, dict unpacking ...).  Every source is pushed through

* the real CompletionEvaluator and RankingExpressionEvaluator,
* the docstring evaluator (Expression, BinOp, Add, Constant, Name, Load),
* an "everything whitelisted" evaluator, and, for every node class C that
  occurs in the source, an "everything but C" evaluator,

all built by the real `restricted_evaluator`.  The variables are canaries that
log every operation performed on them.

Oracle: the set of node classes in the source is taken from Python's own
`ast.walk`; if any is outside the whitelist the configured error class must be
raised and the canary log must be empty; otherwise outcome and canary log must
equal Python's own evaluation of the source over the supplied variables with a
builtins mapping that is empty and records look-ups.  Separately every
builtin / module-global / closure / harness name is probed: none may resolve.
"""
from __future__ import annotations

import ast
import builtins
import re

from ..core import Ctx, HarnessError, Result, Violation, chunks, pmap

LEVEL = 'exploration'

# ----------------------------------------------------------------- grammar

# leaves: the smallest instance of every node kind (canaries a, b, c, d)
LEAVES = [
    'a', 'nope', 'len', '__import__', 'open',
    '1', "'s'", 'None', 'True', '...', '1.5', "b's'", '1j',
    'a and b', 'a or b', 'c or b', 'c and b',
    'a + b', 'a - b', 'a * b', 'a / b', 'a // b', 'a % b', 'a ** b',
    'a @ b', 'a << b', 'a >> b', 'a & b', 'a | b', 'a ^ b', '1 + 1', '1 - 1',
    'not a', '-a', '+a', '~a', '-1',
    'a < b', 'a <= b', 'a == b', 'a != b', 'a > b', 'a >= b', 'a is b',
    'a is not b', 'a in b', 'a not in b', 'a < b < c', '1 < 2',
    'a()', 'a(b)', 'a(*b)', 'a(k=b)', 'a(**b)', "__import__('os')",
    "().__class__", 'a.attr', 'a.__class__', 'a.b.c',
    'a[b]', 'a[b:c]', 'a[b:c:d]', 'a[b, c]', 'a[:]', 'a[0]',
    'lambda: a', 'lambda x: x', 'lambda x=a: x', 'lambda *p, **q: a',
    '[v for v in a]', '{v for v in a}', '{v: v for v in a}',
    '(v for v in a)', '[v for v in a if b]', '[a for v in b for w in c]',
    '(v := a)', '(a := 1)',
    'a if b else c',
    '[a]', '[a, b]', '(a,)', '(a, b)', '()', '[]', '{a}', '{a: b}', '{}',
    '[*a]', '{**a}',
    "f'{a}'", "f'{a!r}'", "f'{a:>{b}}'", "f'{a=}'", "f'x'", "'s' 't'",
    '(yield)', '(yield a)', '(yield from a)', '(await a)',
]

# contexts: one per (parent kind, field) position; {} is the hole
CONTEXTS = [
    '({})',
    '({}) and b', 'b and ({})', '({}) or b', 'b or ({})', 'c or ({})',
    'c and ({})', 'b and c and ({})',
    '({}) + b', 'b + ({})', '({}) - b', '1 + ({})',
    'not ({})', '-({})',
    '({}) < b', 'b < ({})', 'b < c < ({})', '({}) in b', '({}) == 1',
    '({})(b)', 'b(({}))', 'b(*({}))', 'b(k=({}))', 'b(**({}))', '({})()',
    '({}).attr',
    '({})[b]', 'b[({})]', 'b[({}):c]', 'b[c:({})]', 'b[c:d:({})]',
    'b[({}), c]',
    'lambda: ({})', 'lambda x=({}): x', 'lambda *, x=({}): x',
    '[({}) for v in b]', '[v for v in ({})]', '[v for v in b if ({})]',
    '{{({}) for v in b}}', '{{({}): c for v in b}}',
    '{{c: ({}) for v in b}}', '(({}) for v in b)', '(v for v in ({}))',
    '(v := ({}))',
    '({}) if b else c', 'b if ({}) else c', 'b if c else ({})',
    'c if b else ({})',
    '[({}), b]', '(({}), b)', '(b, ({}))', '{{({}), b}}', '[*({})]',
    '{{({}): b}}', '{{b: ({})}}', '{{**({})}}',
    "f'{{({})}}'", "f'{{({})!r}}'", "f'{{b:{{({})}}}}'", "f'x{{({})}}y'",
    '(yield ({}))', '(yield from ({}))', '(await ({}))',
]

# outer levels draw from one context per parent kind
CORE = [
    '({}) and b', 'b or ({})', 'b + ({})', 'not ({})', 'b < ({})',
    'b(({}))', 'b(k=({}))', '({}).attr', 'b[({})]', 'b[c:({})]',
    'lambda: ({})', 'lambda x=({}): x', '[v for v in ({})]',
    '[v for v in b if ({})]', '{{c: ({}) for v in b}}', '(v := ({}))',
    'b if c else ({})', '[({}), b]', '{{b: ({})}}', "f'{{b:{{({})}}}}'",
    '(yield ({}))',
]
CORE3 = [
    'b or ({})', 'b(k=({}))', '({}).attr', 'b[c:({})]',
    'lambda x=({}): x', '[v for v in b if ({})]', '(v := ({}))',
    'b if c else ({})', "f'{{b:{{({})}}}}'",
]
assert all(c in CONTEXTS for c in CORE + CORE3)

NL, NC = len(LEAVES), len(CONTEXTS)

# context alphabet per nesting level (innermost first); set by run()
LEVELS = {
    'quick': (CONTEXTS, CORE),
    'thorough': (CONTEXTS, CONTEXTS, CORE3),
}


def count(k, levels=(CONTEXTS, CONTEXTS)):
    n = NL
    for j in range(k):
        n *= len(levels[j])
    return n


def source(k, idx, levels=(CONTEXTS, CONTEXTS)):
    """Expression number idx among the chains with exactly k contexts."""
    idx, leaf = divmod(idx, NL)
    src = LEAVES[leaf]
    for j in range(k):          # innermost first
        idx, c = divmod(idx, len(levels[j]))
        src = levels[j][c].format(src)
    return src


# ---------------------------------------------------------------- canaries

_BIN = ('add sub mul truediv floordiv mod pow matmul lshift rshift and or '
        'xor').split()
_CMP = 'lt le eq ne gt ge'.split()


class Canary:
    """Logs everything done to it.  Never does anything else."""
    __slots__ = ('_n', '_log', '_t')

    def __init__(self, name, log, truth=True):
        object.__setattr__(self, '_n', name)
        object.__setattr__(self, '_log', log)
        object.__setattr__(self, '_t', truth)

    def _rec(self, what):
        self._log.append((self._n, what))

    def _kid(self, tag):
        return Canary(f'{self._n}{tag}', self._log, self._t)

    def __bool__(self):
        self._rec('bool')
        return self._t

    def __getattr__(self, attr):
        self._rec('getattr ' + attr)
        return self._kid('.' + attr)

    def __setattr__(self, attr, val):
        self._rec('setattr ' + attr)

    def __call__(self, *args, **kw):
        self._rec(f'call {len(args)} {sorted(kw)}')
        return self._kid('()')

    def __getitem__(self, key):
        self._rec('getitem')
        return self._kid('[]')

    def __iter__(self):
        self._rec('iter')
        return iter((self._kid('<0>'),))

    def __contains__(self, item):
        self._rec('contains')
        return self._t

    def __hash__(self):
        self._rec('hash')
        return hash(self._n)

    def __neg__(self):
        self._rec('neg')
        return self._kid('-')

    def __pos__(self):
        self._rec('pos')
        return self._kid('+')

    def __invert__(self):
        self._rec('invert')
        return self._kid('~')

    def __format__(self, spec):
        self._rec('format')
        return f'<{self._n}>'

    def __repr__(self):
        self._rec('repr')
        return f'<{self._n}>'

    def __str__(self):
        self._rec('str')
        return f'<{self._n}>'

    def __await__(self):
        self._rec('await')
        return iter(())

    def keys(self):
        self._rec('keys')
        return ['k']


def _mk_bin(op):
    def f(self, other):
        self._rec(op)
        return self._kid(f'<{op}>')
    return f


for _op in _BIN:
    setattr(Canary, f'__{_op}__', _mk_bin(_op))
    setattr(Canary, f'__r{_op}__', _mk_bin('r' + _op))
for _op in _CMP:
    setattr(Canary, f'__{_op}__', _mk_bin(_op))

ENVS = (
    {'a': True, 'b': True, 'c': False, 'd': True},
    {'a': False, 'b': False, 'c': True, 'd': False},
)


def make_env(which, log):
    return {k: Canary(k, log, t) for k, t in ENVS[which].items()}


_ADDR = re.compile(r' at 0x[0-9a-fA-F]+')


def unordered(x):
    """Order-insensitive canonical form of a normalised value / log."""
    if isinstance(x, (tuple, list)):
        return tuple(sorted((unordered(v) for v in x), key=repr))
    return x


def norm(val, depth=0):
    if isinstance(val, Canary):
        return ('canary', object.__getattribute__(val, '_n'))
    if depth < 4 and isinstance(val, (list, tuple)):
        return (type(val).__name__, tuple(norm(v, depth + 1) for v in val))
    if depth < 4 and isinstance(val, (set, frozenset)):
        return ('set', tuple(sorted(map(repr, (
            norm(v, depth + 1) for v in val)))))
    if depth < 4 and isinstance(val, dict):
        return ('dict', tuple(
            (norm(k, depth + 1), norm(v, depth + 1)) for k, v in val.items()))
    if isinstance(val, str):
        return ('str', _ADDR.sub(' at 0x?', val))
    if isinstance(val, (bool, int, float, complex, bytes, type(None),
                        type(Ellipsis))):
        return (type(val).__name__, repr(val))
    return ('object', type(val).__name__)


class EmptyBuiltins(dict):
    """An empty builtins mapping that records what was looked up."""

    def __init__(self):
        super().__init__()
        self.asked = []

    def __getitem__(self, key):
        self.asked.append(key)
        raise KeyError(key)


def python_outcome(code, which):
    """Python's own evaluation over the supplied variables only."""
    log = []
    env = make_env(which, log)
    bi = EmptyBuiltins()
    try:
        val = eval(code, {'__builtins__': bi}, env)  # nosec - own sources
        if type(val).__name__ in ('generator', 'coroutine'):
            val.close()
        out = ('value', norm(val))
    except BaseException as exc:  # noqa
        out = ('exc', type(exc).__name__)
    return out, log, bi.asked


# -------------------------------------------------------------- evaluators

class VfRestricted(Exception):
    def __init__(self, message, expr=None, expr_node=None, error_node=None,
                 error_type=None):
        super().__init__(message)
        self.error_node = error_node
        self.error_type = error_type


class DocRestricted(Exception):
    def __init__(self, message, error_node):
        self.args = (str(error_node.__class__),)


_EV = {}


def concrete_classes():
    """Every concrete node class that occurs in the generated language."""
    if '_classes' not in _EV:
        seen = set()
        for k in (0, 1):
            for i in range(count(k)):
                try:
                    tree = ast.parse(source(k, i), mode='eval')
                except SyntaxError:
                    continue
                seen.update(type(n) for n in ast.walk(tree))
        _EV['_classes'] = frozenset(seen)
    return _EV['_classes']


def evaluator(name):
    """(callable, whitelist tuple, error class)"""
    if name in _EV:
        return _EV[name]
    from cylc.flow.util import restricted_evaluator
    if name == 'completion':
        from cylc.flow.exceptions import InvalidCompletionExpression
        from cylc.flow.task_outputs import CompletionEvaluator
        ev = (CompletionEvaluator, (
            ast.Expression, ast.Name, ast.Load, ast.BoolOp, ast.And, ast.Or,
            ast.BinOp), InvalidCompletionExpression)
    elif name == 'ranking':
        from cylc.flow.host_select import RankingExpressionEvaluator
        ev = (RankingExpressionEvaluator, (
            ast.Expression, ast.Name, ast.Load, ast.Attribute, ast.Subscript,
            ast.BinOp, ast.operator, ast.UnaryOp, ast.unaryop, ast.Constant,
            ast.Compare, ast.cmpop, ast.List, ast.Tuple), ValueError)
    elif name == 'doc-example':
        wl = (ast.Expression, ast.BinOp, ast.Add, ast.Constant, ast.Name,
              ast.Load)
        ev = (restricted_evaluator(*wl, error_class=DocRestricted), wl,
              DocRestricted)
    elif name == 'all':
        wl = tuple(sorted(concrete_classes(), key=lambda c: c.__name__))
        ev = (restricted_evaluator(*wl, error_class=VfRestricted), wl,
              VfRestricted)
    else:   # 'all-but:<Class>'
        cls = getattr(ast, name.split(':')[1])
        wl = tuple(sorted(concrete_classes() - {cls},
                          key=lambda c: c.__name__))
        ev = (restricted_evaluator(*wl, error_class=VfRestricted), wl,
              VfRestricted)
    _EV[name] = ev
    return ev


def first_forbidden(nodes, wl):
    """The first non-whitelisted node in Python's own walk order, or None."""
    for node in nodes:
        if not isinstance(node, wl):
            return node
    return None


def where_is(tree, target):
    """'Class@Parent.field' for a node of tree."""
    for node in ast.walk(tree):
        for field, val in ast.iter_fields(node):
            vals = val if isinstance(val, list) else [val]
            if any(v is target for v in vals):
                return (f'{type(target).__name__}@'
                        f'{type(node).__name__}.{field}')
    return f'{type(target).__name__}@root'


def run_evaluator(evname, src, which):
    fn, _wl, _err = evaluator(evname)
    log = []
    env = make_env(which, log)
    try:
        val = fn(src, **env)
        if type(val).__name__ in ('generator', 'coroutine'):
            val.close()
        out = ('value', norm(val))
    except BaseException as exc:  # noqa
        out = ('exc', type(exc).__name__)
    return out, log


def family(evname):
    return evname.split(':')[0]


_LEAF_CLASSES = {}


def leaf_classes(leaf_idx):
    if leaf_idx not in _LEAF_CLASSES:
        try:
            tree = ast.parse(LEAVES[leaf_idx], mode='eval')
            _LEAF_CLASSES[leaf_idx] = sorted(
                {type(n).__name__ for n in ast.walk(tree)} - {'Expression'})
        except SyntaxError:
            _LEAF_CLASSES[leaf_idx] = []
    return _LEAF_CLASSES[leaf_idx]


def judge(src, only_classes=None):
    """All evaluators on one source -> (status, [violation dicts], n_evals,
    class names).  only_classes: restrict the "everything but C" evaluators
    to these classes (None = every class in the source)."""
    bad = []
    try:
        tree = ast.parse(src.strip(), mode='eval')
    except SyntaxError:
        # not Python: every evaluator must refuse without touching anything
        n = 0
        for evname in ('completion', 'ranking', 'doc-example', 'all'):
            out, log = run_evaluator(evname, src, 0)
            n += 1
            if out[0] != 'exc' or log:
                bad.append({
                    'src': src, 'evaluator': evname,
                    'sig': f'syntax-error-not-refused:{evname}',
                    'what': f'{evname}({src!r}) -> {out}, canaries {log[:3]}'})
        return 'syntax-error', bad, n, ()
    nodes = list(ast.walk(tree))
    names = sorted({type(n).__name__ for n in nodes})
    addr_hashed = bool(
        {'Lambda', 'GeneratorExp'} & set(names)
        and {'Set', 'SetComp', 'Dict', 'DictComp'} & set(names))
    try:
        code = compile(src.strip(), '<string>', 'eval')
    except SyntaxError:
        code = None
    evnames = ['completion', 'ranking', 'doc-example', 'all'] + [
        f'all-but:{c}' for c in (names if only_classes is None
                                 else only_classes) if c != 'Expression']
    refs = {}
    n = 0
    status = 'compile-error' if code is None else 'ok'
    for evname in evnames:
        _fn, wl, err = evaluator(evname)
        forb = first_forbidden(nodes, wl)
        for which in ((0, 1) if forb is None else (0,)):
            out, log = run_evaluator(evname, src, which)
            n += 1
            if forb is not None:
                if out[0] == 'exc' and not log and out[1] == err.__name__:
                    continue
                where = where_is(tree, forb)
                if out[0] == 'value':
                    bad.append({
                        'src': src, 'evaluator': evname, 'env': which,
                        'sig': (f'forbidden-node-evaluated:{family(evname)}:'
                                f'{where}'),
                        'what': (f'{evname}({src!r}) returned {out[1]} '
                                 f'although {where} is not whitelisted; '
                                 f'canary log {log[:4]}')})
                elif log:
                    bad.append({
                        'src': src, 'evaluator': evname, 'env': which,
                        'sig': (f'forbidden-node-evaluated:{family(evname)}:'
                                f'{where}'),
                        'what': (f'{evname}({src!r}) raised {out[1]} but '
                                 f'only after evaluating: canary log '
                                 f'{log[:4]}')})
                else:
                    bad.append({
                        'src': src, 'evaluator': evname, 'env': which,
                        'sig': (f'wrong-rejection-error:{family(evname)}:'
                                f'{out[1]}:{where}'),
                        'what': (f'{evname}({src!r}) raised {out[1]}, not '
                                 f'the configured {err.__name__}, for '
                                 f'non-whitelisted {where}')})
                continue
            # whitelisted only: must be Python's own evaluation
            if code is None:
                if out[0] != 'exc' or log:
                    bad.append({
                        'src': src, 'evaluator': evname, 'env': which,
                        'sig': f'uncompilable-evaluated:{family(evname)}',
                        'what': f'{evname}({src!r}) -> {out}, log {log[:3]}'})
                continue
            if which not in refs:
                refs[which] = python_outcome(code, which)
            rout, rlog, asked = refs[which]
            if asked and out != ('exc', 'NameError'):
                bad.append({
                    'src': src, 'evaluator': evname, 'env': which,
                    'sig': ('unsupplied-name-resolves:'
                            f'{name_category(asked[0])}'),
                    'what': (f'{evname}({src!r}) -> {out} although '
                             f'{asked[0]!r} is not a supplied variable')})
            elif (out != rout or log != rlog) and not (
                    # objects hashed by address inside a set/dict: iteration
                    # order is not defined, compare without order
                    addr_hashed and unordered(out) == unordered(rout)
                    and unordered(log) == unordered(rlog)):
                bad.append({
                    'src': src, 'evaluator': evname, 'env': which,
                    'sig': (f'differs-from-python:{family(evname)}:'
                            f'{type(tree.body).__name__}'),
                    'what': (f'{evname}({src!r}) -> {out} log {log[:4]}; '
                             f'Python itself -> {rout} log {rlog[:4]}')})
    return status, bad, n, names


# ------------------------------------------------------------- name probes

PROBE_CONTEXTS = ('{}', 'c or {}', '{} or a', 'a and {}', '({})')
HARNESS_LOCALS = ('src', 'env', 'log', 'fn', 'evname', 'which', 'val', 'out')
CLOSURE_LOCALS = ('expr', 'variables', 'visitor', 'whitelist', 'error_class',
                  'expr_node', '_eval', 'self', 'node', 'exc', 'error_node')


def name_category(name):
    import cylc.flow.util as util
    if name == '__builtins__':
        return 'builtins-mapping'
    if name == '__debug__':
        return 'compile-time-constant'
    if name in CLOSURE_LOCALS:
        return 'closure-local'
    if name in HARNESS_LOCALS:
        return 'caller-local'
    if hasattr(builtins, name) or name in (
            '__builtins__', '__name__', '__doc__', '__package__',
            '__loader__', '__spec__', '__file__', '__cached__'):
        return 'builtin'
    if hasattr(util, name):
        return 'module-global'
    return 'unknown-name'


def probe_names():
    import cylc.flow.task_outputs as to
    import cylc.flow.util as util
    import keyword
    names = set(dir(builtins)) | {
        '__builtins__', '__name__', '__doc__', '__package__', '__loader__',
        '__spec__', '__file__', '__cached__'}
    names |= set(dir(util)) | set(dir(to))
    names |= set(CLOSURE_LOCALS) | set(HARNESS_LOCALS)
    names -= set(ENVS[0])
    names = {n for n in names if n.isidentifier() and not keyword.iskeyword(n)}
    return sorted(names)


def probe(name):
    bad = []
    n = 0
    for evname in ('completion', 'ranking', 'doc-example', 'all'):
        for tmpl in PROBE_CONTEXTS:
            src = tmpl.format(name)
            _fn, wl, err = evaluator(evname)
            tree = ast.parse(src, mode='eval')
            if first_forbidden(list(ast.walk(tree)), wl) is not None:
                continue
            out, log = run_evaluator(evname, src, 0)
            n += 1
            if out != ('exc', 'NameError'):
                bad.append({
                    'src': src, 'evaluator': evname, 'env': 0, 'probe': name,
                    'sig': ('unsupplied-name-resolves:'
                            f'{name_category(name)}'),
                    'what': (f'{evname}({src!r}) -> {out}: {name!r} is not a '
                             'supplied variable')})
    return bad, n


# ------------------------------------------------------------------ workers

def _work(job):
    k, idxs, tier = job
    levels = LEVELS[tier]
    bad = []
    n_eval = 0
    st = {'ok': 0, 'syntax-error': 0, 'compile-error': 0}
    pairs = set()
    for i in idxs:
        src = source(k, i, levels)
        status, b, n, names = judge(
            src, None if k <= 1 else leaf_classes(i % NL))
        st[status] += 1
        n_eval += n
        pairs.update(names)
        if b and len(bad) < 400:
            bad.extend(b[:3])
    return bad, n_eval, st, pairs


def _work_probe(names):
    bad = []
    n = 0
    for name in names:
        b, k = probe(name)
        bad.extend(b)
        n += k
    return bad, n


def run(ctx: Ctx) -> Result:
    levels = LEVELS[ctx.tier]
    depth = len(levels)
    concrete_classes()
    for evname in ('completion', 'ranking', 'doc-example', 'all'):
        evaluator(evname)
    vios = []
    evals = 0
    st = {'ok': 0, 'syntax-error': 0, 'compile-error': 0}
    classes = set()
    per_depth = {}
    for k in range(depth + 1):
        total = count(k, levels)
        jobs = [(k, c, ctx.tier)
                for c in chunks(range(total), ctx.workers * 8)]
        for bad, n, s, names in pmap(_work, jobs, ctx.workers):
            vios.extend(bad)
            evals += n
            for key in st:
                st[key] += s[key]
            classes |= names
        per_depth[str(k)] = total
    want = {c.__name__ for c in concrete_classes()}
    if classes != want:
        raise HarnessError(f'node classes drifted: {sorted(want ^ classes)}')
    for must in ('Call', 'Attribute', 'Subscript', 'Lambda', 'ListComp',
                 'SetComp', 'DictComp', 'GeneratorExp', 'NamedExpr', 'IfExp',
                 'Starred', 'JoinedStr', 'FormattedValue', 'Dict', 'Set',
                 'List', 'Tuple', 'Slice', 'Yield', 'YieldFrom', 'Await',
                 'keyword', 'comprehension', 'arguments', 'arg', 'Store',
                 'BoolOp', 'BinOp', 'UnaryOp', 'Compare', 'Constant', 'Name'):
        if must not in classes:
            raise HarnessError(f'{must} never generated')
    # the canaries must be live: Python's own run of a few sources logs
    for src in ('a and b', 'a(b)', 'a.attr', '[v for v in a]', "f'{a}'"):
        if not python_outcome(compile(src, '<s>', 'eval'), 0)[1]:
            raise HarnessError(f'canary silent for {src}')

    names = probe_names()
    n_probe = 0
    for bad, n in pmap(_work_probe, chunks(names, ctx.workers * 2),
                       ctx.workers):
        vios.extend(bad)
        n_probe += n
    evals += n_probe
    # a supplied variable shadows a builtin of the same name
    fn = evaluator('completion')[0]
    if fn('len and abs', len=True, abs=False) is not False:
        raise HarnessError('supplied variables not used')
    vios.sort(key=lambda b: (b['sig'], len(b['src']), b['src']))
    seen = set()
    violations = []
    for b in vios:
        key = (b['sig'], b['src'], b['evaluator'], b.get('env'))
        if key in seen:
            continue
        seen.add(key)
        violations.append(Violation(
            b['sig'], b['what'], {k: v for k, v in b.items() if k != 'what'}))

    total = sum(per_depth.values())
    cov = {
        'evaluations': evals,
        'distinct_nontrivial': st['ok'],
        'rule': (
            'one evaluation = one source through one evaluator built by the '
            'real restricted_evaluator under one canary environment; '
            'non-trivial = distinct generated sources that Python parses and '
            'compiles (each is run through 4 fixed evaluators plus one '
            '"everything but C" evaluator per node class C it contains)'),
        'sources': total,
        'sources_by_context_depth': per_depth,
        'max_context_depth': depth,
        'leaves': NL,
        'contexts': NC,
        'contexts_per_level_innermost_first': [len(x) for x in levels],
        'python_syntax_errors': st['syntax-error'],
        'python_compile_errors': st['compile-error'],
        'node_classes': sorted(classes),
        'evaluators': ['completion (CompletionEvaluator)',
                       'ranking (RankingExpressionEvaluator)',
                       'doc-example', 'all', 'all-but:<C> per class'],
        'names_probed': len(names),
        'name_probe_evaluations': n_probe,
        'samples': [source(depth, i, levels) for i in range(
            7, count(depth, levels),
            max(1, count(depth, levels) // 7))][:7],
        'exhaustive': True,
    }
    return Result(cov, violations, assumptions=[
        'sources are context chains: one leaf per expression node kind '
        'wrapped in up to max_context_depth contexts, one context per '
        '(parent kind, field) position (innermost level(s): all contexts; '
        'outermost level: one context per parent kind, see '
        'contexts_per_level_innermost_first); side positions hold a single '
        'canary name. Exhaustive over that language up to the depth bound',
        'sources with two or more contexts run the "everything but C" '
        'evaluators for the classes C of the innermost leaf only (all '
        'classes at depth 0-1)',
        '"whitelisted" is relative to each evaluator\'s whitelist '
        '(RankingExpressionEvaluator deliberately whitelists attribute '
        'access and subscripts); membership of a node is isinstance against '
        'the whitelist as documented',
        'a source Python itself cannot parse or compile only has to be '
        'refused without touching a variable (any exception)',
        'statement-level syntax is not generated (the evaluators parse in '
        'eval mode)',
        'the name probes place each unsupplied name where evaluation is '
        'certain to reach it (bare, parenthesised, after a falsy "or", after '
        'a truthy "and", before "or")',
        'resource exhaustion (very long or deeply nested expressions) is out '
        'of scope',
    ])


def replay(payload):
    src = payload['src']
    if 'probe' in payload:
        bad, _ = probe(payload['probe'])
    else:
        _st, bad, _n, _names = judge(src)   # every class
    out = [b for b in bad if b['sig'] == payload['sig']] or bad
    return [Violation(b['sig'], b['what'],
                      {k: v for k, v in b.items() if k != 'what'})
            for b in out[:3]]
