"""C34 Parameter expansion yields exactly the Cartesian product.

Engine B.  A fixed pool of parameters (contiguous and stepped integers,
strings, a single-valued one; custom and default-style templates) is defined;
every graph line / runtime heading of a small grammar that uses any subset of
them - plain `<p>`, fixed `<p=v>` (in and out of range), offsets `<p-1>`,
`<p+1>`, multi-parameter groups in both orders, several groups per node,
repeated groups - is expanded by the real `GraphExpander.expand` /
`NameExpander.expand` and compared with a reference written with
`itertools.product` over the parameters *used on the line*.

A third leg pushes a restricted family of lines through the real
`GraphParser` (which removes the out-of-range offset nodes that
`GraphExpander` only marks) and compares the triggers with those of the
reference-expanded plain lines.
"""
from __future__ import annotations

import itertools

from ..core import Ctx, HarnessError, Result, Violation, chunks, pmap

LEVEL = 'exploration'


# --------------------------------------------------------------- parameters

def pool(quick):
    """[(name, values, template)] - what WorkflowConfig would hand over:
    integer parameters as ints, string parameters as strs."""
    p = [
        ('i', [0, 1, 2], '_i%(i)d'),
        ('j', [1, 3, 5], '_j%(j)02d'),       # stepped: index != value - 1
        ('s', ['a', 'b'], '_%(s)s'),          # default string template
        ('k', [7], '_k%(k)d'),                # single value
    ]
    if not quick:
        p += [
            ('t', ['x', 'y', 'z'], '_t%(t)s'),
            ('n', [-2, 0, 2], '_n%(n)+02d'),  # default template, negatives
        ]
    return p


def pool_maps(pl):
    return ({n: list(v) for n, v, _ in pl}, {n: t for n, _, t in pl})


BAD = {int: 9, str: 'q'}


def items_for(name, values, quick, offsets=True):
    """Item = (param, kind, arg). kind: plain | fixed | bad | off."""
    out = [(name, 'plain', None)]
    out += [(name, 'fixed', v) for v in values]
    out.append((name, 'bad', BAD[type(values[0])]))
    if offsets:
        out += [(name, 'off', -1), (name, 'off', 1)]
        if not quick:
            out.append((name, 'off', -2))
    return out


def item_text(it, sp=False):
    p, kind, arg = it
    if kind == 'plain':
        return p
    if kind in ('fixed', 'bad'):
        return f'{p} = {arg}' if sp else f'{p}={arg}'
    return f'{p}{arg:+d}'


def group_text(g, sp=False):
    if not g:
        return ''
    return '<' + (', ' if sp else ',').join(item_text(i, sp) for i in g) + '>'


def groups(pl, quick, offsets=True, maxlen=2):
    """All groups (tuples of items over distinct parameters)."""
    per = {n: items_for(n, v, quick, offsets) for n, v, _ in pl}
    names = [n for n, _, _ in pl]
    out = [()]
    for ln in range(1, maxlen + 1):
        for ps in itertools.permutations(names, ln):
            out.extend(itertools.product(*[per[p] for p in ps]))
    return out


# ----------------------------------------------------------------- reference

REMOVED = object()


def item_value(it, env, vals):
    """The value an item denotes for the current combination."""
    p, kind, arg = it
    if kind == 'plain':
        return env[p]
    if kind in ('fixed', 'bad'):
        return arg
    lst = vals[p]
    idx = lst.index(env[p]) + arg          # neighbour in list order
    if 0 <= idx < len(lst):
        return lst[idx]
    return REMOVED


def used_params(nodes, free_only=False):
    """Parameters appearing on the line, in order of appearance.
    free_only: those that are looped over, i.e. appear plain or with an
    offset somewhere (a parameter only ever given as <p=v> selects v)."""
    seen = []
    for _, grps in nodes:
        for g in grps:
            for p, kind, _ in g:
                if free_only and kind not in ('plain', 'off'):
                    continue
                if p not in seen:
                    seen.append(p)
    return seen


def has_bad(nodes):
    return any(kind == 'bad' for _, grps in nodes for g in grps
               for _, kind, _ in g)


def ref_instances(nodes, vals, tmpls, marker):
    """One instance per combination of the parameters used on the line.

    nodes: [(name_parts, groups)] with len(name_parts) == len(groups) + 1.
    Returns a list (one entry per combination) of lists of rendered node
    strings; a node with an out-of-range offset renders with `marker`
    substituted (marker None: the node renders as None = dropped).
    """
    used = used_params(nodes, free_only=True)
    out = []
    for combo in itertools.product(*[vals[p] for p in used]):
        env = dict(zip(used, combo))
        inst = []
        for parts, grps in nodes:
            text = parts[0]
            dropped = False
            for g, tail in zip(grps, parts[1:]):
                for it in g:
                    v = item_value(it, env, vals)
                    if v is REMOVED:
                        dropped = True
                        v = marker
                    if v is not None:
                        text += tmpls[it[0]] % {it[0]: v}
                text += tail
            inst.append(None if (dropped and marker is None) else text)
        out.append((env, inst))
    return out


def join_line(rendered, ops):
    """Interleave node strings with operators (no whitespace)."""
    s = rendered[0]
    for op, r in zip(ops, rendered[1:]):
        s += op + r
    return s


def line_text(nodes, ops, sp=False, gsp=False):
    rendered = []
    for parts, grps in nodes:
        t = parts[0]
        for g, tail in zip(grps, parts[1:]):
            t += group_text(g, gsp) + tail
        rendered.append(t)
    if sp:
        return join_line(rendered, [f' {o} ' for o in ops])
    return join_line(rendered, ops)


def kinds_of(nodes):
    ks = set()
    for _, grps in nodes:
        if len(grps) > 1:
            ks.add('multigroup')
        for g in grps:
            if len(g) > 1:
                ks.add('multiparam')
            for _, kind, arg in g:
                if kind == 'off':
                    ks.add('prev' if arg < 0 else 'next')
                else:
                    ks.add(kind)
    return '+'.join(sorted(ks)) or 'noparams'


# ------------------------------------------------------------ graph expander

def judge_graph(case, vals, tmpls):
    from cylc.flow.param_expand import GraphExpander
    nodes, ops, sp = case
    text = line_text(nodes, ops, sp)
    marker = GraphExpander._REMOVE
    exp = GraphExpander((
        {k: list(v) for k, v in vals.items()}, dict(tmpls)))
    try:
        got = exp.expand(text)
    except Exception as exc:
        got = f'EXC {type(exc).__name__}'
    base = {'leg': 'graph', 'case': case, 'text': text,
            'kinds': kinds_of(nodes)}
    if has_bad(nodes) or _undefined(nodes, vals):
        if isinstance(got, str):
            return 'rejected', None
        return 'judged', dict(
            base, diff='accepts-out-of-range-value', got=sorted(got)[:6],
            want='ParamExpandError')
    want = {join_line(inst, ops) for _, inst in
            ref_instances(nodes, vals, tmpls, marker)}
    if isinstance(got, str):
        return 'judged', dict(base, diff='rejects-valid', got=got,
                              want=sorted(want)[:6])
    gotn = {''.join(x.split()) for x in got}
    if gotn == want:
        return 'judged', None
    missing = sorted(want - gotn)
    extra = sorted(gotn - want)
    diff = ('missing+extra' if missing and extra else
            'missing-instances' if missing else 'extra-instances')
    return 'judged', dict(base, diff=diff, got=extra[:4], want=missing[:4])


def _undefined(nodes, vals):
    return any(p not in vals for p in used_params(nodes))


def graph_cases(pl, quick, part=(0, 1)):
    """Structured graph lines. node = (name_parts, groups).
    part=(k, n): the k-th of n disjoint slices (union = everything)."""
    k, npart = part
    G = groups(pl, quick)
    names3 = [n for n, _, _ in pl][:3]
    pl3 = [x for x in pl if x[0] in ('i', 's')]
    R = [g for g in groups(pl3, True) if len(g) <= 1] + [
        (('i', 'plain', None), ('s', 'plain', None)),
        (('s', 'plain', None), ('i', 'plain', None)),
        (('i', 'off', -1), ('s', 'plain', None)),
        (('i', 'plain', None), ('s', 'fixed', 'a')),
        (('j', 'off', -1),), (('j', 'plain', None),),
    ]
    singles = [g for g in G if len(g) == 1]
    n = 0

    def node(name, *grps, tails=None):
        parts = [name] + list(tails or [''] * len(grps))
        return (parts, list(grps)) if grps != ((),) else ([name], [])

    # 2 nodes, every pair of groups
    for g1 in G[k::npart]:
        for g2 in G:
            n += 1
            yield ([node('a', g1), node('b', g2)], ['=>'], bool(n % 2))
    if k:
        return
    # 1 node
    for g in G:
        n += 1
        yield ([node('a', g)], [], bool(n % 2))
    # 3 nodes, reduced group list, three shapes
    for ops in (['&', '=>'], ['=>', '=>'], ['|', '=>']):
        for g1, g2, g3 in itertools.product(R, repeat=3):
            n += 1
            yield ([node('a', g1), node('b', g2), node('c', g3)],
                   ops, bool(n % 2))
    # several groups on one node: a<g1>_x<g2> (also the same group twice)
    for g1, g2 in itertools.product(singles, repeat=2):
        n += 1
        yield ([(['a', '_x', ''], [g1, g2])], [], False)
        yield ([node('b', g1), (['a', '_x', ''], [g1, g2])], ['=>'], True)
    # undefined parameter
    for g in R[:6]:
        yield ([node('a', g), node('b', (('zz', 'plain', None),))],
               ['=>'], False)
    if not quick:
        G3 = [g for g in groups(
            [x for x in pl if x[0] in names3], True, maxlen=3)
            if len(g) == 3]
        for g in G3:
            n += 1
            yield ([node('a', g)], [], False)
            yield ([node('a', g), node('b', g[:1])], ['=>'], True)


# ------------------------------------------------------------- name expander

def judge_name(case, vals, tmpls):
    from cylc.flow.param_expand import NameExpander
    names, gsp = case          # names: list of nodes; heading = ', '.join
    text = ', '.join(line_text([nd], [], gsp=gsp) for nd in names)
    exp = NameExpander((
        {k: list(v) for k, v in vals.items()}, dict(tmpls)))
    try:
        got = exp.expand(text)
    except Exception as exc:
        got = f'EXC {type(exc).__name__}'
    base = {'leg': 'name', 'case': case, 'text': text,
            'kinds': kinds_of(names)}
    if has_bad(names) or _undefined(names, vals):
        if isinstance(got, str):
            return 'rejected', None
        return 'judged', dict(
            base, diff='accepts-out-of-range-value', got=_j(got[:4]),
            want='ParamExpandError')
    want = []
    for nd in names:
        for env, inst in ref_instances([nd], vals, tmpls, None):
            values = dict(env)
            for g in nd[1]:
                for it in g:
                    if it[1] == 'fixed':
                        values[it[0]] = it[2]
            want.append((inst[0], values))
    if isinstance(got, str):
        return 'judged', dict(base, diff='rejects-valid', got=got,
                              want=_j(want[:4]))

    def key(x):
        return (x[0], sorted((k, repr(v)) for k, v in x[1].items()))
    g_sorted = sorted(([n, dict(v)] for n, v in got), key=key)
    w_sorted = sorted(([n, dict(v)] for n, v in want), key=key)
    if g_sorted == w_sorted:
        return 'judged', None
    gnames = [n for n, _ in g_sorted]
    wnames = [n for n, _ in w_sorted]
    if set(gnames) == set(wnames) and len(gnames) > len(wnames) and (
            sorted(set(map(repr, g_sorted))) == sorted(
                set(map(repr, w_sorted)))):
        rep = any(
            len([p for g in nd[1] for p, _, _ in g]) != len(
                {p for g in nd[1] for p, _, _ in g}) for nd in names)
        diff = 'duplicate-instances' + (
            ':param-repeated-in-heading' if rep else '')
    elif gnames == wnames:
        diff = 'wrong-values'
    elif set(wnames) - set(gnames) and set(gnames) - set(wnames):
        diff = 'missing+extra'
    elif set(wnames) - set(gnames):
        diff = 'missing-instances'
    else:
        diff = 'extra-instances'
    return 'judged', dict(
        base, diff=diff, got=_j(g_sorted[:5]), want=_j(w_sorted[:5]),
        n_got=len(g_sorted), n_want=len(w_sorted))


def _j(x):
    return [[n, dict(v)] for n, v in x]


def name_cases(pl, quick, part=(0, 1)):
    if part[0]:
        return
    G = groups(pl, quick, offsets=False)
    singles = [g for g in G if len(g) == 1]
    R = [g for g in G if len(g) <= 1 and (not g or g[0][0] in 'is')] + [
        (('i', 'plain', None), ('s', 'plain', None)),
        (('s', 'fixed', 'a'), ('i', 'plain', None)),
    ]

    def node(name, g):
        return ([name, ''], [g]) if g else ([name], [])
    for g in G:
        yield ([node('a', g)], False)
        if g:
            yield ([node('a', g)], True)      # 'a<i, s>', 'a<i = 0>'
    for g1, g2 in itertools.product(R, repeat=2):
        yield ([node('a', g1), node('b', g2)], False)
    for g1, g2 in itertools.product(singles, repeat=2):
        if g1[0][0] == g2[0][0] and 'plain' not in (g1[0][1], g2[0][1]):
            continue
        if g1[0][0] == g2[0][0] and g1[0][1] != g2[0][1]:
            continue   # same parameter both free and fixed: meaning unclear
        yield ([(['a', '_x', ''], [g1, g2])], False)
    for g in R[:4]:
        yield ([node('a', g), node('b', (('zz', 'plain', None),))], False)
    if not quick:
        for g in groups(pl[:3], True, offsets=False, maxlen=3):
            if len(g) == 3:
                yield ([node('a', g)], False)


# --------------------------------------------------------- GraphParser leg

def parser_cases(pl, quick, part=(0, 1)):
    """Lines whose out-of-range offset nodes sit in an &/| group next to a
    plain node on the left of the single arrow (the unambiguous case), plus
    offset-free lines."""
    pl2 = [x for x in pl if x[0] in ('i', 'j', 's')]
    G = groups(pl2, quick)
    nobad = [g for g in G if not any(it[1] == 'bad' for it in g)]
    plain_g = [g for g in nobad if not any(it[1] == 'off' for it in g)]
    off_g = [g for g in nobad if any(it[1] == 'off' for it in g)]
    small = [g for g in plain_g if len(g) <= 1]
    n = 0

    def node(name, g):
        return ([name, ''], [g]) if g else ([name], [])
    k, npart = part
    for g1 in plain_g[k::npart]:
        for g2 in plain_g:
            n += 1
            yield ([node('a', g1), node('b', g2)], ['=>'], n % 3)
    for g1 in off_g[k::npart]:
        for g2 in small:
            for shape in range(4):
                n += 1
                if shape == 0:
                    yield ([node('x', ()), node('a', g1), node('b', g2)],
                           ['&', '=>'], n % 3)
                elif shape == 1:
                    yield ([node('a', g1), node('x', ()), node('b', g2)],
                           ['&', '=>'], n % 3)
                elif shape == 2:
                    yield ([node('x', ()), node('a', g1), node('b', g2)],
                           ['|', '=>'], n % 3)
                else:
                    yield ([node('x', ()), node('a', g1), node('y', ()),
                            node('b', g2)], ['&', '&', '=>'], n % 3)


def judge_parser(case, vals, tmpls):
    from cylc.flow.graph_parser import GraphParser
    nodes, ops, spmode = case
    text = line_text(nodes, ops, sp=bool(spmode), gsp=(spmode == 2))
    base = {'leg': 'parser', 'case': case, 'text': text,
            'kinds': kinds_of(nodes)}
    try:
        gp = GraphParser(parameters=(
            {k: list(v) for k, v in vals.items()}, dict(tmpls)))
        gp.parse_graph(text)
        got = _trig(gp)
    except Exception as exc:
        got = f'EXC {type(exc).__name__}: {str(exc)[:80]}'
    lines = set()
    for _, inst in ref_instances(nodes, vals, tmpls, None):
        # drop a removed node together with one adjoining &/| operator
        sides = [[]]
        for idx, r in enumerate(inst):
            op = ops[idx - 1] if idx else None
            if op == '=>':
                sides.append([])
                op = None
            if r is not None:
                sides[-1].append((op, r))
        if any(not side for side in sides):
            raise HarnessError('a whole side of the arrow was dropped')
        lines.add('=>'.join(
            side[0][1] + ''.join(op + r for op, r in side[1:])
            for side in sides))
    ref = GraphParser()
    ref.parse_graph('\n'.join(sorted(lines)))
    want = _trig(ref)
    if got == want:
        return 'judged', None
    if isinstance(got, str):
        diff = 'rejects-valid'
    else:
        gk, wk = set(got['triggers']), set(want['triggers'])
        diff = ('missing-tasks' if wk - gk else
                'extra-tasks' if gk - wk else 'different-triggers')
    return 'judged', dict(
        base, diff=diff,
        got=got if isinstance(got, str) else _short(got, want),
        want=_short(want, got if isinstance(got, dict) else None))


def _trig(gp):
    return {
        'triggers': {
            k: {e: [list(v[0]), v[1]] for e, v in sorted(d.items())}
            for k, d in sorted(gp.triggers.items())},
        'original': {k: dict(sorted(d.items()))
                     for k, d in sorted(gp.original.items())},
    }


def _short(a, b):
    if b is None:
        return {k: a['triggers'][k] for k in list(a['triggers'])[:4]}
    return {k: a['triggers'].get(k) for k in sorted(
        set(a['triggers']) | set(b['triggers']))
        if a['triggers'].get(k) != b['triggers'].get(k)}


# ---------------------------------------------------------------------- run

JUDGES = {'graph': judge_graph, 'name': judge_name, 'parser': judge_parser}
CASES = {'graph': graph_cases, 'name': name_cases, 'parser': parser_cases}


def _work(job):
    leg, k, npart, quick = job
    pl = pool(quick)
    cases = CASES[leg](pl, quick, (k, npart))
    vals, tmpls = pool_maps(pl)
    pool_name = 'quick' if quick else 'thorough'
    ncases = 0
    judge = JUDGES[leg]
    counts = {'judged': 0, 'rejected': 0}
    bad = []
    nontriv = 0
    outcomes = set()
    for case in cases:
        ncases += 1
        st, b = judge(case, vals, tmpls)
        counts[st] += 1
        nodes = case[0]
        if st == 'judged' and len(used_params(nodes)) >= 1:
            nontriv += 1
        outcomes.add(kinds_of(nodes))
        if b is not None and len(bad) < 300:
            b['pool'] = pool_name
            bad.append(b)
    return leg, counts, bad, nontriv, sorted(outcomes), ncases


def signature(b):
    return f"{b['leg']}:{b['diff']}:{b['kinds']}"


def describe(b):
    return (f"[{b['leg']}] {b['text']!r}: {b['diff']}; cylc gave "
            f"{b['got']}, reference (itertools.product over the parameters "
            f"used) says {b['want']}")


def run(ctx: Ctx) -> Result:
    pl = pool(ctx.quick)
    npart = max(1, ctx.workers * 6)
    jobs = [(leg, k, npart, ctx.quick)
            for k in range(npart) for leg in ('graph', 'parser')]
    jobs.append(('name', 0, 1, ctx.quick))
    res = pmap(_work, jobs, ctx.workers)
    legs = ('graph', 'name', 'parser')
    counts = {leg: {'judged': 0, 'rejected': 0} for leg in legs}
    total = {leg: 0 for leg in legs}
    bad = []
    nontriv = 0
    kinds = set()
    for leg, c, b, n, outc, ncases in res:
        for k in c:
            counts[leg][k] += c[k]
        total[leg] += ncases
        bad.extend(b)
        nontriv += n
        kinds.update(outc)
    for need in ('prev', 'next', 'fixed', 'bad', 'multiparam', 'multigroup'):
        if not any(need in k.split('+') for k in kinds):
            raise HarnessError(f'feature never generated: {need}')
    for leg in legs:
        if not counts[leg]['judged']:
            raise HarnessError(f'leg {leg} judged nothing')
    if not counts['graph']['rejected'] or not counts['name']['rejected']:
        raise HarnessError('no out-of-range value was rejected')
    bad.sort(key=lambda b: (len(b['text']), b['text']))
    vios = [Violation(signature(b), describe(b), b) for b in bad]
    vals, tmpls = pool_maps(pl)
    samples = []
    for leg in legs:
        cs = list(itertools.islice(CASES[leg](pl, ctx.quick, (0, 500)), 400))
        for case in cs[:: max(1, len(cs) // 3)][:3]:
            nodes = case[0]
            ops = case[1] if leg != 'name' else []
            samples.append({
                'leg': leg,
                'text': (line_text(nodes, ops) if leg != 'name' else
                         ', '.join(line_text([nd], []) for nd in nodes)),
                'reference_instances': (
                    None if has_bad(nodes) or _undefined(nodes, vals) else
                    len(ref_instances(nodes, vals, tmpls, None)))})
    cov = {
        'evaluations': sum(total.values()),
        'distinct_nontrivial': nontriv,
        'rule': (
            'every line/heading of the grammar (all distinct texts); '
            'non-trivial = accepted and judged lines using at least one '
            'parameter'),
        'parameters': {n: v for n, v, _ in pl},
        'templates': {n: t for n, _, t in pl},
        'graph_lines': total['graph'],
        'graph_lines_rejected_as_required': counts['graph']['rejected'],
        'runtime_headings': total['name'],
        'runtime_headings_rejected_as_required': counts['name']['rejected'],
        'graphparser_lines': total['parser'],
        'feature_combinations': len(kinds),
        'samples': samples,
        'exhaustive': True,
    }
    return Result(cov, vios, assumptions=[
        'parameters within one <...> group are distinct; a parameter is not '
        'both free and fixed within one runtime heading',
        'GraphExpander is given lines without whitespace inside <...> (the '
        'GraphParser strips all whitespace first; that path is exercised by '
        'the GraphParser leg); results are compared after removing '
        'whitespace, as sets (GraphExpander returns a set)',
        'GraphExpander marks an out-of-range offset node with its _REMOVE '
        'value for GraphParser to drop; the reference renders that marker in '
        'the same position. +N offsets (not in the statement, but tested '
        'upstream) are judged as "next value in list order"',
        'a fixed value that is not a value of the parameter, and an '
        'undefined parameter, must be rejected (documented behaviour)',
        'NameExpander results are compared as multisets of (name, parameter '
        'values); order is not judged; offsets in headings (documented as '
        'unsupported) are not generated',
        'GraphParser leg: out-of-range offset nodes only inside an &/| '
        'group next to a plain node left of a single arrow. What else '
        'GraphParser drops when the removed node is alone on its side of an '
        'arrow or inside parentheses is outside this property (anchors: '
        'param_expand.py)',
    ])


def replay(payload):
    leg = payload['leg']
    case = _tuplify(payload['case'])
    pl = pool(payload.get('pool', 'quick') == 'quick')
    vals, tmpls = pool_maps(pl)
    _, b = JUDGES[leg](case, vals, tmpls)
    if b is None:
        return []
    b['pool'] = payload.get('pool', 'quick')
    return [Violation(signature(b), describe(b), b)]


def _tuplify(case):
    """JSON turns tuples into lists; items must be tuples again."""
    nodes = [
        (list(parts), [tuple(tuple(it) for it in g) for g in grps])
        for parts, grps in case[0]]
    return (nodes,) + tuple(case[1:])
