"""C38 `cylc clean` deletes only inside the workflow.

Engine C / bounded-exhaustive input enumeration: every run-directory tree
built from at most K optional features of a fixed catalogue (standard symlink
dirs run/log/log-job/share/share-cycle/work as real dir or symlink to a
symlink root, non-standard symlinks to outside dirs/files, to inside dirs, to
a sibling workflow, to a standard target, broken links, a wrongly targeted
link at a standard name, stray data next to the targets) x every pattern of a
--rm menu (plus no pattern = wholesale clean).  Each case is built for real in
a sandbox (HOME, symlink roots, an outside area with sentinels, sibling
workflows), cleaned through the real local path of ``init_clean``
(``parse_rm_dirs`` -> ``get_symlink_dirs`` -> ``clean`` ->
``glob_in_run_dir``/``_clean_using_glob``/``remove_dir_and_target``), and the
whole sandbox is snapshotted before and after without ever following a
symlink.

Oracle (from the statement):
  containment   every deleted/modified path lies in the run directory, in the
                target of one of its standard symlink dirs, or is an emptied
                ancestor of such a target below <root>/cylc-run;
  no-follow     nothing that lives in the target of a non-standard symlink is
                deleted unless the pattern matches it by its real path;
  completeness  every path matched by an independent matcher (fnmatch per
                component, ``**`` = any depth, never descending a non-standard
                symlink, standard symlink dirs transparent) is gone, together
                with the targets of standard symlink dirs in it.
"""
from __future__ import annotations

import asyncio
import itertools
import os
import shutil
import stat
from fnmatch import fnmatchcase
from pathlib import Path

from ..core import Ctx, HarnessError, Result, Violation, chunks, pmap

LEVEL = 'exploration'

WF = 'c38wf'

# standard symlink dirs: feature name -> (path relative to run dir, root)
STD = {
    'run': ('', 'r0'),
    'work': ('work', 'r1'),
    'log': ('log', 'r1'),
    'job': ('log/job', 'r2'),
    'share': ('share', 'r1'),
    'cycle': ('share/cycle', 'r2'),
}
STD_FEATURES = [
    'run_link', 'work_real', 'work_link', 'log_real', 'log_link',
    'job_real', 'job_link', 'share_real', 'share_link', 'cycle_real',
    'cycle_link']
EXTRA_FEATURES = [
    'ln_out_d',        # ln_out_d -> <out>/d            (dir outside)
    'ln_out_f',        # ln_out_f -> <out>/file         (file outside)
    'ln_in_d',         # ln_in_d -> work/d              (relative, inside)
    'ln_broken',       # ln_broken -> nowhere
    'a2_ln_out_d',     # a2/ln_out_d -> <out>/d         (inside a real dir)
    'work_ln_out_d',   # work/ln_out_d -> <out>/d       (inside a std dir)
    'ln_sib',          # ln_sib -> ../otherwf           (sibling workflow)
    'log_wrong',       # log -> <out>/d   (std name, non-standard target)
    'ln_tgt',          # ln_tgt -> <r1>/cylc-run/<wf>/work (a std target)
    'stray',           # <r1>/cylc-run/<wf>/stray file next to the targets
    # siblings whose NAME has another entry's name as a string prefix
    'work_cycles',     # work/1/f work/2/f work/10/f    (cycle dirs)
    'a20',             # a20/f next to a2/f             (top level)
    'ln_out_d2',       # real dir ln_out_d2/f next to the link ln_out_d
    'nest',            # a2/m1/x a2/m1/b/m2: a match deep inside a match
]
FEATURES = STD_FEATURES + EXTRA_FEATURES

PATTERNS_QUICK = [
    None, '*', '**', '**/f', 'a*', 'a*/', 'work', 'work/*', 'log',
    'log/job', 'share', 'share/cycle', 'share/*', 'ln_out_d', 'ln_out_d/*',
    'ln_*', 'ln_*/*', '*/*', '**/keep', 'a2/*/*', '../otherwf',
    'work/*/**', '**/*', 'a*/**', '**/m*',
]
PATTERNS_THOROUGH = PATTERNS_QUICK + [
    'work/', 'work/d', 'log/*', 'log/job/*', 'share/cycle/*', 'ln_out_d/',
    'ln_in_d/*', 'ln_broken', '[al]*', 'a2/../a1', '*/*/*', 'work/*/*',
    '*/f:a1', 'ln_tgt/*', 'ln_sib/*', '**/', 'work/../../otherwf',
    '/etc',
]


def consistent(fs: frozenset) -> bool:
    for d in ('work', 'log', 'job', 'share', 'cycle'):
        if f'{d}_real' in fs and f'{d}_link' in fs:
            return False
    if ('job_real' in fs or 'job_link' in fs) and not (
            'log_real' in fs or 'log_link' in fs):
        return False
    if ('cycle_real' in fs or 'cycle_link' in fs) and not (
            'share_real' in fs or 'share_link' in fs):
        return False
    if 'log_wrong' in fs and ('log_real' in fs or 'log_link' in fs):
        return False
    if 'work_ln_out_d' in fs and not (
            'work_real' in fs or 'work_link' in fs):
        return False
    if 'ln_tgt' in fs and 'work_link' not in fs:
        return False
    if 'work_cycles' in fs and not (
            'work_real' in fs or 'work_link' in fs):
        return False
    if 'ln_out_d2' in fs and 'ln_out_d' not in fs:
        return False
    if 'stray' in fs and not any(
            f in fs for f in ('work_link', 'log_link', 'share_link')):
        return False
    return True


CORE_FEATURES = FEATURES[:-4]     # without the name-prefix/nesting extras


def trees(k: int, k_core: int = 0):
    """All consistent subsets of <= k features, plus those of size
    k+1..k_core drawn from CORE_FEATURES only."""
    out = []
    for n in range(k + 1):
        for combo in itertools.combinations(FEATURES, n):
            if consistent(frozenset(combo)):
                out.append(tuple(combo))
    for n in range(k + 1, k_core + 1):
        for combo in itertools.combinations(CORE_FEATURES, n):
            if consistent(frozenset(combo)):
                out.append(tuple(combo))
    return out


# ------------------------------------------------------------------ sandbox

class Box:
    """Paths of one sandbox."""

    def __init__(self, root: Path):
        self.root = str(root)
        self.home = f'{self.root}/home'
        self.crd = f'{self.home}/cylc-run'
        self.run = f'{self.crd}/{WF}'
        self.out = f'{self.root}/out'

    def target(self, feat: str) -> str:
        rel, r = STD[feat]
        return os.path.normpath(f'{self.root}/{r}/cylc-run/{WF}/{rel}')


def _w(path: str, text: str = 'x\n') -> None:
    os.makedirs(os.path.dirname(path), exist_ok=True)
    with open(path, 'w') as fh:
        fh.write(text)


def build(box: Box, feats) -> dict:
    """Create the sandbox for a feature set.  -> {std rel path: target}."""
    fs = set(feats)
    if os.path.lexists(box.root):
        shutil.rmtree(box.root)
    # the outside world (sentinels)
    _w(f'{box.out}/d/keep')
    _w(f'{box.out}/d/sub/keep')
    _w(f'{box.out}/d/f')
    _w(f'{box.out}/file')
    _w(f'{box.crd}/otherwf/flow.cylc')
    _w(f'{box.crd}/otherwf/keep')
    _w(f'{box.crd}/otherwf/work/f')
    _w(f'{box.crd}/{WF}-x/keep')              # string-prefix sibling
    for r in ('r0', 'r1', 'r2'):
        _w(f'{box.root}/{r}/keep')
        _w(f'{box.root}/{r}/cylc-run/otherwf/log/keep')
        _w(f'{box.root}/{r}/cylc-run/{WF}-x/log/keep')
    std = {}
    # the run directory
    if 'run_link' in fs:
        real_run = box.target('run')
        os.makedirs(real_run)
        os.symlink(real_run, box.run)
        std[''] = real_run
    else:
        os.makedirs(box.run)
    _w(f'{box.run}/flow.cylc', '[scheduling]\n')
    _w(f'{box.run}/a1')
    _w(f'{box.run}/a2/f')
    content = {
        'work': ['d/f', 'f'], 'log': ['f'], 'job': ['1/t/f'],
        'share': ['f'], 'cycle': ['f', '1/f']}
    for d in ('work', 'log', 'job', 'share', 'cycle'):
        rel = STD[d][0]
        path = f'{box.run}/{rel}'
        if f'{d}_link' in fs:
            tgt = box.target(d)
            os.makedirs(tgt)
            os.makedirs(os.path.dirname(path), exist_ok=True)
            os.symlink(tgt, path)
            std[rel] = tgt
        elif f'{d}_real' in fs:
            os.makedirs(path)
        else:
            continue
        for c in content[d]:
            _w(f'{path}/{c}')
    if 'ln_out_d' in fs:
        os.symlink(f'{box.out}/d', f'{box.run}/ln_out_d')
    if 'ln_out_f' in fs:
        os.symlink(f'{box.out}/file', f'{box.run}/ln_out_f')
    if 'ln_in_d' in fs:
        os.symlink('work/d', f'{box.run}/ln_in_d')
    if 'ln_broken' in fs:
        os.symlink('nowhere', f'{box.run}/ln_broken')
    if 'a2_ln_out_d' in fs:
        os.symlink(f'{box.out}/d', f'{box.run}/a2/ln_out_d')
    if 'work_ln_out_d' in fs:
        os.symlink(f'{box.out}/d', f'{box.run}/work/ln_out_d')
    if 'ln_sib' in fs:
        os.symlink('../otherwf', f'{box.run}/ln_sib')
    if 'log_wrong' in fs:
        os.symlink(f'{box.out}/d', f'{box.run}/log')
    if 'ln_tgt' in fs:
        os.symlink(box.target('work'), f'{box.run}/ln_tgt')
    if 'stray' in fs:
        _w(f'{box.root}/r1/cylc-run/{WF}/stray')
    if 'work_cycles' in fs:
        for c in ('1', '2', '10'):
            _w(f'{box.run}/work/{c}/f')
    if 'a20' in fs:
        _w(f'{box.run}/a20/f')
    if 'ln_out_d2' in fs:
        _w(f'{box.run}/ln_out_d2/f')
        _w(f'{box.run}/ln_out_d2/keep')
    if 'nest' in fs:
        _w(f'{box.run}/a2/m1/x')
        _w(f'{box.run}/a2/m1/b/m2')
    return std


def snapshot(root: str) -> dict:
    """real path -> ('d',)|('l', target)|('f', content).  Never follows a
    symlink (os.lstat/os.listdir on real directories only)."""
    out = {}
    stack = [root]
    while stack:
        d = stack.pop()
        for n in os.listdir(d):
            p = f'{d}/{n}'
            st = os.lstat(p)
            if stat.S_ISLNK(st.st_mode):
                out[p] = ('l', os.readlink(p))
            elif stat.S_ISDIR(st.st_mode):
                out[p] = ('d',)
                stack.append(p)
            else:
                with open(p, 'rb') as fh:
                    out[p] = ('f', fh.read())
    return out


# ------------------------------------------------- reference: virtual tree

class VTree:
    """The run directory as the statement sees it: standard symlink dirs are
    transparent directories, every other symlink is a leaf."""

    def __init__(self, box: Box, snap: dict, std: dict):
        self.box = box
        self.snap = snap
        self.std = std           # rel -> target real path
        self.kids = {}
        for p in snap:
            self.kids.setdefault(os.path.dirname(p), []).append(
                os.path.basename(p))
        self.seam_hits = 0
        self.optional = set()

    def real(self, vrel: str) -> str:
        """Real path of the object named by a virtual path."""
        cur = self.std.get('', self.box.run)
        done = ''
        for comp in [c for c in vrel.split('/') if c]:
            done = f'{done}/{comp}' if done else comp
            cur = f'{cur}/{comp}'
            if done in self.std and done != vrel:
                cur = self.std[done]
        return cur

    def kind(self, vrel: str) -> str:
        """dir | file | stdlink | link-dir | link-file | link-broken |
        missing"""
        if vrel == '':
            return 'dir'
        r = self.real(vrel)
        ent = self.snap.get(r)
        if ent is None:
            return 'missing'
        if ent[0] == 'd':
            return 'dir'
        if ent[0] == 'f':
            return 'file'
        if vrel in self.std:
            return 'stdlink'
        t = self.snap.get(self.resolve(r))
        if t is None:
            return 'link-broken'
        return 'link-dir' if t[0] == 'd' else 'link-file'

    def resolve(self, path: str, hops: int = 0) -> str:
        """realpath computed on the snapshot (harness side only)."""
        if hops > 20:
            return '/nonexistent-loop'
        if not path.startswith(self.box.root + '/'):
            return path
        cur = self.box.root
        comps = path[len(self.box.root) + 1:].split('/')
        for i, comp in enumerate(comps):
            cur = f'{cur}/{comp}'
            ent = self.snap.get(cur)
            if ent is not None and ent[0] == 'l':
                tgt = os.path.normpath(
                    os.path.join(os.path.dirname(cur), ent[1]))
                rest = '/'.join(comps[i + 1:])
                return self.resolve(
                    f'{tgt}/{rest}' if rest else tgt, hops + 1)
        return cur

    def is_dir(self, vrel: str) -> bool:
        return self.kind(vrel) in ('dir', 'stdlink')

    def children(self, vrel: str):
        k = self.kind(vrel)
        if k == 'stdlink':
            d = self.std[vrel]
        elif k == 'dir':
            d = self.real(vrel)
        else:
            return []
        return sorted(self.kids.get(d, []))

    # ---- matcher
    def expand(self, vrel: str, comps):
        if not comps:
            yield vrel
            return
        c, rest = comps[0], comps[1:]
        if not self.is_dir(vrel):
            if self.kind(vrel) == 'link-dir':
                self.seam_hits += 1     # a glob would walk through here
                if all(x == '**' for x in comps):
                    # "LINK/**" names LINK itself (zero directories): like
                    # "LINK/", deleting the link object is not judged
                    self.optional.add(vrel)
            return
        if c == '**':
            yield from self.expand(vrel, rest)
            for n in self.children(vrel):
                child = f'{vrel}/{n}' if vrel else n
                if self.is_dir(child):
                    yield from self.expand(child, comps)
                else:
                    if self.kind(child) == 'link-dir':
                        self.seam_hits += 1
                    if not rest:
                        yield child
        else:
            for n in self.children(vrel):
                if fnmatchcase(n, c):
                    yield from self.expand(f'{vrel}/{n}' if vrel else n, rest)

    def match(self, part: str):
        """-> (required vrels, optional vrels) for one normalised pattern."""
        dironly = part.endswith('/')
        comps = [c for c in part.split('/') if c]
        req, opt = set(), set()
        self.optional = opt
        for v in self.expand('', comps):
            k = self.kind(v)
            if v == '':
                opt.add(v)          # '**' matching the run dir itself
            elif dironly:
                if k in ('dir', 'stdlink'):
                    req.add(v)
                elif k == 'link-dir':
                    opt.add(v)      # is a symlink to a dir "a dir"? not judged
            else:
                req.add(v)
        return req, opt

    def collect(self, vrel: str, acc: set) -> None:
        """All real paths making up the object vrel and what is in it."""
        k = self.kind(vrel)
        if k == 'missing':
            return
        if vrel == '':
            acc.add(self.box.run)
            if '' in self.std:
                acc.add(self.std[''])
        else:
            acc.add(self.real(vrel))
        if k == 'stdlink':
            acc.add(self.std[vrel])
        if k in ('dir', 'stdlink'):
            for n in self.children(vrel):
                self.collect(f'{vrel}/{n}' if vrel else n, acc)


def normalise(pattern: str):
    """The documented reading of one --rm argument: colon separated parts,
    each lexically normalised; absolute paths and paths leading out of the
    run directory are refused.  -> list of parts, or None if refused."""
    parts = []
    for part in pattern.split(':'):
        part = part.strip()
        if not part:
            continue
        isdir = part.endswith('/')
        part = os.path.normpath(part)
        if os.path.isabs(part) or part in ('.', '..') or part.startswith(
                '../'):
            return None
        parts.append(part + '/' if isdir else part)
    return parts


# -------------------------------------------------------------------- case

def location_class(box: Box, p: str) -> str:
    if p.startswith(box.out + '/'):
        return 'outside-area'
    if p.startswith(f'{box.crd}/otherwf'):
        return 'sibling-workflow'
    if p.startswith(f'{box.crd}/{WF}-x'):
        return 'prefix-sibling-workflow'
    for r in ('r0', 'r1', 'r2'):
        base = f'{box.root}/{r}'
        if p.startswith(f'{base}/cylc-run/{WF}/') or p == (
                f'{base}/cylc-run/{WF}'):
            return 'symlink-root-own-dir-outside-targets'
        if p.startswith(base + '/') or p == base:
            return 'symlink-root-other'
    return 'elsewhere'


def run_clean(pattern):
    """The real local clean, as `cylc clean [--rm PATTERN] WF`."""
    from cylc.flow.clean import init_clean
    from cylc.flow.scripts.clean import CleanOptions
    opts = CleanOptions()
    if pattern is not None:
        opts.rm_dirs = [pattern]
    try:
        asyncio.run(init_clean(WF, opts))
        return None
    except Exception as exc:
        return f'{type(exc).__name__}'


REJECTIONS = ('InputError', 'WorkflowFilesError')


def run_case(box: Box, feats, pattern) -> dict:
    std = build(box, feats)
    before = snapshot(box.root)
    err = run_clean(pattern)
    after = snapshot(box.root)
    return judge(box, feats, pattern, std, before, after, err)


def judge(box, feats, pattern, std, before, after, err) -> dict:
    mode = 'wholesale' if pattern is None else 'rm'
    vt = VTree(box, before, std)
    bad = []
    deleted = [p for p in before if p not in after]
    changed = [p for p in before if p in after and before[p] != after[p]]

    # ---- containment
    inside_roots = [std.get('', box.run)] + [
        t for rel, t in std.items() if rel]

    def inside(p):
        if p == box.run:
            return True
        return any(p == r or p.startswith(r + '/') for r in inside_roots)

    gone = set(deleted)

    def emptied_ancestor(p):
        # a directory above a standard target, below <root>/cylc-run, all of
        # whose former content is gone and was itself deletable
        if before[p][0] != 'd':
            return False
        ok_anc = False
        for t in inside_roots:
            marker = '/cylc-run/'
            i = t.find(marker)
            if i < 0:
                continue
            top = t[: i + len(marker) - 1]
            if t.startswith(p + '/') and p.startswith(top + '/'):
                ok_anc = True
        if not ok_anc:
            return False
        for q in before:
            if q.startswith(p + '/'):
                if q not in gone or not (inside(q) or emptied_ancestor(q)):
                    return False
        return True

    for p in sorted(deleted) + sorted(changed):
        if inside(p) or (p in gone and emptied_ancestor(p)):
            continue
        what = 'deleted' if p in gone else 'modified'
        bad.append((
            f'{what}-outside-workflow:{location_class(box, p)}:{mode}',
            f'{what} {os.path.relpath(p, box.root)}'))
        break

    # ---- reference match
    accepted = True
    required, explained = set(), set()
    parts = None
    if 'log_wrong' in feats:
        accepted = False     # a wrongly targeted link at a standard name:
        # cylc refuses to clean; refusal is not judged
    if pattern is None:
        vt.collect('', explained)
        required = set(explained)
    else:
        parts = normalise(pattern)
        if parts is None:
            accepted = False
        else:
            for part in parts:
                req, opt = vt.match(part)
                for v in req:
                    vt.collect(v, required)
                for v in opt:
                    vt.collect(v, explained)
            explained |= required

    # ---- never follows a non-standard symlink (targets inside the sandbox
    # that are not outside the workflow are covered here; outside ones by
    # containment)
    link_targets = []
    if 'ln_in_d' in feats:
        link_targets.append(vt.real('work/d'))
    if 'ln_tgt' in feats:
        link_targets.append(box.target('work'))
    for p in sorted(deleted):
        if any(p == t or p.startswith(t + '/') for t in link_targets):
            if p not in explained and not (
                    pattern is not None and parts is None):
                bad.append((
                    f'followed-nonstandard-symlink:inside-target:{mode}',
                    f'deleted {os.path.relpath(p, box.root)} which the '
                    'pattern only reaches through a non-standard symlink'))
                break

    # ---- completeness
    status = 'accepted'
    if err in REJECTIONS:
        status = 'rejected'
    elif err is not None:
        status = 'error'
    survivors = sorted(p for p in required if p in after)
    if accepted and status == 'accepted' and survivors:
        p = survivors[0]
        ent = before[p]
        if p in std.values():
            k = 'std-symlink-target'
        elif ent[0] == 'l':
            k = 'symlink'
        else:
            k = {'d': 'dir', 'f': 'file'}[ent[0]]
        via = 'direct'
        for rel, t in std.items():
            if rel and (p == t or p.startswith(t + '/')):
                via = f'via-std-symlink-{rel}'
        # root-cause hint: the survivor (or a directory on its way) has a
        # sibling whose name is a proper string prefix of its own name
        q = p
        while q.startswith(box.root + '/'):
            d, n = os.path.split(q)
            if any(os.path.dirname(o) == d and o != q
                   and n.startswith(os.path.basename(o)) for o in before):
                via += ':sibling-name-is-prefix'
                break
            q = d
        bad.append((
            f'matched-path-survives:{k}:{via}:{mode}',
            f'{os.path.relpath(p, box.root)} is matched but still there'))
    if accepted and status == 'error':
        bad.append((
            f'clean-crashed:{err}:{mode}',
            f'clean raised {err} on an acceptable input'))
    return {
        'unexpected_refusal': accepted and status == 'rejected',
        'bad': bad, 'status': status, 'accepted_by_ref': accepted,
        'n_required': len(required), 'n_deleted': len(deleted),
        'seam_hits': vt.seam_hits,
        'std_in_match': any(
            p in std.values() for p in required) and pattern is not None,
    }


def _work(job):
    base, items = job
    box = Box(Path(base) / f'w{os.getpid()}')
    os.makedirs(box.root, exist_ok=True)
    os.environ['HOME'] = box.home
    for k in ('CYLC_WORKFLOW_RUN_DIR', 'CYLC_WORKFLOW_ID',
              'CYLC_WORKFLOW_OWNER'):
        os.environ.pop(k, None)
    import logging
    logging.getLogger('cylc').setLevel(logging.CRITICAL)
    tot = {'cases': 0, 'accepted': 0, 'rejected': 0, 'error': 0,
           'nontrivial': 0, 'seam_nonstd_link': 0, 'std_in_match': 0,
           'deleted_paths': 0, 'unexpected_refusal': 0}
    bad = []
    try:
        for feats, patterns in items:
            for pat in patterns:
                r = run_case(box, feats, pat)
                tot['cases'] += 1
                tot[r['status']] += 1
                if r['status'] == 'accepted' and r['n_deleted']:
                    tot['nontrivial'] += 1
                tot['seam_nonstd_link'] += bool(r['seam_hits'])
                tot['std_in_match'] += bool(r['std_in_match'])
                tot['deleted_paths'] += r['n_deleted']
                tot['unexpected_refusal'] += bool(r['unexpected_refusal'])
                for sig, what in r['bad']:
                    if len(bad) < 500:
                        bad.append((sig, what, list(feats), pat))
    finally:
        shutil.rmtree(box.root, ignore_errors=True)
    return tot, bad


def run(ctx: Ctx) -> Result:
    k = ctx.pick(3, 4)
    k_core = ctx.pick(0, 5)
    patterns = ctx.pick(PATTERNS_QUICK, PATTERNS_THOROUGH)
    tr = trees(k, k_core)
    base = ctx.scratch / 'c38'
    base.mkdir(parents=True, exist_ok=True)
    from cylc.flow.cfgspec.glbl_cfg import glbl_cfg
    glbl_cfg()
    import cylc.flow.clean  # noqa: F401
    import cylc.flow.scripts.clean  # noqa: F401
    jobs = [(str(base), [(t, patterns) for t in c])
            for c in chunks(tr, ctx.workers * 4)]
    res = pmap(_work, jobs, ctx.workers)
    shutil.rmtree(base, ignore_errors=True)
    tot = {}
    vios = []
    for t, bad in res:
        for key, v in t.items():
            tot[key] = tot.get(key, 0) + v
        for sig, what, feats, pat in bad:
            vios.append(Violation(
                sig,
                f'tree {"+".join(feats) or "(base)"}, '
                f'{"no --rm" if pat is None else "--rm " + repr(pat)}: '
                f'{what}',
                {'features': feats, 'pattern': pat}))
    if not vios:
        if not tot['nontrivial'] or not tot['seam_nonstd_link'] or not (
                tot['std_in_match']) or not tot['rejected']:
            raise HarnessError(f'a seam was never exercised: {tot}')
    cov = {
        'evaluations': tot['cases'],
        'distinct_nontrivial': tot['nontrivial'],
        'rule': (
            'one evaluation = one (tree, --rm pattern or none) built on disk '
            'and cleaned through init_clean; trees = all consistent subsets '
            f'of <= {k} of the {len(FEATURES)} catalogue features'
            + (f' (and of <= {k_core} of the first {len(CORE_FEATURES)})'
               if k_core > k else '') + ' on top of '
            'a base run dir; non-trivial = cylc accepted the input and at '
            'least one path was deleted'),
        'trees': len(tr),
        'patterns': ['<none>' if p is None else p for p in patterns],
        'max_features': k,
        'catalogue': FEATURES,
        'accepted': tot['accepted'],
        'refused_by_cylc_not_judged_for_completeness': tot['rejected'],
        'raised_other_exception': tot['error'],
        'refused_although_reference_accepts_not_judged':
            tot['unexpected_refusal'],
        'cases_where_a_glob_would_walk_a_nonstandard_symlink':
            tot['seam_nonstd_link'],
        'cases_matching_through_or_onto_a_standard_symlink_dir':
            tot['std_in_match'],
        'paths_deleted_in_total': tot['deleted_paths'],
        'samples': [
            {'features': list(tr[i]), 'pattern': patterns[i % len(patterns)]}
            for i in range(0, len(tr), max(1, len(tr) // 8))][:8],
        'exhaustive': True,
    }
    return Result(cov, vios, assumptions=[
        'flat workflow ID (a direct child of ~/cylc-run): the runN/'
        '_cylc-install tidy-up of numbered runs is exercised by C48, not '
        'here',
        'no hidden (dot) names in the generated trees: whether "*" should '
        'match them is not stated',
        'a trailing-slash pattern matching a non-standard symlink that points '
        'to a directory (also "LINK/**") may or may not delete the link '
        'itself (not judged); '
        '"**" may or may not remove the run directory itself',
        'directories above a standard target, below <root>/cylc-run, may be '
        'removed once empty (documented tidy-up); anything else outside the '
        'run dir and the standard targets must be untouched, including stray '
        'files next to the targets',
        'a run dir with a wrongly targeted symlink at a standard name is '
        'refused by cylc; refusals are judged for containment only',
        'symlink cycles (a link to the run dir or its parents) and chains of '
        'links are not generated',
        'local clean only (no database, no remote platforms)',
    ])


def replay(payload):
    from ..core import scratch_root
    base = scratch_root() / 'c38-replay'
    box = Box(base)
    os.makedirs(box.root, exist_ok=True)
    os.environ['HOME'] = box.home
    import logging
    logging.getLogger('cylc').setLevel(logging.CRITICAL)
    try:
        r = run_case(box, tuple(payload['features']), payload['pattern'])
    finally:
        shutil.rmtree(base, ignore_errors=True)
    return [Violation(sig, what, dict(payload)) for sig, what in r['bad']]
