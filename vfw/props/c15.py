"""C15 Family triggers expand to all/any of the members' outputs.

Engine B: every family qualifier x family shape x expression shape in a
bounded grammar is rendered to graph text and parsed by the real
``GraphParser``; a second leg loads real ``WorkflowConfig`` objects with
*nested* families declared through ``inherit`` and evaluates the resulting
``Dependency`` objects.

Oracle (from the statement): ``FAM:<q>-all`` is the AND over the members of
the member output that corresponds to ``<q>``, ``FAM:<q>-any`` the OR; a
family on the right gives the trigger and the declared optionality to every
member.  The comparison is *semantic*: the conjunction of all trigger
expressions recorded for a target is parsed by a 30-line boolean parser and
its truth table compared with the reference's over the union of atoms.
"""
from __future__ import annotations

import itertools
import re

from ..core import Ctx, HarnessError, Result, Violation, chunks, pmap

LEVEL = 'exploration'

# qualifier stem -> member outputs it corresponds to (statement + the
# documented task qualifiers: succeed(ed), fail(ed), start(ed), submit(ted),
# submit-fail(ed), expire(d); "finish" = succeeded or failed)
STEMS = {
    'succeed': ['succeeded'],
    'fail': ['failed'],
    'finish': ['succeeded', 'failed'],
    'start': ['started'],
    'submit': ['submitted'],
    'submit-fail': ['submit-failed'],
    'expire': ['expired'],
}
# plain-task qualifier aliases used for the non-family atoms of mixtures
TASK_OUT = {
    '': ['succeeded'], 'succeed': ['succeeded'], 'fail': ['failed'],
    'finish': ['succeeded', 'failed'], 'start': ['started'],
    'x': ['x'],
}


# ------------------------------------------------------------ term helpers
# node = ['fam', name, offset, stem, mode, opt] | ['task', name, offset,
#         qualifier, opt];  expr = node | ['and', e, ...] | ['or', e, ...]

def fam(name, stem, mode, opt=False, off=''):
    return ['fam', name, off, stem, mode, opt]


def task(name, qual='', opt=False, off=''):
    return ['task', name, off, qual, opt]


def render(e, top=True):
    if e[0] == 'fam':
        _, name, off, stem, mode, opt = e
        return f"{name}{off}:{stem}-{mode}{'?' if opt else ''}"
    if e[0] == 'task':
        _, name, off, qual, opt = e
        return f"{name}{off}{':' + qual if qual else ''}{'?' if opt else ''}"
    op = ' & ' if e[0] == 'and' else ' | '
    s = op.join(render(x, False) for x in e[1:])
    return s if top else f'({s})'


def nodes_of(e):
    if e[0] in ('fam', 'task'):
        return [e]
    out = []
    for x in e[1:]:
        out += nodes_of(x)
    return out


def node_atoms(n, fams):
    """Reference atoms of one node (member level)."""
    if n[0] == 'fam':
        _, name, off, stem, mode, opt = n
        return [f'{m}{off}:{o}' for m in fams[name] for o in STEMS[stem]]
    _, name, off, qual, opt = n
    return [f'{name}{off}:{o}' for o in TASK_OUT[qual]]


def ref(e, fams):
    """Member-level reference AST built from the statement."""
    if e[0] == 'fam':
        _, name, off, stem, mode, opt = e
        per_member = []
        for m in fams[name]:
            outs = [('atom', f'{m}{off}:{o}') for o in STEMS[stem]]
            per_member.append(outs[0] if len(outs) == 1 else ('or', outs))
        return ('and' if mode == 'all' else 'or', per_member)
    if e[0] == 'task':
        _, name, off, qual, opt = e
        outs = [('atom', f'{name}{off}:{o}') for o in TASK_OUT[qual]]
        return outs[0] if len(outs) == 1 else ('or', outs)
    return (e[0], [ref(x, fams) for x in e[1:]])


def ev(ast, true):
    k = ast[0]
    if k == 'atom':
        return ast[1] in true
    if k == 'and':
        return all(ev(x, true) for x in ast[1])
    return any(ev(x, true) for x in ast[1])


def atoms_of(ast, acc=None):
    acc = set() if acc is None else acc
    if ast[0] == 'atom':
        acc.add(ast[1])
    else:
        for x in ast[1]:
            atoms_of(x, acc)
    return acc


class BadExpr(Exception):
    pass


_TOK = re.compile(r'([&|()])')


def parse_bool(s):
    """Parse 'a:x&(b:y|c:z)' -> AST.  '&' binds tighter than '|' (the
    expression is finally evaluated by Python with these operators)."""
    toks = [t.strip() for t in _TOK.split(s)]
    toks = [t for t in toks if t]
    pos = [0]

    def peek():
        return toks[pos[0]] if pos[0] < len(toks) else None

    def unit():
        t = peek()
        if t is None or t in '&|)':
            raise BadExpr(s)
        pos[0] += 1
        if t == '(':
            r = or_()
            if peek() != ')':
                raise BadExpr(s)
            pos[0] += 1
            return r
        return ('atom', t)

    def and_():
        items = [unit()]
        while peek() == '&':
            pos[0] += 1
            items.append(unit())
        return items[0] if len(items) == 1 else ('and', items)

    def or_():
        items = [and_()]
        while peek() == '|':
            pos[0] += 1
            items.append(and_())
        return items[0] if len(items) == 1 else ('or', items)

    r = or_()
    if pos[0] != len(toks):
        raise BadExpr(s)
    return r


def table(ast, atoms):
    return tuple(
        ev(ast, {a for a, b in zip(atoms, bits) if b})
        for bits in itertools.product((False, True), repeat=len(atoms)))


# ---------------------------------------------------------------- the judge

def expected_opt(case):
    """{(member, output): optional} declared by the family nodes; keys
    declared inconsistently within the case are dropped (not judged)."""
    fams = case['fams']
    exp, clash = {}, set()
    items = [n for n in nodes_of(case['left']) if n[0] == 'fam']
    for r in case['rights']:
        if r[0] == 'fam' and r[3] and not r[5]:
            # ['fam', name, '', stem, mode, suicide, opt]
            items.append(['fam', r[1], '', r[3], r[4], r[6]])
    for n in items:
        _, name, off, stem, mode, opt = n
        for m in fams[name]:
            for o in STEMS[stem]:
                val = True if stem == 'finish' else bool(opt)
                if exp.setdefault((m, o), val) != val:
                    clash.add((m, o))
    return {k: v for k, v in exp.items() if k not in clash}


def overlap(case):
    names = set()
    for f, mem in case['fams'].items():
        names.add(f)
        names.update(mem)
    names = sorted(names)
    return any(a != b and a in b for a in names for b in names)


def _isolated(fams, node):
    """Expand ONE family node alone ('F:q => x'); -> signature or None."""
    from cylc.flow.exceptions import GraphParseError
    from cylc.flow.graph_parser import GraphParser
    _, name, off, stem, mode, opt = node
    for o in (opt, True, False):
        gp = GraphParser({k: list(v) for k, v in fams.items()})
        n = ['fam', name, off, stem, mode, o]
        try:
            gp.parse_graph(f'{render(n)} => x')
        except GraphParseError:
            continue
        break
    else:
        return None
    ent = {e: v for e, v in gp.triggers.get('x', {}).items() if e}
    want = set(node_atoms(n, fams))
    seen = set()
    try:
        for e in ent:
            seen |= atoms_of(parse_bool(e))
    except BadExpr:
        return None   # garbled even alone: classified by the caller
    if seen == want:
        listed = set()
        for v in ent.values():
            listed.update(v[0])
        seen = listed
    if seen == want:
        atoms = sorted(want)
        got = ('and', [parse_bool(e) for e in sorted(ent)])
        if table(got, atoms) != table(ref(n, fams), atoms):
            return f'family-node:{stem}-{mode}:logic'
        return None
    if any(a.startswith(f'{name}{off}:{stem}-{mode}') for a in seen):
        return 'family-not-expanded' + (
            ':regex-special-name' if re.escape(name) != name else '')
    miss = sorted({a.rsplit(':', 1)[-1] for a in want - seen})
    extra = sorted({a.rsplit(':', 1)[-1] for a in seen - want})
    strip = {re.sub(r'\[[^\]]*\]', '', a) for a in seen}
    if strip == {re.sub(r'\[[^\]]*\]', '', a) for a in want}:
        return f'family-node:{stem}-{mode}:member-offset'
    return (f"family-node:{stem}-{mode}:missing={','.join(miss)}"
            f":extra={','.join(extra)}")


def _suffix(a, b):
    """a is a proper suffix of b, starting at a \\b word boundary or not."""
    return a != b and b.endswith(a)


def diagnose(fams, left, symptom):
    """Root-cause signatures for a failing case.

    1. any family node that is already wrong *on its own* is blamed (one
       signature per such node);
    2. else the interaction is classified from the case: two family nodes
       whose names are suffixes of one another, or a :finish expansion over
       names that are suffixes of one another;
    3. else the bare symptom.
    """
    fam_nodes = [n for n in nodes_of(left) if n[0] == 'fam']
    sigs = []
    for n in fam_nodes:
        s = _isolated(fams, n)
        if s and s not in sigs:
            sigs.append(s)
    if sigs:
        return sigs
    for a, b in itertools.permutations(fam_nodes, 2):
        if _suffix(a[1], b[1]) and a[2:5] == b[2:5]:
            return ['family-substitution:name-is-suffix-of-another-family']
    names = []
    for n in nodes_of(left):
        if n[0] == 'fam' and n[3] == 'finish':
            names += fams[n[1]]
        elif n[0] == 'task' and n[3] == 'finish':
            names.append(n[1])
    if any(_suffix(a, b) for a in names for b in names):
        return ['finish-substitution:name-is-suffix-of-another']
    return [symptom]


def judge(case):
    """-> (status, [(signature, what)])"""
    from cylc.flow.exceptions import GraphParseError
    from cylc.flow.graph_parser import GraphParser
    fams = {k: list(v) for k, v in case['fams'].items()}
    gp = GraphParser({k: list(v) for k, v in fams.items()})
    try:
        gp.parse_graph(case['graph'])
    except GraphParseError:
        return 'rejected', []
    except Exception as exc:  # noqa  (a crash on a legal family trigger)
        return 'crash', [(
            f'parser-crash:{type(exc).__name__}',
            f"{case['graph']!r} with families {fams}: {type(exc).__name__}: "
            f'{exc}')]
    bad = []
    left = case['left']
    lnodes = nodes_of(left)
    fam_nodes = [n for n in lnodes if n[0] == 'fam']
    want = ref(left, fams)
    want_atoms = atoms_of(want)
    stems_all = ','.join(sorted({f'{n[3]}-{n[4]}' for n in fam_nodes}))
    for r in case['rights']:
        targets = fams[r[1]] if r[0] == 'fam' else [r[1]]
        suicide = bool(r[-1]) if r[0] == 'rtask' else bool(r[5])
        for t in targets:
            ent = {e: v for e, v in gp.triggers.get(t, {}).items() if e}
            where = f"{case['graph']!r} families={fams} target={t}"
            if not ent:
                bad.append((
                    'right:member-without-trigger',
                    f'{where}: no trigger recorded'))
                continue
            if any(bool(v[1]) != suicide for v in ent.values()):
                bad.append((
                    'right:suicide-flag',
                    f'{where}: suicide flags {[v[1] for v in ent.values()]}'
                    f' want {suicide}'))
            listed = set()
            for v in ent.values():
                listed.update(v[0])
            try:
                got = ('and', [parse_bool(e) for e in sorted(ent)])
            except BadExpr:
                for sig in diagnose(fams, left, f'garbled-expr:{stems_all}'):
                    bad.append((sig, f'{where}: expression(s) {sorted(ent)} '
                                     'are not well-formed boolean '
                                     'expressions'))
                continue
            got_atoms = atoms_of(got)
            if got_atoms != want_atoms or listed != want_atoms:
                seen = got_atoms if got_atoms != want_atoms else listed
                miss = sorted({a.rsplit(':', 1)[-1]
                               for a in want_atoms - seen})
                extra = sorted({a.rsplit(':', 1)[-1]
                                for a in seen - want_atoms})
                for sig in diagnose(
                        fams, left,
                        f"left-atoms:{stems_all}:missing={','.join(miss)}"
                        f":extra={','.join(extra)}"):
                    bad.append((
                        sig,
                        f'{where}: member outputs in expression '
                        f'{sorted(got_atoms)} / listed {sorted(listed)}; the '
                        f'statement gives {sorted(want_atoms)}'))
                continue
            atoms = sorted(want_atoms)
            if table(got, atoms) != table(want, atoms):
                for sig in diagnose(fams, left, f'left-logic:{stems_all}'):
                    bad.append((
                        sig,
                        f'{where}: {sorted(ent)} is not equivalent to the '
                        f'member-level expression {show(want)}'))
    # optionality of member outputs
    for (m, o), opt in sorted(expected_opt(case).items()):
        got = gp.task_output_opt.get((m, o))
        if got is None or bool(got[0]) != opt:
            bad.append((
                f'member-optionality:{o}',
                f"{case['graph']!r} families={fams}: {m}:{o} optional="
                f'{None if got is None else got[0]}, declared {opt}'))
    return 'ok', bad


def show(ast):
    if ast[0] == 'atom':
        return ast[1]
    op = '&' if ast[0] == 'and' else '|'
    return '(' + op.join(show(x) for x in ast[1]) + ')'


# -------------------------------------------------------------- enumeration

def quals():
    return [(s, m) for s in STEMS for m in ('all', 'any')]


def mk(fams, left, rights, tag):
    """rights: list of ['rtask', name, suicide] | ['fam', name, '', stem,
    mode, suicide_or_opt...]"""
    rtxt = []
    for r in rights:
        if r[0] == 'rtask':
            rtxt.append(('!' if r[2] else '') + r[1])
        else:
            _, name, _, stem, mode, suicide, opt = r
            q = f':{stem}-{mode}' if stem else ''
            rtxt.append(('!' if suicide else '') + name + q
                        + ('?' if opt else ''))
    graph = f"{render(left)} => {' & '.join(rtxt)}"
    return {'fams': fams, 'left': left, 'rights': rights, 'graph': graph,
            'tag': tag}


def rfam(name, stem='', mode='', opt=False, suicide=False):
    return ['fam', name, '', stem, mode, suicide, opt]


def cases(ctx: Ctx):
    q = ctx.quick
    out = []
    X = [['rtask', 'x', False]]
    sizes = [
        {'FAM': ['m1']}, {'FAM': ['m1', 'm2']}, {'FAM': ['m1', 'm2', 'm3']}]
    # member names that are prefixes/suffixes/substrings of one another
    # (sorted, as WorkflowConfig builds the family map)
    coll_members = [
        ['foo', 'xfoo'], ['a-foo', 'foo'], ['foo', 'foo1'], ['1foo', 'foo'],
        ['foo', 'foo_bar'], ['foo', 'foo+'], ['foo', 'foo-x', 'x'],
    ]
    if not q:
        coll_members += [
            ['foo', 'foo%'], ['bar', 'foo', 'foobar'], ['f', 'ff', 'fff'],
            ['foo', 'x-foo', 'x_foo'], ['foo', 'foo-1', 'foo-11']]
    # family names using every character class a family name may contain
    fam_names = ['FAM', 'FAM+', 'F%M', 'F-AM', 'F_AM', '1FAM']
    offs = ['', '[-P1]'] if q else ['', '[-P1]', '[+P1]', '[^]', '[-P1D]',
                                    '[2]']
    opts = [False, True]

    # S1 single family node, every qualifier x size/collision x offset x ?
    for fm in sizes + [{'FAM': m} for m in coll_members]:
        for (s, m), off, o in itertools.product(quals(), offs, opts):
            out.append(mk(fm, fam('FAM', s, m, o, off), X, 'S1'))
    for name in fam_names[1:]:
        for (s, m), o in itertools.product(quals(), opts):
            out.append(mk({name: ['m1', 'm2']}, fam(name, s, m, o), X,
                          'S1-name'))
    # S2-S4 mixtures with plain tasks
    mixes = [
        lambda F: ['and', F, task('p')],
        lambda F: ['and', task('p'), F],
        lambda F: ['or', F, task('p')],
        lambda F: ['or', task('p', 'fail', True), F],
        lambda F: ['and', task('p'), ['or', F, task('r')]],
        lambda F: ['or', ['and', task('p'), F], task('r')],
        lambda F: ['or', task('p', 'finish'), F],
        lambda F: ['and', ['or', F, task('p', 'x')], ['or', task('r'), F]],
    ]
    mix_fams = [{'FAM': ['m1', 'm2']}, {'FAM': ['foo', 'xfoo']}]
    if not q:
        # (member names overlapping the plain tasks p, r of the mixtures,
        # never equal to them: that would declare p's outputs twice)
        mix_fams += [{'FAM': ['m1', 'm2', 'm3']}, {'FAM': ['p1', 'xp']},
                     {'FAM': ['ap', 'r-p']}, {'FAM': ['p+', 'r%']}]
    for fm in mix_fams:
        for (s, m), o, off, mx in itertools.product(
                quals(), opts, offs[:2] if q else offs, mixes):
            out.append(mk(fm, mx(fam('FAM', s, m, o, off)), X, 'S2-4'))
    # S5 two families (incl. names colliding at a word boundary, both orders)
    pairs = [
        ({'FAM': ['m1', 'm2'], 'BAM': ['b1']}, 'FAM', 'BAM'),
        ({'FAM': ['m1', 'm2'], 'A-FAM': ['n1', 'n2']}, 'FAM', 'A-FAM'),
        ({'FAM': ['m1', 'm2'], 'A-FAM': ['n1', 'n2']}, 'A-FAM', 'FAM'),
        ({'OUTER': ['m1', 'm2', 'm3'], 'INNER': ['m1', 'm2']},
         'OUTER', 'INNER'),
    ]
    if not q:
        pairs += [
            ({'FAM': ['m1', 'm2'], 'FAM1': ['n1']}, 'FAM', 'FAM1'),
            ({'FAM': ['m1', 'm2'], 'FAM-x': ['n1']}, 'FAM', 'FAM-x'),
            ({'FAM': ['m1', 'm2'], 'FAM-x': ['n1']}, 'FAM-x', 'FAM'),
            ({'FAM': ['m1', 'm2'], 'A+FAM': ['n1']}, 'FAM', 'A+FAM'),
            ({'FAM': ['m1', 'm2'], 'A%FAM': ['n1']}, 'FAM', 'A%FAM'),
        ]
    for fm, f1, f2 in pairs:
        for (s1, m1), (s2, m2), op in itertools.product(
                quals(), quals(), ('and', 'or')):
            o1 = s1 in ('submit-fail', 'expire')
            o2 = s2 in ('submit-fail', 'expire')
            if f1 in ('OUTER',) and s1 != s2:
                # nested families share members: keep optionality coherent
                o1 = o2 = True
                if 'finish' in (s1, s2):
                    continue
            out.append(mk(
                fm, [op, fam(f1, s1, m1, o1), fam(f2, s2, m2, o2)], X, 'S5'))
    # S6 same family with and without offset; S7 two qualifiers of one family
    fm = {'FAM': ['m1', 'm2']}
    for (s, m), op, off in itertools.product(quals(), ('and', 'or'), offs[1:]):
        o = s in ('submit-fail', 'expire')
        out.append(mk(fm, [op, fam('FAM', s, m, o), fam('FAM', s, m, o, off)],
                      X, 'S6'))
    for (s1, m1), (s2, m2), op in itertools.product(
            quals(), quals(), ('and', 'or')):
        if (s1, m1) == (s2, m2) or 'finish' in (s1, s2):
            continue
        out.append(mk(fm, [op, fam('FAM', s1, m1, True),
                           fam('FAM', s2, m2, True)], X, 'S7'))
    # R: families on the right
    rf = [{'FAM': ['m1', 'm2'], 'BAM': ['b1', 'b2', 'b3']},
          {'FAM': ['m1', 'm2'], 'BAM': ['b1']}]
    lefts = [task('p'), ['or', task('p'), task('r', 'fail', True)]]
    for fm in rf:
        for lf in lefts:
            out.append(mk(fm, lf, [rfam('BAM')], 'R-bare'))
            out.append(mk(fm, lf, [rfam('BAM', suicide=True)], 'R-suicide'))
            out.append(mk(fm, lf, [['rtask', 'x', False], rfam('BAM')],
                          'R-and'))
            for (s, m), o in itertools.product(quals(), opts):
                out.append(mk(fm, lf, [rfam('BAM', s, m, o)], 'R-qual'))
        # family => family (all-to-all), every qualifier on both sides
        for (s1, m1), o1 in itertools.product(quals(), opts):
            out.append(mk(fm, fam('FAM', s1, m1, o1), [rfam('BAM')], 'R-f2f'))
            for (s2, m2), o2 in itertools.product(
                    quals() if not q else quals()[::3], opts):
                out.append(mk(fm, fam('FAM', s1, m1, o1),
                              [rfam('BAM', s2, m2, o2)], 'R-f2f-qual'))
    return out


# -------------------------------------------- leg 2: real nested families

FLOW = """[scheduler]
    allow implicit tasks = True
[scheduling]
    cycling mode = integer
    initial cycle point = 1
    [[graph]]
        P1 = \"\"\"
{graph}
        \"\"\"
[runtime]
    [[OUTER]]
    [[INNER]]
        inherit = OUTER
    [[m1, m2]]
        inherit = INNER
    [[SIDE]]
    [[m3]]
        inherit = SIDE, OUTER
    [[LONE]]
    [[n1]]
        inherit = LONE
"""
# (m3 has OUTER as its *second* parent: family membership follows every
# parent, not only the first-parent tree)
NEST = {'OUTER': ['m1', 'm2', 'm3'], 'INNER': ['m1', 'm2'], 'LONE': ['n1'],
        'SIDE': ['m3']}


def cfg_cases(ctx: Ctx):
    out = []
    offs = ['', '[-P1]'] if ctx.quick else ['', '[-P1]', '[+P1]', '[-P2]']
    shapes = [
        lambda F: F,
        lambda F: ['or', F, task('p')],
    ]
    if not ctx.quick:
        shapes += [lambda F: ['and', task('p'), ['or', F, task('r')]]]
    for name in ('OUTER', 'INNER', 'LONE'):
        for (s, m), off, sh in itertools.product(quals(), offs, shapes):
            o = s in ('submit-fail', 'expire')
            left = sh(fam(name, s, m, o, off))
            lines = [f'{render(left)} => x']
            if off:
                # give the members a sequence of their own
                lines.append(f"{render(fam(name, s, m, o))} => y")
            out.append({'fams': NEST, 'left': left, 'lines': lines,
                        'graph': '\n'.join(lines), 'family': name,
                        'tag': 'cfg-left'})
    # family on the right through the config: trigger and optionality reach
    # every (nested) member's TaskDef
    for name in ('OUTER', 'INNER'):
        for (s, m), o in itertools.product(quals(), (False, True)):
            left = task('p')
            lines = [f'p => {name}:{s}-{m}' + ('?' if o else '')]
            out.append({'fams': NEST, 'left': left, 'lines': lines,
                        'graph': '\n'.join(lines), 'family': name,
                        'right_qual': [s, m, o], 'tag': 'cfg-right'})
    return out


def _atom_key(atom, point):
    """'m1[-P1]:succeeded' at integer point -> ('2', 'm1', 'succeeded')"""
    m = re.fullmatch(r'([^\[:]+)(?:\[([-+])P(\d+)\])?:(.+)', atom)
    name, sign, n, out = m.groups()
    p = point if not sign else point + int(sign + n)
    return (str(p), name, out)


def judge_cfg(job):
    case, scratch, idx = job
    from pathlib import Path
    from types import SimpleNamespace
    from cylc.flow.config import WorkflowConfig
    from cylc.flow.cycling.loader import get_point
    from cylc.flow.exceptions import CylcError
    from cylc.flow.id import Tokens
    d = Path(scratch) / f'c15-{idx}'
    d.mkdir(parents=True, exist_ok=True)
    f = d / 'flow.cylc'
    body = '\n'.join('            ' + ln for ln in case['lines'])
    f.write_text(FLOW.format(graph=body))
    try:
        cfg = WorkflowConfig(f'c15-{idx}', str(f), options=SimpleNamespace())
    except CylcError:
        return 'rejected', []
    finally:
        import shutil
        shutil.rmtree(d, ignore_errors=True)
    fams = case['fams']
    bad = []
    POINT = 5
    targets = ['x'] if case['tag'] == 'cfg-left' else fams[case['family']]
    want = ref(case['left'], fams)
    atoms = sorted(atoms_of(want))
    keys = {a: _atom_key(a, POINT) for a in atoms}
    where = f"{case['graph']!r} (families nested via inherit: {fams})"
    for t in targets:
        tdef = cfg.taskdefs.get(t)
        deps = [] if tdef is None else [
            d_ for ds in tdef.dependencies.values() for d_ in ds]
        if not deps:
            bad.append(('cfg:member-without-dependency',
                        f'{where}: task {t} has no dependency'))
            continue
        first = True
        for bits in itertools.product((False, True), repeat=len(atoms)):
            true = {a for a, b in zip(atoms, bits) if b}
            pres = [d_.get_prerequisite(get_point(str(POINT)), tdef)
                    for d_ in deps]
            if first:
                first = False
                got_keys = set()
                for p in pres:
                    got_keys.update(tuple(k) for k in p.keys())
                if got_keys != set(keys.values()):
                    want_k = set(keys.values())
                    miss = sorted({k[2] for k in want_k - got_keys})
                    extra = sorted({k[2] for k in got_keys - want_k})
                    for sig in diagnose(
                            fams, case['left'],
                            f"cfg:atoms:missing={','.join(miss)}"
                            f":extra={','.join(extra)}"):
                        bad.append((
                            sig,
                            f'{where}: prerequisite of {t} is over '
                            f'{sorted(got_keys)}, the statement gives '
                            f'{sorted(want_k)}'))
                    break
            toks = [Tokens(cycle=keys[a][0], task=keys[a][1],
                           task_sel=keys[a][2]) for a in sorted(true)]
            for p in pres:
                p.satisfy_me(toks)
            qs = ','.join(sorted(
                f'{n[3]}-{n[4]}' for n in nodes_of(case['left'])
                if n[0] == 'fam'))
            try:
                got = all(bool(p.is_satisfied()) for p in pres)
            except Exception as exc:  # noqa (accepted graph, broken prereq)
                for sig in diagnose(
                        fams, case['left'],
                        f'cfg:prerequisite-eval-error:{type(exc).__name__}'
                        f':{qs}'):
                    bad.append((
                        sig,
                        f'{where}: evaluating the prerequisite of {t} '
                        f'raises {type(exc).__name__}'))
                break
            if got != ev(want, true):
                for sig in diagnose(fams, case['left'], f'cfg:logic:{qs}'):
                    bad.append((
                        sig,
                        f'{where}: with {sorted(true)} satisfied the '
                        f'prerequisite of {t} is {got}, member-level '
                        f'expression {show(want)} is {not got}'))
                break
    if case['tag'] == 'cfg-right':
        s, m, o = case['right_qual']
        for mem in fams[case['family']]:
            for outp in STEMS[s]:
                opt = True if s == 'finish' else o
                if mem not in cfg.taskdefs:
                    continue   # reported above: member without dependency
                rec = cfg.taskdefs[mem].outputs.get(outp)
                if rec is None or rec[1] is None or bool(rec[1]) == opt:
                    bad.append((
                        f'cfg:member-optionality:{outp}',
                        f'{where}: TaskDef {mem} output {outp} required='
                        f'{None if rec is None else rec[1]}, declared '
                        f"{'optional' if opt else 'required'}"))
    return 'ok', bad


# ---------------------------------------------------------------- driving

def _work(cs):
    res = []
    for c in cs:
        st, bad = judge(c)
        res.append((st, bad, c))
    return res


def run(ctx: Ctx) -> Result:
    cs = cases(ctx)
    res = []
    for part in pmap(_work, chunks(cs, ctx.workers * 4), ctx.workers):
        res.extend(part)
    ccs = cfg_cases(ctx)
    cres = pmap(judge_cfg,
                [(c, str(ctx.scratch), i) for i, c in enumerate(ccs)],
                ctx.workers, chunksize=8)
    counts = {'ok': 0, 'rejected': 0, 'crash': 0}
    vios = []
    accepted_left = set()
    accepted_right = set()
    distinct = set()
    for st, bad, c in res:
        counts[st] += 1
        if st == 'ok':
            for n in nodes_of(c['left']):
                if n[0] == 'fam':
                    accepted_left.add((n[3], n[4]))
            for r in c['rights']:
                if r[0] == 'fam' and r[3]:
                    accepted_right.add((r[3], r[4]))
            distinct.add(c['graph'] + repr(sorted(c['fams'].items())))
        for sig, what in bad:
            vios.append(Violation(sig, what, {'leg': 'parser', 'case': c}))
    ccounts = {'ok': 0, 'rejected': 0}
    cfg_quals = set()
    for (st, bad), c in zip(cres, ccs):
        ccounts[st] += 1
        if st == 'ok':
            distinct.add('cfg:' + c['graph'] + c['family'])
            for n in nodes_of(c['left']):
                if n[0] == 'fam':
                    cfg_quals.add((n[3], n[4]))
        for sig, what in bad:
            vios.append(Violation(sig, what, {'leg': 'config', 'case': c}))
    allq = set(quals())
    if accepted_left != allq or accepted_right != allq:
        raise HarnessError(
            'a family qualifier was never accepted by the parser: left '
            f'{sorted(allq - accepted_left)} right '
            f'{sorted(allq - accepted_right)}')
    if cfg_quals != allq:
        raise HarnessError(
            f'config leg never accepted {sorted(allq - cfg_quals)}')
    by_tag = {}
    for c in cs + ccs:
        by_tag[c['tag']] = by_tag.get(c['tag'], 0) + 1
    cov = {
        'evaluations': len(cs) + len(ccs),
        'distinct_nontrivial': len(distinct),
        'rule': (
            'one evaluation = one graph text + family map parsed by the real '
            'GraphParser (or, config leg, one flow.cylc loaded by the real '
            'WorkflowConfig with families nested through inherit) and every '
            'target compared with the member-level expression over all '
            'truth assignments of its atoms; non-trivial = distinct '
            '(graph, family map) accepted by cylc'),
        'parser_cases': len(cs),
        'parser_accepted': counts['ok'],
        'parser_rejected_not_judged': counts['rejected'],
        'parser_crashed': counts['crash'],
        'config_cases': len(ccs),
        'config_accepted': ccounts['ok'],
        'config_rejected_not_judged': ccounts['rejected'],
        'qualifiers_accepted_left': len(accepted_left),
        'qualifiers_accepted_right': len(accepted_right),
        'cases_by_shape': by_tag,
        'samples': [c['graph'] for c in cs[:: max(1, len(cs) // 8)][:8]]
        + [c['graph'] for c in ccs[:: max(1, len(ccs) // 3)][:3]],
        'exhaustive': True,
        'bounds': {
            'qualifiers': 14, 'family_size': '1-3',
            'nesting_depth': 2,
            'offsets': ['', '[-P1]'] if ctx.quick else [
                '', '[-P1]', '[+P1]', '[^]', '[-P1D]', '[2]'],
        },
    }
    return Result(cov, vios, assumptions=[
        'decided for the enumerated shapes only: one or two family nodes '
        'mixed with up to three plain-task atoms, family size 1-3, nesting '
        'depth 2',
        'inputs the parser rejects with GraphParseError (e.g. a required '
        ':submit-fail/:expire, inconsistent optionality) are counted, not '
        'judged; every qualifier must be accepted at least once on each '
        'side or the check fails as a harness error',
        'a family qualifier on the left also declares the optionality of '
        'the members\' outputs (every left node is also the right of an '
        'implicit pair, per the GraphParser documentation)',
        'graph-level offsets are opaque strings for the parser leg; the '
        'config leg evaluates integer offsets at cycle point 5 '
        '(no pre-initial simplification)',
    ])


def replay(payload):
    c = payload['case']
    if payload['leg'] == 'parser':
        st, bad = judge(c)
    else:
        import os
        from ..core import scratch_root
        st, bad = judge_cfg((c, str(scratch_root()), os.getpid()))
    return [Violation(sig, what, payload) for sig, what in bad]
