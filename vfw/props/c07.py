"""C07 Task instances stay within cycle bounds and on their sequences; once
a stop point is in effect nothing beyond it is submitted unless manually
triggered (Engine A, model checking of the real Scheduler)."""
from __future__ import annotations

from ..core import Ctx, HarnessError, Result
from ..sched.catalogue import A, AND, E, N, RefGraph, spec_from
from ..sched.mon_c07 import C07Profile, StopPoint
from ..sched.monitors import CycleBounds
from ..sched.run import explore_all, replay_violation, result_from

LEVEL = 'model_checking'

ASSUME = [
    'bounded catalogue (see bounds); integer cycling; localhost jobs; '
    'all-success jobs (no retries: a retry of an instance that was already '
    'active when the stop point was set is not judged)',
    'recurrence forms: P1, P2, +P1/P2, R1, R1/$; offsets -P1, -P2, +P1 '
    '(future trigger at the final cycle); valid points of a task = union of '
    'the recurrences of the sections in which it appears un-offset or on the'
    ' right-hand side, intersected with [ICP, FCP]',
    'operator alphabet: `stop --cycle-point`, `trigger` of single instances '
    '(inside and outside the stop point), `trigger`/`set --pre=all` of '
    'instances before the ICP, after the FCP and off-sequence, `resume`; '
    'budget per execution as listed in bounds; offered at every main-loop '
    'boundary',
    'a stop point is in effect from the start when configured (`stop after '
    'cycle point`, --stopcp) and from the iteration in which the scheduler '
    'processes a `stop --cycle-point` command; instances already in the job'
    ' submission pipeline (preparing) at that moment are exempt',
    'no restart (an automatic shutdown at the stop point deliberately '
    'forgets the stop point)',
]


def TRIG(i):
    return ('force_trigger_tasks', {'tasks': [i], 'flow': []})


def SET(i):
    return ('set', {'tasks': [i], 'flow': [], 'prerequisites': ['all']})


def STOP(p):
    return ('stop', {'mode': None, 'cycle_point': str(p)})


RESUME = ('resume', {})

CHAIN = [E(A('a'), 'b')]
# several recurrences, offsets across them
MULTI = [('P2', [E(A('a'), 'b')]),
         ('+P1/P2', [E(A('a', -1), 'c')])]
ENDS = [('R1', [E(A('s'), 'a')]),
        ('P1', [E(A('a', -1), 'a')]),
        ('R1/$', [E(A('a'), 'z')])]
FUTURE = [('P1', [E(A('a', 1), 'b'), N('a')])]
BACK2 = [('P1', [E(A('a', -2), 'b'), N('a')])]
FUT_AND = [('P1', [E(AND(A('a', 1), A('c')), 'b'), N('a')])]
OFFSEQ = [('P2', [N('a')]), ('P1', [E(A('a', -2), 'b')])]
# 2/a is spawned partially satisfied (by 2/c) while 1/a still runs
ANDPREV = [('P1', [E(AND(A('a', -1), A('c')), 'a')])]
MIX = [('P1', [N('a')]), ('P2', [E(A('a'), 'b')]),
       ('R1/$', [E(A('b', -1), 'z')])]


def rows(tier):
    R = []

    def add(name, secs, fcp, ops=(), budget=0, **extra):
        R.append(dict(name=name, secs=secs, fcp=fcp, ops=list(ops),
                      budget=budget, extra=extra))
    # --- clause 1: graph-driven spawning over several recurrences/offsets
    add('multi-f3', MULTI, 3)
    add('ends-f2', ENDS, 2)
    add('future-f2', FUTURE, 2)
    add('back2-f3', BACK2, 3, scheduling={'runahead limit': 'P0'})
    # --- clause 1: operator requests for out-of-bounds instances
    add('multi-f3-oob', MULTI, 3,
        ops=[TRIG('0/a'), TRIG('4/a'), TRIG('2/a'), TRIG('3/c'),
             SET('4/c'), SET('2/b'), SET('0/a')],
        budget=1, scheduling={'runahead limit': 'P0'},
        oob_ids=['0/a', '4/a', '2/a', '3/c', '4/c', '2/b'])
    add('future-f2-oob', FUTURE, 2,
        ops=[TRIG('3/a'), SET('3/a'), TRIG('3/b'), TRIG('0/b')],
        budget=1, oob_ids=['3/a', '3/b', '0/b'])
    # --- clause 2: stop point
    add('chain-f2-stopcfg', [('P1', CHAIN)], 2,
        ops=[TRIG('2/a'), TRIG('2/b'), TRIG('1/b')], budget=1,
        scheduling={'stop after cycle point': 1}, stop=1)
    # a future trigger extends the runahead limit: it must still be capped
    # at the stop point (whatever the order in which jobs finish)
    add('future-f4-ra1-stopcfg3', FUTURE, 4,
        scheduling={'stop after cycle point': 3, 'runahead limit': 'P1'},
        stop=3)
    add('chain-f2-stopcmd', [('P1', CHAIN)], 2, ops=[STOP(1)], budget=1)
    add('andprev-f2-stopcmd', ANDPREV, 2, ops=[STOP(1)], budget=1)
    add('queue-f2-stopcmd', [('P1', [N('a')])], 2, ops=[STOP(1)], budget=1,
        queues={'q': {'limit': 1, 'members': ['a']}})
    if tier == 'thorough':
        add('multi-f4', MULTI, 4)
        add('ends-f3', ENDS, 3)
        add('future-f3', FUTURE, 3)
        add('futand-f2', FUT_AND, 2)
        add('offseq-f4', OFFSEQ, 4)
        add('mix-f3', MIX, 3)
        add('mix-f3-oob', MIX, 3,
            ops=[TRIG('2/b'), SET('2/b'), TRIG('2/z'), SET('1/z'),
                 TRIG('4/a'), SET('4/b')],
            budget=1, scheduling={'runahead limit': 'P0'},
            oob_ids=['2/b', '2/z', '1/z', '4/a', '4/b'])
        add('chain-f3-stopopt', [('P1', CHAIN)], 3,
            ops=[TRIG('3/a'), TRIG('2/b')], budget=1,
            options={'stopcp': '1'}, stop=1,
            scheduling={'runahead limit': 'P1'})
        add('prev-f2-stop+trig', [('P1', [E(A('a', -1), 'a')])], 2,
            ops=[STOP(1), TRIG('2/a')], budget=2)
        add('chain-f2-stop+trigb', [('P1', CHAIN)], 2,
            ops=[STOP(1), TRIG('2/b')], budget=2,
            scheduling={'runahead limit': 'P0'})
        add('prev-f3-stopcmd', [('P1', [E(A('a', -1), 'a')])], 3,
            ops=[STOP(1), STOP(2)], budget=2)
        add('chain-f2-paused-stop', [('P1', CHAIN)], 2,
            ops=[STOP(1), RESUME], budget=2,
            options={'paused_start': True})
        add('queue-f3-stop+trig', [('P1', [N('a')])], 3,
            ops=[STOP(1), TRIG('3/a')], budget=2,
            queues={'q': {'limit': 1, 'members': ['a']}})
    return R


def catalogue(tier: str):
    out = []
    for r in rows(tier):
        sp = spec_from(r['secs'], 1, r['fcp'], name=r['name'], **r['extra'])
        sp['ops'] = r['ops']
        sp['budget'] = r['budget']
        out.append(sp)
    return out


def make_factory(spec):
    ops = list(spec['ops'])

    def factory():
        return C07Profile(
            spec, ops=lambda w: ops, op_budget=spec['budget'],
            monitors=[CycleBounds, StopPoint], jump=())
    return factory


NEED = ('+sp', '+manual-beyond', '+oob-request')


def run(ctx: Ctx) -> Result:
    specs = catalogue(ctx.tier)
    st = explore_all(
        ctx, [make_factory(s) for s in specs],
        max_states=ctx.pick(6000, 60000), max_seconds=ctx.pick(115, 2400))
    if not st.error and not st.violations:
        for flag in NEED:
            if not any(flag in k for k in st.terminals):
                raise HarnessError(
                    f'vacuous: no terminal state carries {flag!r} '
                    f'(terminals: {sorted(st.terminals)})')
    ninst = 0
    for s in specs:
        ref = RefGraph(s['sections'], s['icp'], s['fcp'])
        ninst += sum(len(v) for v in ref.points.values())
    return result_from(
        ctx, st, prop='C07',
        bounds={'workflows': [s['name'] for s in specs],
                'operator commands per execution':
                    {s['name']: s['budget'] for s in specs if s['budget']},
                'reference task instances in bounds': ninst},
        assumptions=ASSUME, min_states=200)


def replay(payload):
    specs = {s['name']: s for s in catalogue('thorough')}
    return replay_violation(
        payload, lambda pl: make_factory(specs[pl['spec_name']]))
