"""C03 No premature shutdown and no false stall."""
from __future__ import annotations

from ..core import Ctx, Result
from ..sched import catalogue as cat
from ..sched.catalogue import A, AND, OR, E, N, spec_from
from ..sched.monitors import (
    GraphFaithful, Lifecycle, PoolInvariants, ShutdownStall)
from ..sched.profile import Profile
from ..sched.run import explore_all, replay_violation, result_from

LEVEL = 'model_checking'

ASSUME = [
    'bounded catalogue (see bounds); integer cycling; localhost jobs',
    'outcome alphabet includes failure with success required and partial '
    'custom outputs (incomplete finishes)',
    'readiness is judged from the scheduler\'s own prerequisite/xtrigger '
    'flags against the documented conditions (held, runahead limit, stop '
    'point, retry delay); default queue (unlimited)',
    'the expected verdict (shutdown vs stall) comes from the reference '
    'spawn-on-demand closure over the realised job outcomes',
]


def catalogue(tier: str):
    shapes = dict(cat.basic_shapes())
    rows = [
        # name, sections, fcp, extra, failing tasks, emit
        ('chain-fail', [('P1', shapes['chain2'])], 1, {}, ('a',), 'all'),
        ('and-fail', [('P1', shapes['and'])], 1, {}, ('a',), 'all'),
        ('custom-partial', [('P1', [E(A('a', 0, 'x'), 'b'),
                                    E(A('a', 0, 'y'), 'c')])], 1, {},
         (), 'any'),
        ('prev-fail-ra0', [('P1', shapes['prev'])], 3,
         {'scheduling': {'runahead limit': 'P0'}}, ('a',), 'all'),
        ('chain-stop', [('P1', shapes['chain2'])], 3,
         {'scheduling': {'stop after cycle point': 2,
                         'runahead limit': 'P1'}, 'stop': 2}, (), 'all'),
        ('failopt-fail', [('P1', shapes['failopt'])], 1, {}, ('a',), 'all'),
        # a limited queue whose first member finishes incomplete
        ('queue1-fail', [('P1', [N('a'), N('b')])], 1,
         {'queues': {'q': {'limit': 1, 'members': ['a', 'b']}}}, ('a',),
         'all'),
        # an incomplete task elsewhere while a chain keeps spawning
        ('incomplete-elsewhere', [('P1', [N('x'), E(A('a'), 'b')])], 2, {},
         ('x',), 'all'),
    ]
    if tier == 'thorough':
        rows += [
            ('chain-fail-f2', [('P1', shapes['chain2'])], 2, {}, ('a', 'b'),
             'all'),
            ('or-fail', [('P1', shapes['or'])], 1, {}, ('a', 'b'), 'all'),
            ('prevb-fail', [('P1', shapes['prevb'])], 2, {}, ('a',), 'all'),
            ('chain-stop-fail', [('P1', shapes['chain2'])], 3,
             {'scheduling': {'stop after cycle point': 2}, 'stop': 2},
             ('b',), 'all'),
            ('future-ra2', [('P1', shapes['future'])], 3,
             {'scheduling': {'runahead limit': 'P2'}}, ('a',), 'all'),
        ]
    specs = []
    for name, secs, fcp, extra, fails, emit in rows:
        s = spec_from(secs, 1, fcp, name=name, **extra)
        s['fail_tasks'] = list(fails)
        s['emit'] = emit
        specs.append(s)
    return specs


def make_factory(spec):
    def factory():
        outcomes = {t: ['succeeded', 'failed'] for t in spec['fail_tasks']}
        return Profile(
            spec,
            monitors=[ShutdownStall, GraphFaithful, PoolInvariants,
                      Lifecycle],
            outcomes=outcomes, emit=spec['emit'], jump=())
    return factory


def run(ctx: Ctx) -> Result:
    specs = catalogue(ctx.tier)
    st = explore_all(
        ctx, [make_factory(s) for s in specs],
        max_states=ctx.pick(2500, 20000), max_seconds=ctx.pick(100, 1500))
    if not any(k.startswith('quiescent:stalled') for k in st.terminals):
        from ..core import HarnessError
        if not st.violations and not st.error:
            raise HarnessError('vacuous: no stalled terminal state reached')
    return result_from(
        ctx, st, prop='C03',
        bounds={'workflows': [s['name'] for s in specs]},
        assumptions=ASSUME, min_states=50)


def replay(payload):
    specs = {s['name']: s for s in catalogue('thorough')}
    return replay_violation(
        payload, lambda pl: make_factory(specs[pl['spec_name']]))
