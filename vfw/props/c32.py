"""C32 Clock expiry only expires eligible tasks (Engine A).

Datetime-cycling workflows (hourly, UTC, first cycle point = the virtual
"now" 2020-01-01T12:00Z) with `[special tasks]clock-expire` offsets. The
explorer may advance the virtual clock to the next pending expiry deadline
at every main-loop boundary (`jump`), so the clock passes each expiry time
in every reachable task state (queued behind a limit, held, waiting for a
retry, manually triggered but queued, already active, ...).
"""
from __future__ import annotations

from ..core import Ctx, HarnessError, Result
from ..sched.catalogue import A, AND, E, N, render_graph, spec_from
from ..sched.mon_c32 import COUNTS, ClockExpiry, ClockProfile, point_str
from ..sched.monitors import PoolInvariants
from ..sched.run import explore_all, replay_violation, result_from

LEVEL = 'model_checking'

ASSUME = [
    'bounded catalogue (see bounds): hourly datetime cycling in UTC, first '
    'cycle point = virtual now; localhost jobs',
    'the virtual clock advances by the main-loop interval per iteration and '
    'by `jump` events to the earliest pending clock-expire (and, where '
    'configured, retry) deadline, or to one second before it; expiry '
    'deadlines are registered for '
    'waiting tasks only, so the clock passes the expiry time of an active '
    'task only where another, later deadline exists (two-offset workflows)',
    'operator alphabet: force_trigger_tasks / hold of the clock-expire '
    'tasks, budget 1 per execution, at every main-loop boundary',
    'an instance named by a successful trigger command counts as manually '
    'triggered for the rest of the execution; a trigger issued after the '
    'instance expired is operator intervention and exempts it from '
    '"never submits"',
    'expire children are judged at the completion of the expired output '
    '(TaskPool.spawn_on_output window): every task added there must be an '
    ':expire child of the term, and every :expire child must be in the pool '
    'with that prerequisite satisfied; children have no alternative parents '
    'in the catalogue',
    'liveness (a due task does eventually expire) is not part of the '
    'statement and is not judged',
]


def _dt(sections):
    """Render an integer-step term as an hourly datetime graph."""
    g = {}
    for rec, text in render_graph(sections).items():
        rec2 = {'P1': 'PT1H', 'R1': 'R1'}[rec]
        text = text.replace('[-P1]', '[-PT1H]').replace('[+P1]', '[+PT1H]')
        g[rec2] = text
    return g


def dt_spec(name, sections, ncycles, expire, **extra):
    sp = spec_from(sections, 0, ncycles - 1, name=name, **extra)
    sp['icp_i'], sp['fcp_i'] = 0, ncycles - 1
    sp['icp'] = point_str(0)
    sp['fcp'] = point_str(ncycles - 1)
    sp['graph'] = _dt(sections)
    sp['cycling'] = 'gregorian'
    sp['special'] = {'clock-expire': expire}
    return sp


def catalogue(tier: str):
    XP = lambda t, off=0: A(t, off, 'expired', True)   # noqa
    q1 = lambda *m, L=1: {'q1': {'limit': L, 'members': list(m)}}   # noqa
    base = [E(XP('e'), 'b'), E(A('e'), 'c')]
    rows = [
        # name, sections, cycles, clock-expire, extra, ops on, fail, jump
        # queued behind a: the clock passes e's expiry time while it waits
        ('queued-PT1H', [('P1', [N('a')] + base)], 1, 'e(PT1H)',
         {'queues': q1('a', 'e')}, ('e',), (), ('expire',)),
        # expiry NOT optional: the expired task stays in the pool
        ('required-PT1H', [('P1', [N('a'), E(A('e'), 'c')])], 1, 'e(PT1H)',
         {'queues': q1('a', 'e')}, (), (), ('expire',)),
        # due exactly at boot (now == expiry time) / long overdue at boot
        ('boot-PT0S', [('P1', base)], 1, 'e(PT0S)', {}, ('e',), (),
         ('expire',)),
        ('boot-neg', [('P1', base)], 1, 'e(-PT1H)', {}, (), (),
         ('expire',)),
        # spawned on demand by x, in x's queue: a trigger makes e manual
        # while it has to wait
        ('upstream-PT1H', [('P1', [E(A('x'), 'e')] + base)], 1, 'e(PT1H)',
         {'queues': q1('x', 'e')}, ('e',), (), ('expire',)),
        # waiting for a retry when the clock passes the expiry time
        ('retry-PT1H', [('P1', base)], 1, 'e(PT1H)',
         {'tasks': {'e': {'retries': {'exec': 1}}}}, (), ('e',),
         ('expire',)),
        # two offsets: e is active when the clock jumps to f's later time
        ('two-offsets', [('P1', [E(XP('e'), 'b'), E(XP('f'), 'b2')])], 1,
         'e(PT1H), f(PT2H)', {'queues': q1('e', 'f')}, (), (),
         ('expire',)),
    ]
    if tier == 'thorough':
        rows += [
            # family in the clock-expire list; AND child with another parent
            ('family', [('P1', [N('a'), E(AND(XP('e'), A('a')), 'b'),
                                E(XP('f'), 'b2')])], 1, 'FAM(PT30M)',
             {'queues': q1('a', 'e', 'f'), 'families': {'FAM': ['e', 'f']}},
             ('e',), (), ('expire',)),
            # two cycles, inter-cycle expire child: both instances of e are
            # overdue at boot; b@2nd cycle is the only child within bounds
            ('two-cycles', [('P1', [N('e'), E(XP('e', -1), 'b')])], 2,
             'e(-PT1H)', {}, (), (), ('expire',)),
            ('retry-try-jumps', [('P1', base)], 1, 'e(PT1H)',
             {'tasks': {'e': {'retries': {'exec': 1}}}}, ('e',), ('e',),
             ('expire', 'try')),
            ('queued-L2', [('P1', [N('a'), N('a2')] + base
                            + [E(XP('f'), 'b')])], 1, 'e(PT1H), f(PT1H)',
             {'queues': q1('a', 'a2', 'e', 'f', L=2)}, (), (),
             ('expire',)),
        ]
    out = []
    for name, secs, ncyc, expire, extra, ops_on, fails, jump in rows:
        sp = dt_spec(name, secs, ncyc, expire, **extra)
        sp['ops_on'] = list(ops_on)
        sp['fail_tasks'] = list(fails)
        sp['jump'] = list(jump)
        out.append(sp)
    return out


def make_factory(spec):
    # 'e' = trigger and hold commands on every instance of e;
    # 'e:trigger' = trigger commands only
    trig, hold = [], []
    for item in spec['ops_on']:
        t, _, only = item.partition(':')
        for i in range(spec['icp_i'], spec['fcp_i'] + 1):
            trig.append(f'{point_str(i)}/{t}')
            if not only:
                hold.append(f'{point_str(i)}/{t}')

    def ops(w):
        return ([('force_trigger_tasks', {'tasks': [i], 'flow': ['all']})
                 for i in trig]
                + [('hold', {'tasks': [i]}) for i in hold])

    def factory():
        return ClockProfile(
            spec, ops=ops, op_budget=1,
            outcomes={t: ['succeeded', 'failed'] for t in spec['fail_tasks']},
            monitors=[ClockExpiry, PoolInvariants],
            jump=tuple(spec['jump']) + ('clock',))
    return factory


def run(ctx: Ctx) -> Result:
    specs = catalogue(ctx.tier)
    COUNTS.collect(ctx.scratch)
    st = explore_all(
        ctx, [make_factory(s) for s in specs],
        max_states=ctx.pick(6000, 80000), max_seconds=ctx.pick(400, 3000))
    counts = COUNTS.collect(ctx.scratch)
    if not st.error and not st.violations and not st.capped:
        need = ('expiries', 'expiries_exactly_at_expiry_time',
                'expiries_after_expiry_time', 'expiries_of_queued_tasks',
                'expiries_of_held_tasks', 'expiries_of_retrying_tasks',
                'expire_children_checked',
                'states_manual_task_past_expiry_time',
                'states_active_task_past_expiry_time',
                'states_waiting_task_just_before_expiry', 'submissions')
        missing = [k for k in need if not counts.get(k)]
        if missing:
            raise HarnessError(
                f'vacuous exploration: never observed {missing}: {counts}')
        if counts.get('unidentified_expiry'):
            raise HarnessError(f'expiry of a task outside the pool: {counts}')
    return result_from(
        ctx, st, prop='C32',
        bounds={'workflows': [s['name'] for s in specs],
                'clock-expire': {s['name']: s['special']['clock-expire']
                                 for s in specs},
                'operator commands per execution': 1},
        assumptions=ASSUME, min_states=100,
        extra_cov={'monitor_event_counts_incl_prefix_reexecutions': counts})


def replay(payload):
    specs = {s['name']: s for s in catalogue('thorough')}
    return replay_violation(
        payload, lambda pl: make_factory(specs[pl['spec_name']]))
