"""C42 The subprocess pool runs every command once, within its bounds.

Engine C: breadth-first exploration, with state deduplication, of operation
histories on the REAL ``cylc.flow.subprocpool.SubProcPool``.  Only process
creation is replaced:

* a subclass overrides just ``_run_command_init`` (returns a ``FakeProc``) and
  ``_poll_proc_pipes`` (no pipes to poll);
* ``os.killpg`` is a recorder (the real ``subprocpool._killpg`` still runs);
* the module-level ``time`` of subprocpool.py is rebound to a virtual clock,
  so the explorer decides when a command's time-out passes.

Every transition re-executes its whole history on a fresh pool (real
``put_command`` / ``process`` / ``set_stopping`` / ``close`` / ``terminate``),
is judged, and is then extended by a canonical completion (all processes exit,
time-outs pass, ``process()`` until the pool is empty) which is judged as well.

Oracle (from the statement only, kept in the harness's own ledger):
  * the number of callbacks (normal or 255 callback) of each put command is
    <= 1 always and == 1 whenever the pool holds no queued or running work,
    and after ``terminate()``;
  * ``len(runnings) <= size`` after every operation and the number of live
    fake processes <= size at every process creation;
  * no ``jobs-submit`` process is created after ``set_stopping()`` (or
    ``terminate()``) was requested.
"""
from __future__ import annotations

import hashlib
from collections import Counter

from ..core import Ctx, HarnessError, Result, Violation, pmap

LEVEL = 'model_checking'

TIMEOUT = 100      # virtual "process pool timeout"
TICK = 2           # virtual duration of one process() call (main loop turn)
KILLED = -9        # return code of a process killed by SIGKILL
PID0 = 10_000_000  # fake pids (never passed to a real kill)

JOBS_SUBMIT = 'jobs-submit'   # from the statement / documented cmd_key

# kind -> command description.
#   code: scripted exit code; auto: exits by itself right after start;
#   never: never exits by itself (only a kill ends it);
#   cb255: 0 none, 1 callback_255 sharing callback_args, 2 own 255 args
KINDS = {
    'short': dict(key='x', cmd=['true'], host='localhost',
                  code=0, auto=True, never=False, cb255=0),
    'slow': dict(key='x', cmd=['sleep', '9'], host='localhost',
                 code=0, auto=False, never=False, cb255=0),
    'fail': dict(key='x', cmd=['false'], host='localhost',
                 code=1, auto=True, never=False, cb255=0),
    'r255': dict(key='remote-x', cmd=['ssh', 'hostx', 'true'], host='hostx',
                 code=255, auto=False, never=False, cb255=1),
    'tmo': dict(key='x', cmd=['sleep', 'inf'], host='localhost',
                code=0, auto=False, never=True, cb255=0),
    'js': dict(key=JOBS_SUBMIT, cmd=['cylc', 'jobs-submit'],
               host='localhost', code=0, auto=False, never=False, cb255=2),
    # thorough only: ssh 255 failure but no 255 callback given
    'r255n': dict(key='remote-x', cmd=['ssh', 'hostx', 'true'], host='hostx',
                  code=255, auto=True, never=False, cb255=0),
    # stop requests that arrive WHILE the pool is reaping / answering: the
    # command's own callback calls set_stopping() / close() on the pool (as a
    # callback reaching Scheduler._set_stop() would)
    'cbstop': dict(key='x', cmd=['true'], host='localhost',
                   code=0, auto=True, never=False, cb255=0,
                   hook=('cb', 'stop')),
    'cbclose': dict(key='x', cmd=['true'], host='localhost',
                    code=0, auto=True, never=False, cb255=0,
                    hook=('cb', 'close')),
    'cb255stop': dict(key='remote-x', cmd=['ssh', 'hostx', 'true'],
                      host='hostx', code=255, auto=True, never=False,
                      cb255=1, hook=('cb255', 'stop')),
}
BASE_KINDS = ['short', 'slow', 'fail', 'r255', 'tmo', 'js']
HOOK_KINDS = ['cbstop', 'cbclose', 'cb255stop']
# passes: (kinds, depth)
QUICK_PASSES = [(BASE_KINDS + HOOK_KINDS, 5)]
THOROUGH_PASSES = [
    (BASE_KINDS + ['r255n'], 7),
    (BASE_KINDS + HOOK_KINDS, 6),
]

_CUR = None          # the harness whose pool is executing (one at a time)
_INSTALLED = False
_POOL_CLS = None


def _vtime():
    return _CUR.now


def _fake_killpg(pid, sig):
    h = _CUR
    proc = h.procs.get(pid)
    if proc is None:
        raise HarnessError(f'killpg on unknown pid {pid}')
    h.kills.append((h.cur_op, proc.cmd.n, sig))
    if proc.returncode is not None:
        raise ProcessLookupError(pid)
    proc.returncode = KILLED
    h.stats['kill:' + h.cur_op] += 1


def _install():
    """Replace process creation, killpg and the clock (idempotent)."""
    global _INSTALLED, _POOL_CLS
    if _INSTALLED:
        return _POOL_CLS
    import logging
    import os
    import cylc.flow.subprocpool as spp

    lg = logging.getLogger('cylc')
    lg.addHandler(logging.NullHandler())
    lg.propagate = False

    if not callable(getattr(spp, 'time', None)):
        raise HarnessError('subprocpool.py no longer binds a module "time"')
    spp.time = _vtime
    os.killpg = _fake_killpg

    class FakePool(spp.SubProcPool):
        """The real pool; only process creation / pipe polling replaced."""

        def _run_command_init(
            self, ctx, bad_hosts=None, callback=None, callback_args=None,
            callback_255=None, callback_255_args=None
        ):
            return _CUR.spawn(ctx)

        def _poll_proc_pipes(self, proc, ctx):
            _CUR.stats['pipe_polls'] += 1

    _POOL_CLS = FakePool
    _INSTALLED = True
    return FakePool


class FakeProc:
    def __init__(self, cmd, pid):
        self.cmd = cmd
        self.pid = pid
        self.args = list(cmd.ctx.cmd)
        self.returncode = None
        self.stdout = None
        self.stderr = None

    def poll(self):
        return self.returncode

    def wait(self, timeout=None):
        if self.returncode is None:
            raise HarnessError(
                f'wait() on live fake process of command {self.cmd.n}: the '
                'pool would block; not modelled')
        return self.returncode

    def communicate(self, input=None, timeout=None):  # noqa: A002
        if self.returncode is None:
            raise HarnessError(
                f'communicate() on live fake process of command '
                f'{self.cmd.n}: the pool would block; not modelled')
        return (f'out-{self.cmd.n}\n'.encode(), b'')


class Cmd:
    def __init__(self, n, kind):
        self.n = n
        self.kind = kind
        self.spec = KINDS[kind]
        self.ctx = None
        self.proc = None
        self.events = []       # (op, 'cb'|'cb255', ret_code)
        self.left_queue_in = None
        self.settled = False   # finished and judged; out of the state key
        self.put_in = None


class Harness:
    """One real pool + fake environment + the oracle's own ledger."""

    def __init__(self, size):
        global _CUR
        cls = _install()
        _CUR = self
        self.size = size
        self.now = 1000
        self.cur_op = 'init'
        self.step = -1
        self.in_completion = False
        self.cmds = []
        self.procs = {}
        self.kills = []
        self.stats = Counter()
        self.violations = []   # dicts
        self.stop_req = False  # explorer asked set_stopping()/terminate()
        self.close_req = False
        self.terminated = False
        self.oversize_seen = False
        self.pool = cls()
        self.pool.size = size
        self.pool.proc_pool_timeout = TIMEOUT

    # ---------------------------------------------------------- environment
    def spawn(self, ctx):
        cmd = self._cmd_of(ctx)
        if cmd.proc is not None:
            self._vio(
                f'started-twice:in={self.cur_op}',
                f'command {cmd.n} ({cmd.kind}) started a second process')
        proc = FakeProc(cmd, PID0 + len(self.procs))
        self.procs[proc.pid] = proc
        cmd.proc = proc
        live = sum(1 for p in self.procs.values() if p.returncode is None)
        self.stats['max_live'] = max(self.stats['max_live'], live)
        if live > self.size:
            self._vio(
                f'pool-size-exceeded:live-processes:in={self.cur_op}',
                f'{live} processes alive at once, pool size {self.size}')
        if cmd.spec['key'] == JOBS_SUBMIT:
            if self.stop_req:
                self._vio(
                    f'jobs-submit-started-while-stopping:in={self.cur_op}',
                    f'command {cmd.n} (jobs-submit) got a process although '
                    'set_stopping() was called before')
            elif self.close_req:
                self.stats['js_started_after_close_only(not judged)'] += 1
            else:
                self.stats['js_started'] += 1
        if cmd.spec['auto']:
            proc.returncode = cmd.spec['code']
        return proc

    def _cmd_of(self, ctx):
        for c in self.cmds:
            if c.ctx is ctx:
                return c
        raise HarnessError('pool handled a context that was never put')

    def _callback(self, which):
        def cb(ctx, tag, *rest):
            cmd = self.cmds[int(tag.split('-')[1])]
            if cmd.ctx is not ctx:
                raise HarnessError('callback got a foreign context')
            cmd.events.append((self.cur_op, which, ctx.ret_code))
            self.stats[which] += 1
            hook = cmd.spec.get('hook')
            if hook and hook[0] == which:
                # the stop request is made from inside the pool's own call
                self.stats[f'{hook[1]}_requested_by_callback_in_'
                           f'{self.cur_op}'] += 1
                if hook[1] == 'stop':
                    self.stop_req = True
                    self.pool.set_stopping()
                else:
                    self.close_req = True
                    self.pool.close()
        return cb

    def _vio(self, sig, what):
        self.violations.append({
            'signature': sig, 'what': what, 'step': self.step,
            'completion': self.in_completion})

    # ------------------------------------------------------------ operations
    def apply(self, op):
        global _CUR
        _CUR = self
        self.cur_op = op.split(':')[0] if op[0] != 'x' else 'exit'
        self.step += 1
        pool = self.pool
        queued_before = [self._cmd_of(e[0]) for e in pool.queuings]
        if op.startswith('p:'):
            self._put(op[2:])
        elif op == 'proc':
            self._process()
        elif op[0] == 'x':
            proc = pool.runnings[int(op[1:])][0]
            if proc.returncode is not None or proc.cmd.spec['never'] \
                    or proc.cmd.spec['auto']:
                raise HarnessError(f'action {op} not enabled')
            proc.returncode = proc.cmd.spec['code']
        elif op == 'jump':
            self._jump()
        elif op == 'stop':
            self.stop_req = True
            pool.set_stopping()
        elif op == 'close':
            self.close_req = True
            pool.close()
        elif op == 'term':
            self.stop_req = True
            self.terminated = True
            nq, nr = len(pool.queuings), len(pool.runnings)
            pool.terminate()
            if nq:
                self.stats['terminate_with_queue'] += 1
            if nr:
                self.stats['terminate_with_running'] += 1
        else:
            raise HarnessError(f'unknown op {op}')
        self._observe(queued_before)

    def _put(self, kind):
        from cylc.flow.subprocctx import SubProcContext
        spec = KINDS[kind]
        cmd = Cmd(len(self.cmds), kind)
        cmd.ctx = SubProcContext(spec['key'], list(spec['cmd']),
                                 host=spec['host'])
        cmd.put_in = (self.stop_req, self.close_req)
        self.cmds.append(cmd)
        tag = f'cmd-{cmd.n}'
        kw = {}
        if spec['cb255'] == 1:
            kw = dict(callback_255=self._callback('cb255'), bad_hosts=set())
        elif spec['cb255'] == 2:
            kw = dict(callback_255=self._callback('cb255'),
                      callback_255_args=[tag, 'again'], bad_hosts=set())
        self.pool.put_command(
            cmd.ctx, callback=self._callback('cb'), callback_args=[tag], **kw)
        if self.close_req or (self.stop_req and spec['key'] == JOBS_SUBMIT):
            self.stats['put_refused_situation'] += 1
        if cmd.events:
            self.stats['put_answered_at_once'] += 1

    def _process(self):
        pool = self.pool
        # input situations this call is aimed at (harness's own knowledge)
        live = self._live_running()
        expired = [r for r in live if self.now > r[1].timeout]
        if expired:
            self.stats['process_with_expired_running'] += 1
            if len(expired) < len(live):
                self.stats['process_with_expired_and_unexpired_running'] += 1
        if self.stop_req and any(
                self._cmd_of(e[0]).spec['key'] == JOBS_SUBMIT
                for e in pool.queuings):
            self.stats['process_with_queued_jobs_submit_while_stopping'] += 1
        js_waiting_unstopped = (not self.stop_req) and any(
            self._cmd_of(e[0]).spec['key'] == JOBS_SUBMIT
            for e in pool.queuings)
        kills0 = len(self.kills)
        pool.process()
        self.stats['timeout_kills'] += len(self.kills) - kills0
        if js_waiting_unstopped and self.stop_req:
            self.stats[
                'stop_by_callback_during_process_with_queued_jobs_submit'
            ] += 1
        self.now += TICK

    def _live_running(self):
        return [r for r in self.pool.runnings if r[0].returncode is None]

    def _jump(self):
        live = self._live_running()
        if not live:
            raise HarnessError('jump not enabled')
        self.now = max(self.now, min(r[1].timeout for r in live) + 1)

    # ---------------------------------------------------------------- oracle
    def _observe(self, queued_before):
        pool = self.pool
        in_q = [self._cmd_of(e[0]) for e in pool.queuings]
        in_r = [self._cmd_of(e[1]) for e in pool.runnings]
        for c in queued_before:
            if c not in in_q and c.left_queue_in is None:
                c.left_queue_in = self.cur_op
                if c.proc is None:
                    self.stats[f'dropped_unstarted_in_{self.cur_op}'] += 1
        if len(pool.runnings) > self.size and not self.oversize_seen:
            self.oversize_seen = True   # reported where it first happens
            self._vio(
                f'pool-size-exceeded:runnings:in={self.cur_op}',
                f'len(runnings)={len(pool.runnings)} > size={self.size}')
        if len(pool.runnings) == self.size and pool.queuings:
            self.stats['saturated'] += 1
        quiescent = (not pool.queuings and not pool.runnings)
        judge_all = quiescent or self.cur_op == 'term'
        for c in self.cmds:
            if c.settled:
                continue
            n = len(c.events)
            if n > 1:
                ev = '+'.join(f'{o}/{w}/ret={r}' for o, w, r in c.events)
                (o1, w1, r1), (o2, w2, _) = c.events[:2]
                self._vio(
                    f'multi-callback:first={o1}/{w1}/ret={r1}:'
                    f'again={o2}/{w2}',
                    f'command {c.n} ({c.kind}) got {n} callbacks: {ev}')
                c.settled = True
                continue
            held = c in in_q or c in in_r
            if judge_all and n == 0:
                if c in in_q:
                    where = 'still-queued'
                elif c in in_r:
                    where = 'still-running'
                elif c.left_queue_in is None:
                    where = 'refused-at-put'
                else:
                    where = f'dequeued-in={c.left_queue_in}'
                started = 'started' if c.proc is not None else 'never-started'
                self._vio(
                    f'no-callback:{where}:{started}:'
                    f'ret_code={c.ctx.ret_code}',
                    f'command {c.n} ({c.kind}, cmd_key={c.spec["key"]}) has '
                    f'no callback although the pool is '
                    f'{"terminated" if self.cur_op == "term" else "empty"}: '
                    f'{where}, {started}, ret_code={c.ctx.ret_code}, '
                    f'err={c.ctx.err!r}')
                c.settled = True
            elif n == 1 and not held:
                c.settled = True   # done; the pool holds no reference to it

    def complete(self):
        """Canonical completion: let everything finish, drain, judge."""
        self.in_completion = True
        pool = self.pool
        for _ in range(3 * len(self.cmds) + 4):
            if not pool.queuings and not pool.runnings:
                break
            for r in self._live_running():
                if not r[0].cmd.spec['never']:
                    r[0].returncode = r[0].cmd.spec['code']
            self.cur_op = 'jump'
            if self._live_running():
                self._jump()
            self.cur_op = 'proc'
            qb = [self._cmd_of(e[0]) for e in pool.queuings]
            self._process()
            self._observe(qb)
        else:
            # never drains: judge whatever is left as lacking its callback
            for c in self.cmds:
                if not c.settled and not c.events:
                    where = ('still-queued' if any(
                        e[0] is c.ctx for e in pool.queuings)
                        else 'still-running')
                    self._vio(
                        f'no-callback:{where}:pool-never-drains',
                        f'command {c.n} ({c.kind}) never finishes although '
                        'all processes exited and process() was called '
                        'repeatedly')
                    c.settled = True

    def dispose(self):
        """Break reference cycles and release the selector right away."""
        try:
            self.pool.pipepoller.close()
        except Exception:  # noqa
            pass
        for c in self.cmds:
            c.ctx = c.proc = None
        self.cmds = self.procs = self.pool = None

    # ------------------------------------------------------------- state key
    def key(self):
        pool = self.pool
        q = tuple(
            (self._cmd_of(e[0]).kind, len(self._cmd_of(e[0]).events))
            for e in pool.queuings)
        r = tuple(
            (e[0].cmd.kind, e[0].returncode,
             getattr(e[1], 'timeout', self.now) - self.now,
             len(e[0].cmd.events))
            for e in pool.runnings)
        pend = tuple(sorted(
            (c.kind, len(c.events), c.proc is not None,
             None if c.proc is None else c.proc.returncode,
             str(c.left_queue_in))
            for c in self.cmds
            if not c.settled
            and not any(e[0] is c.ctx for e in pool.queuings)
            and not any(e[1] is c.ctx for e in pool.runnings)))
        return (self.size, bool(pool.closed), bool(pool.stopping),
                self.terminated, self.stop_req, self.close_req, q, r, pend)

    def enabled(self, kinds):
        acts = ['p:' + k for k in kinds] + ['proc']
        for i, e in enumerate(self.pool.runnings):
            p = e[0]
            if p.returncode is None and not p.cmd.spec['never'] \
                    and not p.cmd.spec['auto']:
                acts.append(f'x{i}')
        if self._live_running():
            acts.append('jump')
        acts += ['stop', 'close', 'term']
        return acts


# --------------------------------------------------------------- exploration

def _execute(size, ops):
    """Linear execution of one history on a fresh real pool."""
    h = Harness(size)
    for o in ops[:-1]:
        h.apply(o)
    n0 = len(h.violations)
    h.stats.clear()
    if ops:
        h.apply(ops[-1])
    return h, n0


def _expand(job):
    """Execute every enabled action of every frontier state in the job."""
    kinds, items, last = job
    seen = {}
    stats = Counter()
    vios = {}      # signature -> [count, order, what, payload]
    ntrans = 0
    for idx, size, ops, acts in items:
        for ai, a in enumerate(acts):
            hist = ops + (a,)
            h, n0 = _execute(size, hist)
            k = _digest(h.key())
            en = () if last else tuple(h.enabled(kinds))
            h.complete()
            st = Counter(h.stats)
            hv = h.violations[n0:]
            h.dispose()
            ntrans += 1
            ml = max(stats['max_live'], st['max_live'])
            stats.update(st)
            stats['max_live'] = ml
            for v in hv:
                order = (len(hist), idx, ai)
                ent = vios.get(v['signature'])
                payload = {
                    'size': size, 'ops': list(hist),
                    'complete': bool(v['completion']),
                    'signature': v['signature']}
                if ent is None:
                    vios[v['signature']] = [1, order, v['what'], payload]
                else:
                    ent[0] += 1
                    if order < ent[1]:
                        ent[1:] = [order, v['what'], payload]
            if k not in seen:
                # the deepest level is only counted: keep a few histories
                seen[k] = (
                    (idx, ai, size, hist, en)
                    if not last or len(seen) < 3 else None)
    return seen, dict(stats), vios, ntrans


def _digest(key):
    return hashlib.blake2b(repr(key).encode(), digest_size=12).digest()


def _describe(size, ops):
    return f"size={size}: " + ' ; '.join(ops)


def run(ctx: Ctx) -> Result:
    passes = ctx.pick(QUICK_PASSES, THOROUGH_PASSES)
    sizes = [1, 2]
    all_seen = set()
    stats = Counter()
    vios = {}
    transitions = 0
    per_pass = []
    samples = []
    for kinds, depth in passes:
        nt0 = transitions
        seen, per_depth = _explore(
            ctx, kinds, depth, sizes, stats, vios, samples)
        transitions += stats.pop('_transitions')
        per_pass.append({
            'command_kinds': kinds, 'depth': depth, 'states': len(seen),
            'transitions': transitions - nt0,
            'new_states_per_depth': per_depth})
        all_seen |= seen
        del seen
    seen = all_seen
    depth = max(d for _, d in passes)
    kinds = sorted({k for ks, _ in passes for k in ks}, key=list(KINDS).index)
    return _finish(ctx, passes, sizes, seen, stats, vios, transitions,
                   per_pass, samples, depth, kinds)


def _explore(ctx, kinds, depth, sizes, stats, vios, samples):
    """One breadth-first pass; updates stats/vios/samples in place."""
    seen = set()
    frontier = []
    for size in sizes:
        h = Harness(size)
        seen.add(_digest(h.key()))
        frontier.append((size, (), tuple(h.enabled(kinds))))
        h.dispose()
    transitions = 0
    per_depth = []
    for d in range(1, depth + 1):
        items = [(i, s, ops, acts) for i, (s, ops, acts) in enumerate(frontier)]
        njobs = max(1, min(len(items), ctx.workers * 4))
        jobs = [(kinds, items[i::njobs], d == depth) for i in range(njobs)]
        # small levels are not worth a process pool
        res = pmap(_expand, jobs, ctx.workers if len(items) >= 400 else 1)
        cand = []
        counted_only = set()
        for sn, st, vs, nt in res:
            transitions += nt
            ml = max(stats['max_live'], st.get('max_live', 0))
            stats.update(st)
            stats['max_live'] = ml
            for sig, (cnt, order, what, payload) in vs.items():
                ent = vios.get(sig)
                if ent is None:
                    vios[sig] = [cnt, order, what, payload]
                else:
                    ent[0] += cnt
                    if order < ent[1]:
                        ent[1:] = [order, what, payload]
            for k, ent in sn.items():
                if ent is None:
                    counted_only.add(k)
                else:
                    cand.append((ent[0], ent[1], k) + ent[2:])
        cand.sort(key=lambda c: (c[0], c[1]))
        frontier = []
        for idx, ai, k, size, hist, en in cand:
            if k in seen:
                continue
            seen.add(k)
            frontier.append((size, hist, en))
        nnew = len(frontier) + len(counted_only - seen)
        seen |= counted_only
        per_depth.append(nnew)
        if frontier:
            # sample the most varied histories of this level (first maxima)
            ranked = sorted(
                range(len(frontier)),
                key=lambda j: (-len({o[:2] for o in frontier[j][1]}), j))
            for j in ranked[:2]:
                s, hist, _ = frontier[j]
                samples.append(_describe(s, hist))
        if not nnew:
            break
    stats['_transitions'] = transitions
    return seen, per_depth


def _finish(ctx, passes, sizes, seen, stats, vios, transitions, per_pass,
            samples, depth, kinds):
    # the seams the alphabet is aimed at must all have been exercised
    need = [
        'put_refused_situation', 'process_with_expired_running',
        'process_with_expired_and_unexpired_running',
        'process_with_queued_jobs_submit_while_stopping',
        'terminate_with_queue', 'terminate_with_running', 'saturated',
        'pipe_polls',
        'stop_by_callback_during_process_with_queued_jobs_submit',
        'stop_requested_by_callback_in_proc',
        'close_requested_by_callback_in_proc',
    ]
    # outcomes expected when the property holds (only demanded then)
    need_if_clean = [
        'cb', 'cb255', 'timeout_kills', 'put_answered_at_once',
        'dropped_unstarted_in_proc', 'dropped_unstarted_in_term',
        'js_started', 'kill:term']
    missing = [n for n in need if not stats.get(n)]
    if not vios:
        missing += [n for n in need_if_clean if not stats.get(n)]
        if stats['max_live'] < 2:
            missing.append('two processes alive at once')
    if missing:
        raise HarnessError(f'seams never exercised: {missing}')

    violations = [
        Violation(
            sig,
            f'{what} [history: {_describe(p["size"], p["ops"])}'
            f'{" + completion" if p["complete"] else ""}; '
            f'{cnt} violating transition(s) in all]',
            p)
        for sig, (cnt, order, what, p) in sorted(
            vios.items(), key=lambda kv: kv[1][1])
    ]
    # carry the case counts (CLI prints len(list) per signature)
    counted = []
    for v in violations:
        n = vios[v.signature][0]
        v.payload = dict(v.payload, cases=n)
        counted.append(v)

    cov = {
        'states': len(seen),
        'transitions': transitions,
        'traces_validated_against_impl': transitions,
        'passes': per_pass,
        'depth': depth,
        'pool_sizes': sizes,
        'command_kinds': kinds,
        'alphabet': (
            [f'put {k}' for k in kinds] + [
                'process()', 'running proc 0/1 exits with its scripted code',
                'clock jump past the earliest pending time-out',
                'set_stopping()', 'close()', 'terminate()']),
        'state_key': (
            'size, closed, stopping, terminated, stop/close requested, '
            'queue (kind, callbacks), runnings (kind, return code, time to '
            'time-out, callbacks), finished-but-unjudged commands'),
        'seams_exercised': {
            k: v for k, v in sorted(stats.items())},
        'violating_transitions_by_signature': {
            s: e[0] for s, e in sorted(vios.items())},
        'samples': samples[-10:],
        'exhaustive': True,
    }
    return Result(cov, counted, assumptions=[
        'process completion is owned by FakeProc: real pipes and pipe '
        'back-pressure (_poll_proc_pipes) and real process creation '
        '(_run_command_init: stdin files, OSError on launch) are not explored',
        'pool size (1, 2) and time-out are set on the constructed pool rather '
        'than through global.cylc',
        'time is virtual: one process() call lasts 2 units, the time-out is '
        '100 units, so a time-out only passes through the explicit clock-jump '
        'action (to the earliest pending deadline + 1)',
        'a process told to die by killpg(SIGKILL) is dead at once (return '
        'code -9); a wait() on a live un-killed process (the pool would '
        'block) is reported as a harness error, not modelled',
        '"stopping" for the jobs-submit clause means set_stopping() or '
        'terminate() was called; after close() alone (documented as "not '
        'affecting existing queued commands") starting a queued jobs-submit '
        'is counted but not judged',
        'exit codes are scripted per command kind (0, 1, 255); a 255 exit is '
        'an ssh command (with and, in the thorough tier, without a 255 '
        'callback)',
        'stop requests from inside the pool (a command callback calling '
        'set_stopping() or close(), normal or 255 callback) are explored '
        'through three short command kinds; a stop request made by a '
        'callback counts as "stopping" from that instant; in the thorough '
        'tier these kinds are explored to depth 6 (second pass), the other '
        'kinds to depth 7',
        'passes (command kinds, depth): '
        + '; '.join(f'{len(k)} kinds to depth {d}' for k, d in passes)
        + '; every history is additionally '
        'closed by a canonical completion (all processes exit / time out, '
        'process() until empty) before the final "exactly one" judgement',
    ])


def replay(payload):
    h = Harness(payload['size'])
    for o in payload['ops']:
        h.apply(o)
    if payload.get('complete', True):
        h.complete()
    out = []
    done = set()
    for v in h.violations:
        if v['signature'] in done:
            continue
        done.add(v['signature'])
        out.append(Violation(
            v['signature'],
            f"{v['what']} [history: "
            f"{_describe(payload['size'], payload['ops'])}]",
            payload))
    return out
