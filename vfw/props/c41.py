"""C41 Literal task environment values reach the job unchanged.

Engine B: every value of a bounded alphabet (no ``$``, backquote, backslash
or double quote = the shell-expansion characters) is put in a task
``[environment]`` section, the job-script fragment is produced by the real
``JobFileWriter._write_runtime_environment`` and the resulting
``cylc__job__inst__user_env`` function is sourced and run by real ``bash``;
the environment seen by a child process (``env -0``) is compared with the
configured value.  A leading
``~``/``~user`` is compared with what tilde expansion means (HOME / the
user's home directory from the password database / unchanged for anything
that is not a login name).  Ordering: sections of three variables in every
configuration order where later values refer to earlier ones by ``$X``,
``${X}`` and ``$(printenv X)``.
"""
from __future__ import annotations

import io
import itertools
import os
import pwd
import re
import shutil
import subprocess
from pathlib import Path

from ..core import (
    Ctx, HarnessError, Result, Violation, chunks, pmap, scratch_root, short,
)

LEVEL = 'exploration'

BATCH = 500
MAX_KEPT = 10

ALPHA_QUICK = ['a', ' ', "'", '#', '=', '~', '/', '*', '?', 'é', '\t']
ALPHA_THOROUGH = ALPHA_QUICK + ['!', ';', '&', '|', '(']

# longer values built from tokens (real login names do not fit the length
# bound of the character enumeration)
TOKEN_VALUES = [
    '~root', '~root/', '~root/a b', "~root/it's", '~root/#x', '~bin/x',
    '~nosuchuser', '~nosuchuser/a b', '~/a b/c d', "~/it's here", '~/#',
    '~/~', '~/*', 'a ~/b', '/usr/~root', "don't", 'x=y z', '#!/bin/sh',
    'a  b', '*.txt', '???', "'quoted'", "''", "~'root'/x", '~root ~root',
    'éè ☃', 'a\tb\tc', '~root/é', '!x', 'a;b', 'a&b',
    'a|b', '(a)', 'a)', '{a,b}', '[ab]', 'a<b',
]


# =================================================================== oracle

def expected(value: str, home: str) -> str:
    """What the job must see.  Only a leading tilde-prefix that is a login
    name (or empty) means anything else than the text itself."""
    if not value.startswith('~'):
        return value
    head, sep, rest = value.partition('/')
    name = head[1:]
    if name == '':
        return home + sep + rest
    if re.fullmatch(r'[a-z_][a-z0-9_-]*', name):
        try:
            return pwd.getpwnam(name).pw_dir + sep + rest
        except KeyError:
            return value
    return value


def char_class(value):
    """Root-cause class of a mis-exported value (for signatures)."""
    if value.startswith('~'):
        head = value.partition('/')[0]
        odd = [c for c in head[1:] if not re.match(r'[\w.-]', c)]
        if odd:
            # one root cause whatever the character: a tilde-prefix that is
            # not a login name is written to the job script unquoted
            return 'tilde-prefix-left-unquoted'
        return 'tilde-form'
    for c, name in (("'", 'single-quote'), ('#', 'hash'), ('\t', 'tab'),
                    (' ', 'space'), ('*', 'glob'), ('?', 'glob'),
                    ('~', 'inner-tilde'), ('=', 'equals')):
        if c in value:
            return f'plain-value:{name}'
    if any(ord(c) > 127 for c in value):
        return 'plain-value:non-ascii'
    return 'plain-value:other'


# ============================================================ real fragment

def fragment(env_items, param_var):
    """The job-script text for this [environment] section (real writer)."""
    from cylc.flow.job_file import JobFileWriter
    handle = io.StringIO()
    job_conf = {'environment': dict(env_items), 'param_var': dict(param_var)}
    JobFileWriter._write_runtime_environment(handle, job_conf)
    return handle.getvalue()


DRIVER = r'''
# Process creation is expensive here: all sections of a batch are evaluated
# in ONE shell (each section has its own variable names), then one child
# process dumps the environment it inherited.
cd "$1" || exit 9
n=$2
i=0
: > rcfile
while [ "$i" -lt "$n" ]; do
    unset -f cylc__job__inst__user_env
    {
        . "./frag_$i"; s=$?
        if typeset -f cylc__job__inst__user_env > /dev/null; then
            cylc__job__inst__user_env; r=$?
        else
            r=97
        fi
    } 2> "err_$i" < /dev/null
    echo "$i $s $r" >> rcfile
    i=$((i + 1))
done
exec /usr/bin/env -0 > envdump
'''


def materialise(case, i):
    """[(name, value)] of a case with variable names unique to slot i."""
    if case['kind'] == 'literal':
        return [(f'V_{i}', case['value'])]
    n1, n2, n3 = (f'{n}_{i}' for n in case['names'])
    fmt = REFS[case['ref']]
    return [(n1, case['value']), (n2, (fmt % n1) + '/s'),
            (n3, 'p ' + (fmt % n2))]


def run_batch(cases, root: Path):
    """Evaluate the sections of `cases` with real bash.
    Returns ([(rc, items, env dict, stderr)], HOME used, stray files)."""
    bdir = Path(root) / f'c41-{os.getpid()}'
    shutil.rmtree(bdir, ignore_errors=True)
    home = bdir / 'home'
    work = bdir / 'w'
    home.mkdir(parents=True)
    work.mkdir()
    all_items = []
    for i, case in enumerate(cases):
        items = materialise(case, i)
        all_items.append(items)
        (work / f'frag_{i}').write_text(
            fragment(items, case['param_var']) + '\n', encoding='utf-8')
    (bdir / 'driver.sh').write_text(DRIVER)
    proc = subprocess.run(
        ['/usr/bin/env', '-i', f'HOME={home}', 'PATH=/usr/bin:/bin',
         'LC_ALL=C.UTF-8',
         'bash', '--noprofile', '--norc', str(bdir / 'driver.sh'),
         str(work), str(len(cases))],
        stdin=subprocess.DEVNULL, capture_output=True, timeout=3000)
    rcs = {}
    rcfile = work / 'rcfile'
    if rcfile.exists():
        for line in rcfile.read_text().splitlines():
            a, b, c = line.split()
            rcs[int(a)] = int(b) or int(c)
    dump = work / 'envdump'
    if proc.returncode != 0 or len(rcs) != len(cases) or not dump.exists():
        raise HarnessError(
            f'bash driver failed rc={proc.returncode} '
            f'{proc.stderr[-500:]!r} ({len(rcs)}/{len(cases)} cases)')
    envd = {}
    for ent in dump.read_bytes().split(b'\0'):
        if not ent:
            continue
        k, _, v = ent.partition(b'=')
        envd[k.decode('utf-8', 'surrogateescape')] = v.decode(
            'utf-8', 'surrogateescape')
    out = []
    for i in range(len(cases)):
        err = (work / f'err_{i}').read_bytes()[-300:].decode(
            'utf-8', 'replace')
        out.append((rcs[i], all_items[i], envd, err))
    # anything the fragments created besides our files is reported
    strays = sorted(
        p.name for p in work.iterdir()
        if not re.fullmatch(r'(frag|err)_\d+|rcfile|envdump', p.name))
    shutil.rmtree(bdir, ignore_errors=True)
    return out, str(home), strays


# ==================================================================== cases

def literal_values(ctx: Ctx):
    alpha = ALPHA_QUICK if ctx.quick else ALPHA_THOROUGH
    maxlen = 3 if ctx.quick else 4
    vals = ['']
    for n in range(1, maxlen + 1):
        vals += [''.join(t) for t in itertools.product(alpha, repeat=n)]
    seen = set(vals)
    for t in TOKEN_VALUES:
        if t not in seen:
            vals.append(t)
            seen.add(t)
    return vals


ORDER_LITS = [
    'a', 'a b', "it's", '#x', '~', '~/x y', '~root/z', 'x=y', '*', '',
    'é', 'a\tb', "~'", '~nosuchuser/q', ' ', '?', '/a/b', '~/', "''",
    'a#b',
]
REFS = {
    'dollar': '$%s', 'braces': '${%s}', 'printenv': '$(printenv %s)',
}


PRINTENV_LITS = ['a b', "it's", '~/x y']


def order_cases():
    """Sections of 3 variables, every configuration order of the names,
    the 2nd refers to the 1st and the 3rd to the 2nd."""
    out = []
    for names in itertools.permutations(('ZED', 'ALPHA', 'MID')):
        for kind in REFS:
            for lit in (PRINTENV_LITS if kind == 'printenv' else ORDER_LITS):
                out.append({'kind': 'order', 'ref': kind, 'value': lit,
                            'names': list(names), 'param_var': {}})
    return out


def judge(case, rc, items, envd, err, home):
    """-> list of (signature, what)."""
    res = []
    if case['kind'] == 'order':
        (n1, lit), (n2, _), (n3, _) = items
        e1 = expected(lit, home)
        want = {n1: e1, n2: e1 + '/s', n3: 'p ' + e1 + '/s'}
        if char_class(lit).startswith('tilde-prefix-left-unquoted'):
            return res     # that root cause is reported by the literal leg
        for n in (n1, n2, n3):
            got = envd.get(n) if rc == 0 else None
            if got != want[n]:
                which = 'first' if n == n1 else 'later'
                res.append((
                    f'order:{which}-variable-wrong:ref={case["ref"]}',
                    f'section {items!r}: job sees {n}={got!r} (rc {rc}), '
                    f'expected {want[n]!r}; stderr {short(err, 120)!r}'))
                break
        return res
    (name, value), = items
    want = expected(value, home)
    got = envd.get(name) if rc == 0 else None
    if got != want:
        sig = char_class(value)
        if case['param_var'] and sig != 'tilde-prefix-left-unquoted':
            sig += ':with-param-vars'
        res.append((
            f'literal:{sig}',
            f'{name} = {value!r}: job sees {got!r} (rc {rc}), expected '
            f'{want!r}; stderr {short(err, 160)!r}'))
    return res


def work(job):
    root, cases = job
    st = {'evals': 0, 'tilde_expanded': 0, 'nontrivial': 0, 'strays': []}
    vio = []
    for i in range(0, len(cases), BATCH):
        batch = cases[i:i + BATCH]
        results, home, strays = run_batch(batch, Path(root))
        st['strays'] += strays[:5]
        for c, (rc, items, envd, err) in zip(batch, results):
            st['evals'] += 1
            v0 = c['value']
            if expected(v0, home) != v0:
                st['tilde_expanded'] += 1
            if re.search(r'[^a]', v0):
                st['nontrivial'] += 1
            for sig, what in judge(c, rc, items, envd, err, home):
                vio.append((sig, what, c))
    return st, vio


# ====================================================================== run

def run(ctx: Ctx) -> Result:
    if not shutil.which('bash'):
        raise HarnessError('bash not found')
    root = str(ctx.scratch)
    import cylc.flow.job_file  # noqa: F401 (import once, before forking)
    vals = literal_values(ctx)
    cases = [{'kind': 'literal', 'value': v, 'param_var': {}} for v in vals]
    # same values with parameter variables present (interpolation must leave
    # '%'-free values alone): all values of length <= 2 and the tokens
    small = [v for v in vals if len(v) <= 2 or v in TOKEN_VALUES]
    cases += [{'kind': 'literal', 'value': v,
               'param_var': {'i': 3, 'item': 'x y'}} for v in small]
    ocases = order_cases()
    cases += ocases
    nchunks = max(1, ctx.workers * 2)
    res = pmap(work, [(root, c) for c in chunks(cases, nchunks)], ctx.workers)
    evals = tilde = nontriv = 0
    strays = []
    vio = {}
    vio_n = {}
    for st, v in res:
        evals += st['evals']
        tilde += st['tilde_expanded']
        nontriv += st['nontrivial']
        strays += st['strays']
        for sig, what, c in v:
            vio_n[sig] = vio_n.get(sig, 0) + 1
            if len(vio.setdefault(sig, [])) < MAX_KEPT:
                vio[sig].append((what, c))
    if evals != len(cases) or tilde < 5 or nontriv < 100:
        raise HarnessError(
            f'vacuous: evals={evals}/{len(cases)} tilde={tilde} '
            f'nontrivial={nontriv}')
    try:
        pwd.getpwnam('root')
    except KeyError:
        raise HarnessError('no "root" login: ~user cases would be vacuous')
    vios = []
    for sig in sorted(vio):
        for what, c in vio[sig]:
            vios.append(Violation(
                sig, f'{what} [{vio_n[sig]} case(s) in total]',
                dict(c)))
    alpha = ALPHA_QUICK if ctx.quick else ALPHA_THOROUGH
    cov = {
        'evaluations': evals,
        'distinct_nontrivial': nontriv,
        'rule': (
            'one evaluation = one [environment] section rendered by the real '
            '_write_runtime_environment, sourced and run by bash in its own '
            'section slot (no errexit/nounset), environment read from a child '
            'process of that shell; non-trivial = the (first) value contains a character '
            'other than a plain letter'),
        'alphabet': alpha,
        'max_length': 3 if ctx.quick else 4,
        'literal_values': len(vals),
        'token_values': len(TOKEN_VALUES),
        'values_repeated_with_param_vars': len(small),
        'ordering_sections': len(ocases),
        'values_with_tilde_expansion_expected': tilde,
        'files_created_by_fragments': sorted(set(strays))[:10],
        'violating_cases_by_signature': vio_n,
        'samples': [
            {'value': v, 'fragment': fragment([('V', v)], {})}
            for v in ('a b', "it's", '~/a b', '#x', '~root')],
        'exhaustive': True,
    }
    return Result(cov, vios, assumptions=[
        'shell-expansion characters ($, backquote, backslash, double quote) '
        'are excluded from literal values by the statement; ":" is excluded '
        'because bash also expands tildes after a colon in assignments and '
        'the intended reading of "~a:~b" is ambiguous',
        'a leading "~" or "~login" (up to the first "/") is expected to be '
        'tilde-expanded as cylc documents; a tilde-prefix that is not a '
        'login name (quotes, spaces, operators, unknown user) is expected '
        'to stay literal',
        'values are given to the job-file writer as they are after parsing '
        '(the flow.cylc parser strips outer quotes/whitespace itself; that '
        'layer is not exercised here)',
        'with parameter variables present only "%"-free values are judged',
        'the fragment is run on its own, not inside a full job script, and '
        'without errexit/nounset (process creation is very slow on this '
        'host, so the sections of a batch share one shell, each with its '
        'own variable names; a section that would abort a real job under '
        'set -eu shows up here as a wrong or missing value instead)',
    ])


# =================================================================== replay

def replay(payload):
    results, home, _ = run_batch([payload], scratch_root())
    rc, items, envd, err = results[0]
    return [Violation(sig, what, payload)
            for sig, what in judge(payload, rc, items, envd, err, home)]
