"""C23 Universal identifiers round-trip.

Engine B.  Two exhaustive enumerations, each decided by the real
tokenise / detokenise / Tokens / legacy_tokenise / upgrade_legacy_ids (and
the command-line ID parser for the legacy forms):

1. every *structure* of a universal identifier (which of user, workflow
   [flat or hierarchical], cycle, task, job and their selectors are present -
   all gap-free combinations the grammar allows) x every pair of fields that
   are adjacent in the string, both ranging over the whole value pool while
   the other fields keep distinct default letters (so a swap or a shifted
   boundary is visible) - plus the diagonal (all fields the same value);
2. every legacy identifier task.cycle[:sel] and cycle/task[:sel] over a pool
   of digit-led cycles x the value pool for tasks x selectors.

The reference is a renderer written from the documented grammar
``~user/workflow:sel//cycle:sel/task:sel/job:sel`` (no code from id.py).
"""
from __future__ import annotations

import itertools

from ..core import Ctx, HarnessError, Result, Violation, chunks, pmap

LEVEL = 'exploration'

# characters the field regexes admit next to a separator
GEN = ['a', '1', '.', '-', '_', '+', '@', '%', '=', '*', 'é']
JOBS = ['1', '01', '9', '0', '10', '100', '001', 'NN']
FIELDS = ['user', 'wf1', 'wf2', 'workflow_sel', 'cycle', 'cycle_sel',
          'task', 'task_sel', 'job', 'job_sel']
DEFAULT = {'user': 'u', 'wf1': 'w', 'wf2': 'v', 'workflow_sel': 's',
           'cycle': 'c', 'cycle_sel': 'p', 'task': 't', 'task_sel': 'q',
           'job': '02', 'job_sel': 'r'}
TOKEN_KEYS = ['user', 'workflow', 'workflow_sel', 'cycle', 'cycle_sel',
              'task', 'task_sel', 'job', 'job_sel']


def pool(ctx_quick):
    """Values for one field (never containing the field delimiters
    '/', ':', '~', newline, nor leading/trailing blanks)."""
    if ctx_quick:
        out = list(GEN)
        for x in ['1', '.', '-', '_', '%', '*']:
            out += ['a' + x, x + 'a']
        out += ['a b', 'NN', '01']
        return out
    out = list(GEN)
    out += [a + b for a in GEN[:9] for b in GEN[:9]]
    out += ['a b', 'a  b', '1 1', 'NN', '01', 'abc', 'é*', '*é']
    return out


# ---------------------------------------------------------------- reference

def pad_job(job):
    """Job numbers are zero-padded to two digits; NN is symbolic."""
    if job is None or job == 'NN':
        return job
    return '%02d' % int(job)


def to_tokens(fields):
    """{field: value} (FIELDS keys) -> {token: value} with padded job."""
    t = {}
    if 'user' in fields:
        t['user'] = fields['user']
    if 'wf1' in fields:
        t['workflow'] = fields['wf1'] + (
            '/' + fields['wf2'] if 'wf2' in fields else '')
    for k in ('workflow_sel', 'cycle', 'cycle_sel', 'task', 'task_sel',
              'job_sel'):
        if k in fields:
            t[k] = fields[k]
    if 'job' in fields:
        t['job'] = fields['job']
    return t


def padded(t):
    t = dict(t)
    if 'job' in t:
        t['job'] = pad_job(t['job'])
    return t


def ref_render(t, selectors=True, relative=False):
    """The documented canonical string of a (padded) token dict."""
    def item(key):
        v = t[key]
        if selectors and t.get(key + '_sel'):
            v += ':' + t[key + '_sel']
        return v
    head = ''
    if t.get('user'):
        head = '~' + t['user']
    if t.get('workflow'):
        head = (head + '/' if head else '') + item('workflow')
    rel = '/'.join(item(k) for k in ('cycle', 'task', 'job') if t.get(k))
    if head and rel:
        return head + '//' + rel
    if head:
        return head
    return rel if relative else '//' + rel


def norm(tokens):
    """A Tokens object / dict as {key: value} without empty entries."""
    return {k: tokens.get(k) for k in TOKEN_KEYS if tokens.get(k)}


def strip_sel(t):
    return {k: v for k, v in t.items() if not k.endswith('_sel')}


def rel_part(t):
    return {k: v for k, v in t.items()
            if k.split('_')[0] in ('cycle', 'task', 'job')}


# ------------------------------------------------------------- enumeration

def structures():
    """All gap-free field sets the grammar allows (as ordered field lists)."""
    out = []
    for user, wf, depth in itertools.product(
            (False, True), (0, 1, 2), (0, 1, 2, 3)):
        if not (user or wf or depth):
            continue
        if user and not wf and depth:
            continue   # ~user//cycle is not in the grammar
        levels = ['cycle', 'task', 'job'][:depth]
        selectable = (['workflow'] if wf else []) + levels
        for sels in itertools.product((False, True), repeat=len(selectable)):
            chosen = {k for k, s in zip(selectable, sels) if s}
            fl = []
            if user:
                fl.append('user')
            if wf:
                fl.append('wf1')
                if wf == 2:
                    fl.append('wf2')
                if 'workflow' in chosen:
                    fl.append('workflow_sel')
            for lv in levels:
                fl.append(lv)
                if lv in chosen:
                    fl.append(lv + '_sel')
            out.append(fl)
    return out


def values_for(field, values):
    return JOBS if field == 'job' else values


def cases_of(struct, values):
    """All field assignments of one structure in the declared space."""
    base = {f: DEFAULT[f] for f in struct}
    if len(struct) == 1:
        for v in values_for(struct[0], values):
            yield {struct[0]: v}
        return
    for a, b in zip(struct, struct[1:]):
        for va in values_for(a, values):
            for vb in values_for(b, values):
                d = dict(base)
                d[a] = va
                d[b] = vb
                yield d
    # the diagonal: every field the same value (distinct from the pairs
    # only when more than two non-job fields exist)
    if len([f for f in struct if f != 'job']) <= 2:
        return
    for v in values:
        d = {f: (v if f != 'job' else DEFAULT['job']) for f in struct}
        yield d


# ------------------------------------------------------------------ checks

def char_category(values, ladder=('non-ascii', 'space', 'punctuation')):
    """Coarsest description of the unusual characters in *values*."""
    cats = set()
    for v in values:
        for c in v or '':
            if ord(c) > 127:
                cats.add('non-ascii')
            elif c == ' ':
                cats.add('space')
            elif c.isdigit():
                cats.add('digit')
            elif c.isalpha():
                cats.add('letter')
            else:
                cats.add('punctuation')
    for c in ladder:
        if c in cats:
            return c
    return 'alphanumeric'


def judge_tokens(fields):
    """First failing clause of one token set, with its root-cause class:
    clause : tokens that differ : the varied field(s) whose value is needed
    for the failure : the kind of character involved."""
    raw = check_tokens(fields)
    if not raw:
        return []
    b = raw[0]
    varied = [f for f in FIELDS
              if f in fields and fields[f] != DEFAULT[f]]
    needed = []
    for f in varied:
        calm = dict(fields)
        calm[f] = DEFAULT[f]
        if b['clause'] not in [x['clause'] for x in check_tokens(calm)]:
            needed.append(f)
    if not needed:
        # fails whatever the values: a property of the structure
        b['cls'] = f"{b['clause']}:{b['differing']}:any-value"
        return [b]
    cat = char_category([fields[f] for f in needed if f != 'job'])
    if needed == ['job']:
        cat = 'job=' + fields['job']
    b['cls'] = f"{b['clause']}:{b['differing']}:{'+'.join(needed)}:{cat}"
    return [b]


def check_tokens(fields):
    """Run every clause on one valid token set; return violation dicts."""
    from cylc.flow.id import Tokens, detokenise, tokenise
    t_in = to_tokens(fields)
    t = padded(t_in)
    s = ref_render(t, True)
    bad = []

    def rec(clause, got, want, differing=None):
        if differing is None and isinstance(got, dict) and isinstance(
                want, dict):
            differing = sorted(
                k for k in TOKEN_KEYS if got.get(k) != want.get(k))
        if isinstance(got, str) and got.startswith('EXC'):
            differing = ['rejected']
        bad.append({
            'kind': 'tokens', 'fields': fields, 'clause': clause,
            'got': got, 'want': want,
            'differing': ','.join(differing or ['string'])})

    def attempt(fn, *a, **k):
        try:
            return fn(*a, **k)
        except Exception as exc:   # any exception is an outcome to judge
            return f'EXC {type(exc).__name__}: {exc}'

    # clause 1: format then re-parse gives the same tokens (job padded)
    obj = attempt(lambda: Tokens(**t_in))
    if isinstance(obj, str):
        rec('construct', obj, t)
        return bad
    out = attempt(detokenise, obj, selectors=True)
    if out != s:
        rec('format-with-selectors', out, s, [])
    if isinstance(out, str) and not out.startswith('EXC'):
        back = attempt(tokenise, out)
        back = back if isinstance(back, str) else norm(back)
        if back != t:
            rec('format-then-parse', back, t)
    # without selectors
    s0 = ref_render(strip_sel(t), False)
    out0 = attempt(detokenise, obj)
    if out0 != s0:
        rec('format-without-selectors', out0, s0, [])

    # clause 2: parse a canonical string, then format: same string
    for canon, sel, want_t in ((s, True, t), (s0, False, strip_sel(t))):
        parsed = attempt(tokenise, canon)
        if isinstance(parsed, str):
            rec('parse-canonical', parsed, want_t)
            continue
        if norm(parsed) != want_t:
            rec('parse-canonical', norm(parsed), want_t)
        again = attempt(detokenise, parsed, selectors=sel)
        if again != canon:
            rec('parse-then-format', again, canon, [])
        # Tokens equality / hash / duplicate are consistent
        ref_obj = Tokens(**want_t)
        if norm(parsed) == want_t:
            if not (parsed == ref_obj) or (parsed != ref_obj):
                rec('tokens-eq', 'unequal', 'equal', [])
            elif hash(parsed) != hash(ref_obj):
                rec('tokens-hash', 'differs', 'same', [])
            dup = parsed.duplicate()
            if not (dup == parsed) or norm(dup) != want_t:
                rec('tokens-duplicate', norm(dup), want_t)

    # clause 3: relative and absolute forms agree on the task part
    rel = rel_part(t)
    if rel:
        relstr = ref_render(rel, True, relative=True)
        abs_p = attempt(tokenise, s)
        for label, p in (
            ('relative-slashes', attempt(tokenise, '//' + relstr)),
            ('relative-flag', attempt(tokenise, relstr, relative=True)),
            ('absolute-task-part', abs_p if isinstance(abs_p, str)
             else attempt(lambda: abs_p.task)),
        ):
            got = p if isinstance(p, str) else norm(p)
            if got != rel:
                rec(label, got, rel)
        if not isinstance(abs_p, str):
            rid = attempt(lambda: abs_p.relative_id)
            want = ref_render(strip_sel(rel), False, relative=True)
            if rid != want:
                rec('relative_id', rid, want, [])
            rid = attempt(lambda: abs_p.relative_id_with_selectors)
            if rid != relstr:
                rec('relative_id_with_selectors', rid, relstr, [])
    if 'wf1' in fields:
        abs_p = attempt(tokenise, s)
        if not isinstance(abs_p, str):
            want = ref_render(
                {k: v for k, v in t.items()
                 if k in ('user', 'workflow')}, False)
            wid = attempt(lambda: abs_p.workflow_id)
            if wid != want:
                rec('workflow_id', wid, want, [])
    return bad


def legacy_cases(quick):
    first = ['1', '2', '0']
    rest = ['1', '0', 'T', 'Z', '-', '+', '_', 'a']
    cycles = list(first)
    cycles += [f + r for f in first for r in rest]
    if not quick:
        cycles += [f + r + r2 for f in first for r in rest for r2 in rest]
    cycles += ['20000101T0000Z', '2000-01-01T00+01']
    tasks = pool(quick) + ['a.b', 'a.1', '1.a', 'a.1.b', 'a..b']
    sels = [None, 's', '1', 'a.b'] + ([] if quick else ['a-b', '*'])
    for c, t, sel, form in itertools.product(
            cycles, tasks, sels, ('task.cycle', 'cycle/task')):
        yield {'cycle': c, 'task': t, 'sel': sel, 'form': form}


def legacy_text(case):
    s = (f"{case['task']}.{case['cycle']}" if case['form'] == 'task.cycle'
         else f"{case['cycle']}/{case['task']}")
    return s + (':' + case['sel'] if case['sel'] else '')


PLAIN = {'cycle': '10', 'task': 't', 'sel': None}


def legacy_trait(case, stage):
    """The parts of a legacy identifier whose value is needed for it to
    fail at *stage* (each tried with a plain replacement), described
    coarsely."""
    needed = []
    for part in ('cycle', 'task', 'sel'):
        if case[part] == PLAIN[part]:
            continue
        calm = {**case, part: PLAIN[part]}
        if stage not in [x['stage'] for x in check_legacy(calm)]:
            needed.append(part)
    out = []
    for part in needed or [p for p in PLAIN if case[p] != PLAIN[p]]:
        v = case[part]
        if part == 'cycle' and len(v) == 1:
            out.append('single-character-cycle')
        elif part == 'cycle':
            out.append('cycle-with-' + char_category(
                [v], ('non-ascii', 'space', 'punctuation', 'letter')))
        elif part == 'task':
            out.append('task-with-' + char_category([v]))
        else:
            out.append('selector')
    return '+'.join(out) or 'any'


def judge_legacy(case, partner=None):
    """First failure of one legacy identifier (or list) with its class."""
    raw = check_legacy(case, partner)
    if not raw:
        return []
    b = raw[0]
    culprit = b.pop('culprit')
    b['cls'] = (f"legacy-{culprit['form']}:{b['stage']}:"
                f"{legacy_trait(culprit, b['stage'])}")
    return [b]


def legacy_want(case):
    want = {'cycle': case['cycle'], 'task': case['task']}
    if case['sel']:
        want['task_sel'] = case['sel']
    return want


def check_legacy(case, partner=None):
    """Clause 4 on one legacy identifier (or a list of two); return
    violation dicts.  The class names the root cause: the identifier is not
    recognised as legacy at all / recognised with wrong tokens / recognised
    but wrongly upgraded."""
    from cylc.flow.id import (
        legacy_tokenise, tokenise, upgrade_legacy_ids)
    from cylc.flow.id_cli import _parse_cli
    bad = []

    def attempt(fn, *a, **k):
        try:
            return fn(*a, **k)
        except Exception as exc:
            return f'EXC {type(exc).__name__}: {exc}'

    def rec(culprit, stage, step, got, wanted):
        bad.append({
            'kind': 'legacy', 'case': case, 'partner': partner,
            'step': step, 'got': got, 'want': wanted,
            'text': legacy_text(case), 'stage': stage,
            'culprit': culprit})

    def recognition(c):
        """None if legacy_tokenise gives the right tokens, else
        (stage, got)."""
        got = attempt(legacy_tokenise, legacy_text(c))
        if isinstance(got, str):
            return 'not-recognised', got
        if norm(got) != legacy_want(c):
            return 'wrong-tokens', norm(got)
        return None

    text = legacy_text(case)
    want = legacy_want(case)
    new = ref_render(want, True, relative=True)

    if partner is not None:
        # two legacy identifiers on one command line
        ptext = legacy_text(partner)
        pnew = ref_render(legacy_want(partner), True, relative=True)
        got = attempt(upgrade_legacy_ids, 'w', ptext, text)
        if got != ['w', '//' + pnew, '//' + new]:
            culprit, stage = case, 'list-upgrade'
            for c in (partner, case):
                r = recognition(c)
                if r:
                    culprit, stage = c, r[0]
                    break
            rec(culprit, stage, 'upgrade_legacy_ids(list)', got,
                ['w', '//' + pnew, '//' + new])
        return bad

    r = recognition(case)
    stage = r[0] if r else None
    if r:
        rec(case, stage, 'legacy_tokenise', r[1], want)
    got = attempt(upgrade_legacy_ids, 'w', text)
    if got != ['w', '//' + new]:
        rec(case, stage or 'upgrade', 'upgrade_legacy_ids', got,
            ['w', '//' + new])
    else:
        p = attempt(tokenise, got[1])
        p = p if isinstance(p, str) else norm(p)
        if p != want:
            rec(case, stage or 'upgraded-id-parses-differently',
                'tokenise(upgraded)', p, want)
    got = attempt(upgrade_legacy_ids, text, relative=True)
    if got != [new]:
        # (harmless when the text is unchanged and parses the same way)
        same = False
        if got == [text]:
            p = attempt(tokenise, text, relative=True)
            same = not isinstance(p, str) and norm(p) == want
        if not same:
            rec(case, stage or 'upgrade-relative',
                'upgrade_legacy_ids(relative)', got, [new])
    got = attempt(_parse_cli, 'w', text)
    got = got if isinstance(got, str) else [norm(x) for x in got]
    if got != [{'workflow': 'w', **want}]:
        rec(case, stage or 'command-line-parse', '_parse_cli', got,
            [{'workflow': 'w', **want}])
    return bad


# ----------------------------------------------------------------- workers

PER_SIG = 4


def keep(bad, new):
    for b in new:
        slot = bad.setdefault(b['cls'], [0, []])
        slot[0] += 1
        if len(slot[1]) < PER_SIG:
            slot[1].append(b)


def _quiet():
    import logging
    logging.disable(logging.CRITICAL)


def _work_tokens(job):
    _quiet()
    structs, quick = job
    values = pool(quick)
    n = {'evaluations': 0, 'nontrivial': 0, 'padded_jobs': 0,
         'with_selectors': 0, 'hierarchical': 0, 'relative_only': 0}
    bad = {}
    for st in structs:
        for fields in cases_of(st, values):
            n['evaluations'] += 1
            if any(not c.isalnum() for f, v in fields.items()
                   if v != DEFAULT[f] for c in v):
                n['nontrivial'] += 1
            if 'job' in fields and pad_job(fields['job']) != fields['job']:
                n['padded_jobs'] += 1
            n['with_selectors'] += any(f.endswith('_sel') for f in fields)
            n['hierarchical'] += 'wf2' in fields
            n['relative_only'] += 'wf1' not in fields and 'user' not in fields
            keep(bad, judge_tokens(fields))
    return n, bad


def _work_legacy(job):
    _quiet()
    cases = job
    n = {'evaluations': 0, 'single_char_cycles': 0, 'dotted_tasks': 0,
         'with_selector': 0}
    bad = {}
    for case in cases:
        n['evaluations'] += 1
        n['single_char_cycles'] += len(case['cycle']) == 1
        n['dotted_tasks'] += '.' in case['task']
        n['with_selector'] += case['sel'] is not None
        keep(bad, judge_legacy(case))
    return n, bad


def legacy_pairs():
    """Two legacy identifiers in one list (both forms, short and long
    cycles)."""
    singles = [
        {'cycle': c, 'task': t, 'sel': None, 'form': f}
        for c in ('1', '10', '20000101T0000Z')
        for t in ('a', 'a.b')
        for f in ('task.cycle', 'cycle/task')]
    return [(a, b) for a in singles for b in singles]


def run(ctx: Ctx) -> Result:
    quick = ctx.quick
    structs = structures()
    res = pmap(_work_tokens,
               [(c, quick) for c in chunks(structs, ctx.workers * 4)],
               ctx.workers)
    tot = {}
    bad = {}

    def fold(n, b, into):
        for k, v in n.items():
            into[k] = into.get(k, 0) + v
        for sig, (cnt, ex) in b.items():
            slot = bad.setdefault(sig, [0, []])
            slot[0] += cnt
            slot[1].extend(ex[:max(0, PER_SIG - len(slot[1]))])
    for n, b in res:
        fold(n, b, tot)
    cases = list(legacy_cases(quick))
    leg = {}
    for n, b in pmap(_work_legacy, chunks(cases, ctx.workers * 4),
                     ctx.workers):
        fold(n, b, leg)
    _quiet()
    pairs = legacy_pairs()
    pb = {}
    for a, b in pairs:
        keep(pb, judge_legacy(b, partner=a))
    fold({'pairs': len(pairs)}, pb, leg)

    for what, count in {
        'token sets': tot['evaluations'],
        'padded jobs': tot['padded_jobs'],
        'selectors': tot['with_selectors'],
        'hierarchical workflows': tot['hierarchical'],
        'relative-only identifiers': tot['relative_only'],
        'legacy single-character cycles': leg['single_char_cycles'],
        'legacy dotted task names': leg['dotted_tasks'],
    }.items():
        if not count:
            raise HarnessError(f'seam never exercised: {what}')

    vios = []
    for sig in sorted(bad):
        for b in bad[sig][1]:
            vios.append(Violation(b['cls'], describe(b), b))
    ex = {'user': 'u', 'wf1': 'a.', 'wf2': '-a', 'cycle': 'c',
          'task': 't', 'job': '1', 'job_sel': 'r'}
    cov = {
        'evaluations': tot['evaluations'] + leg['evaluations'] + len(pairs),
        'distinct_nontrivial': tot['nontrivial'] + leg['evaluations'],
        'rule': (
            'one evaluation = one token set (all clauses: format, re-parse, '
            'parse-canonical, re-format, eq/hash/duplicate, relative vs '
            'absolute) or one legacy identifier (legacy_tokenise, '
            'upgrade_legacy_ids absolute and relative, command-line parse);'
            ' all enumerated token sets are distinct; non-trivial = a varied'
            ' field holds a non-alphanumeric character, or a legacy '
            'identifier'),
        'structures': len(structs),
        'value_pool_size': len(pool(quick)),
        'job_values': JOBS,
        'token_sets': tot,
        'legacy': leg,
        'mismatches_by_class': {s: c for s, (c, _) in sorted(bad.items())},
        'samples': [
            {'tokens': padded(to_tokens(ex)),
             'canonical': ref_render(padded(to_tokens(ex)), True)},
            {'tokens': {'cycle': '1', 'task': 'a%', 'task_sel': '*a'},
             'canonical': ref_render(
                 {'cycle': '1', 'task': 'a%', 'task_sel': '*a'}, True)},
            {'legacy': 'a.b.10:s', 'upgraded': '//10/a.b:s'},
            {'legacy': '1/a', 'upgraded': '//1/a'},
        ],
        'exhaustive': True,
    }
    return Result(cov, vios, assumptions=[
        'valid tokens = gap-free combinations (task needs cycle, job needs '
        'task, a selector needs its token, cycle needs a workflow unless '
        'the identifier is relative); ~user//cycle is not in the grammar',
        'field values exclude the delimiters "/", ":", "~", newline and '
        'leading/trailing blanks (a ":" inside a cycle is a selector '
        'separator); the workflow may have two "/"-separated segments',
        'job values are decimal numbers or NN; the canonical form pads to '
        'two digits',
        'declared space: per structure, every pair of string-adjacent '
        'fields over the whole pool with the other fields at distinct '
        'default letters, plus the all-fields-equal diagonal (not the full '
        'product of all fields)',
        'legacy cycles start with a digit and contain no ".", tasks may '
        'contain "."; lists mixing legacy and new-style identifiers are '
        'out of scope; the ISO8601 "cycle:selector" merge of cli_tokenise '
        'is out of scope (legacy forms have no cycle selector)',
    ])


def describe(b):
    if b['kind'] == 'legacy':
        extra = ''
        if b.get('partner'):
            extra = f" (after {legacy_text(b['partner'])!r})"
        return (f"legacy identifier {b['text']!r}{extra}: {b['step']} gives "
                f"{b['got']!r}, expected {b['want']!r}")
    t = padded(to_tokens(b['fields']))
    return (f"tokens {t} (canonical {ref_render(t, True)!r}): "
            f"{b['clause']} gives {b['got']!r}, expected {b['want']!r}")


def replay(payload):
    _quiet()
    if payload['kind'] == 'legacy':
        bad = judge_legacy(payload['case'], payload.get('partner'))
    else:
        bad = judge_tokens(payload['fields'])
    return [Violation(b['cls'], describe(b), b) for b in bad
            if b['cls'] == payload['cls']]
