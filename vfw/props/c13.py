"""C13 Prerequisite satisfaction equals the trigger expression's truth.

Engine B.  Trigger expressions (1-4 atoms drawn from pools of colliding atoms,
8 + 7 + 2 shapes; pool prefixes shrink with the number of atoms) are built as the real
``TaskTrigger`` / ``Dependency`` objects, turned into real ``Prerequisite``
objects by ``Dependency.get_prerequisite`` and evaluated:

* for every registration order of the triggers (the order in which
  ``set_conditional_expr`` rewrites the atoms), every satisfaction subset in
  one ``satisfy_me`` call on a fresh prerequisite;
* for the natural order, every *sequence* of single ``satisfy_me`` calls on
  one object, ``is_satisfied()`` after each step (the cache);
* a second leg loads real ``WorkflowConfig`` objects (integer, and datetime
  with a time zone) so that the expression passes through the graph parser,
  ``listify`` and ``generate_triggers`` with custom output messages.

The oracle evaluates the expression AST in Python (``&`` binds tighter than
``|``) over "satisfied or before the initial cycle point".
"""
from __future__ import annotations

import itertools
import re

from ..core import Ctx, HarnessError, Result, Violation, chunks, pmap

LEVEL = 'exploration'

# ---------------------------------------------------------------- contexts
# (cycling, time zone, dump format, expanded year digits, ICP, eval points)
CONTEXTS = {
    'int1': dict(cyc='integer', icp='1', points=['1', '2', '11']),
    'int-5': dict(cyc='integer', icp='-5', points=['-4', '1', '2']),
    'utc': dict(cyc='iso8601', tz='Z', fmt=None, icp='20000101T0000Z',
                points=['20000101T0000Z', '20000102T0000Z']),
    'tz+0530': dict(cyc='iso8601', tz='+0530', fmt=None,
                    icp='20000101T0000+0530',
                    points=['20000101T0000+0530', '20000102T0000+0530']),
    'tz-colon': dict(cyc='iso8601', tz='+05:30',
                     fmt='CCYY-MM-DDThh:mm+hh:mm',
                     icp='2000-01-01T00:00+05:30',
                     points=['2000-01-01T00:00+05:30',
                             '2000-01-02T00:00+05:30']),
    'tz-neg': dict(cyc='iso8601', tz='-0330', fmt=None,
                   icp='20000101T0000-0330',
                   points=['20000101T0000-0330', '20000102T0000-0330']),
    'expanded': dict(cyc='iso8601', tz='Z', fmt=None, xyd=2,
                     icp='+0020000101T0000Z',
                     points=['+0020000101T0000Z', '+0020000102T0000Z']),
}


_CURRENT = [None]


def set_context(c):
    import cylc.flow.cycling.iso8601 as iso
    import cylc.flow.cycling.loader as loader
    if _CURRENT[0] is c:
        return
    _CURRENT[0] = c
    loader.DefaultCycler.TYPE = c['cyc']
    if c['cyc'] == 'iso8601':
        iso.WorkflowSpecifics = iso.init(
            num_expanded_year_digits=c.get('xyd', 0),
            custom_dump_format=c.get('fmt'), time_zone=c['tz'])


# --------------------------------------------------------------- the themes
# atom = [task name, offset or None, output (label or message)]

def themes(ctx: Ctx):
    t = {}
    t['names'] = ('int1', [[n, None, 'succeeded'] for n in (
        'foo', 'foo1', '1foo', 'a-foo', 'foo_bar', 'foo+', 'foo%', 'xfoo')])
    t['outputs'] = ('int1', [['foo', None, o] for o in (
        'out', 'out-2', 'out_2', 'out2', 'succeeded', 'x', 'x y', 'out-')])
    t['messages'] = ('int1', [['foo', None, o] for o in (
        'file ready', 'file ready 2', 'file', 'done.', 'a+b', 'file-ready',
        'ready')])
    t['offsets'] = ('int1', [['foo', o, 'succeeded'] for o in (
        None, '-P1', '-P2', '-P10', '+P1', '+P10', '-P12')])
    t['offsets-neg-icp'] = ('int-5', [['foo', o, 'succeeded'] for o in (
        None, '-P1', '-P2', '-P3', '+P1', '-P5', '-P6')])
    t['mixed'] = ('int1', [
        ['foo', None, 'out'], ['foo', None, 'out-2'], ['a-foo', None, 'out'],
        ['foo', '-P2', 'out'], ['foo1', None, 'out-2'],
        ['foo', '-P2', 'out-2'], ['1foo', '-P10', 'out']])
    for name in ('utc', 'tz+0530', 'tz-colon', 'tz-neg', 'expanded'):
        t['datetime-' + name] = (name, [
            ['foo', None, 'succeeded'], ['foo', '-PT6H', 'succeeded'],
            ['foo', '-P1D', 'succeeded'], ['bar', '+PT6H', 'out-2'],
            ['bar', '+PT6H', 'out'], ['foo', '-P2D', 'succeeded']])
    return t


# expression shapes: nested lists of atom indices and operators, exactly the
# structure listify() produces (flat lists mix operators; Python precedence)
SHAPES = {
    1: [[0]],
    2: [[0, '&', 1], [0, '|', 1]],
    3: [[0, '|', 1, '|', 2], [0, '&', [1, '|', 2]], [0, '|', [1, '&', 2]],
        [[0, '&', 1], '|', 2], [[0, '|', 1], '&', 2], [0, '&', 1, '|', 2],
        [0, '|', 1, '&', 2]],
    4: [[[0, '|', 1], '&', [2, '|', 3]], [[0, '&', 1], '|', [2, '&', 3]],
        [0, '|', 1, '|', 2, '|', 3], [0, '&', [1, '|', 2, '|', 3]],
        [0, '|', [1, '&', 2, '&', 3]], [0, '&', 1, '|', 2, '&', 3],
        [0, '|', 1, '&', 2, '|', 3], [0, '|', [1, '&', [2, '|', 3]]]],
}


def ref_eval(shape, truth):
    """Evaluate the nested list: '&' before '|' within one (flat) level."""
    def val(x):
        return ref_eval(x, truth) if isinstance(x, list) else truth[x]
    # split the flat level on '|', each part is an '&' chain
    parts, cur = [], []
    for item in shape:
        if item == '|':
            parts.append(cur)
            cur = []
        elif item != '&':
            cur.append(item)
    parts.append(cur)
    return any(all(val(x) for x in part) for part in parts)


def show(shape, atoms):
    out = []
    for item in shape:
        if isinstance(item, list):
            out.append('(' + show(item, atoms) + ')')
        elif isinstance(item, str):
            out.append(f' {item} ')
        else:
            n, off, o = atoms[item]
            out.append(f"{n}{'[' + off + ']' if off else ''}:{o!r}")
    return ''.join(out)


# ------------------------------------------------------------ real objects

def build(case, order):
    """-> (Dependency, [key per atom], [pre-initial per atom], tdef, point)"""
    from types import SimpleNamespace
    from cylc.flow.cycling.loader import get_point, get_point_relative
    from cylc.flow.task_trigger import Dependency, TaskTrigger
    c = CONTEXTS[case['ctx']]
    icp = get_point(c['icp']).standardise()
    point = get_point(case['point']).standardise()
    tdef = SimpleNamespace(initial_point=icp, start_point=icp,
                           max_future_prereq_offset=None)
    trigs, keys, pre = [], [], []
    for name, off, out in case['atoms']:
        trigs.append(TaskTrigger(name, off, out, False, False, False, icp))
        p = point if off is None else get_point_relative(off, point)
        keys.append((str(p), name, out))
        pre.append(bool(p < icp))

    def conv(shape):
        return [conv(x) if isinstance(x, list)
                else x if isinstance(x, str) else trigs[x] for x in shape]
    dep = Dependency(conv(case['shape']), [trigs[i] for i in order], False)
    return dep, keys, pre, tdef, point


def check_case(case, orders='all', sequences=True):
    """-> list of (symptom, detail) (first failure per mode only)."""
    from cylc.flow.id import Tokens
    set_context(CONTEXTS[case['ctx']])
    k = len(case['atoms'])
    bad = []
    evals = 0
    perms = list(itertools.permutations(range(k))) if orders == 'all' \
        else [tuple(orders)]
    dep, keys, pre, tdef, point = build(case, perms[0])
    if len(set(keys)) != k:
        return None, 0    # two atoms denote the same output: not a case
    free = [i for i in range(k) if not pre[i]]

    def truth(sat):
        return [pre[i] or i in sat for i in range(k)]

    def toks(idx):
        return [Tokens(cycle=keys[i][0], task=keys[i][1],
                       task_sel=keys[i][2]) for i in idx]

    def observe(p):
        try:
            return p.is_satisfied()
        except Exception as exc:   # noqa
            return f'EXC {type(exc).__name__}'
    for order in perms:
        dep = build(case, order)[0]
        done = False
        for r in range(len(free) + 1):
            for sat in itertools.combinations(free, r):
                p = dep.get_prerequisite(point, tdef)
                if sat:
                    p.satisfy_me(toks(sat))
                got = observe(p)
                evals += 1
                want = ref_eval(case['shape'], truth(set(sat)))
                if isinstance(got, str) or bool(got) != want:
                    bad.append((
                        'eval-error:' + got[4:] if isinstance(got, str)
                        else 'wrong-truth',
                        f'registration order {list(order)}, satisfied '
                        f'{[keys[i] for i in sat]}: is_satisfied() = '
                        f'{got!r}, expression is {want} '
                        f'(conditional_expression = '
                        f'{p.conditional_expression!r})',
                        {'order': list(order), 'sat': list(sat)}))
                    done = True
                    break
            if done:
                break
        if done:
            break
    if sequences and not bad:
        dep = build(case, perms[0])[0]
        for seq in itertools.permutations(free):
            p = dep.get_prerequisite(point, tdef)
            sat = set()
            steps = [None] + list(seq)
            for s in steps:
                if s is not None:
                    p.satisfy_me(toks([s]))
                    sat.add(s)
                got = observe(p)
                again = observe(p)     # cached value
                evals += 1
                want = ref_eval(case['shape'], truth(sat))
                if isinstance(got, str) or bool(got) != want \
                        or isinstance(again, str) or bool(again) != want:
                    bad.append((
                        'cache:wrong-after-satisfy-sequence',
                        f'satisfy_me one by one in order '
                        f'{[keys[i] for i in seq]}: after {len(sat)} step(s)'
                        f' is_satisfied() = {got!r}/{again!r}, expression '
                        f'is {want}', {'seq': list(seq)}))
                    break
            if bad:
                break
    return bad, evals


# -------------------------------------------------------------- signatures

def _cls(ch):
    if ch == '':
        return 'end'
    return 'w' if re.match(r'\w', ch) else ch


def hazards(keys):
    """Relations between the message strings 'point/name output' that a
    word-boundary based rewriting could trip over."""
    msgs = [f'{p}/{n} {o}' for p, n, o in keys]
    out = set()
    for m in msgs:
        if not re.match(r'\w', m[-1]):
            out.add(f'message-ends-with[{m[-1]}]')
        if not re.match(r'[\w-]', m[0]):
            out.add(f'message-starts-with[{m[0]}]')
    for a, b in itertools.permutations(msgs, 2):
        i = b.find(a)
        while i != -1:
            before = b[i - 1] if i > 0 else ''
            after = b[i + len(a)] if i + len(a) < len(b) else ''
            if _cls(before) != 'w' and _cls(after) != 'w':
                out.add(f'message-inside-another[before={_cls(before)},'
                        f'after={_cls(after)}]')
            i = b.find(a, i + 1)
    return sorted(out)


_SIG_CACHE = {}


def signature(case, symptom):
    key = (case['ctx'], case['point'], symptom.split(':')[0],
           tuple(sorted(map(repr, case['atoms']))))
    if key not in _SIG_CACHE:
        _SIG_CACHE[key] = _signature(case, symptom)
    return _SIG_CACHE[key]


def _signature(case, symptom):
    """Blame the smallest sub-expression (pair 'A|B', then single atom in
    'A|neutral') that already fails, and name the relation of its messages."""
    atoms = case['atoms']
    k = len(atoms)
    neutral = ['zz', None, 'succeeded']
    cands = []
    for i in range(k):
        cands.append([atoms[i], neutral])
    for i, j in itertools.combinations(range(k), 2):
        cands.append([atoms[i], atoms[j]])
    for sub in cands:
        sc = dict(case)
        sc['atoms'] = sub
        sc['shape'] = [0, '|', 1]
        b, _ = check_case(sc, sequences=False)
        if b:
            keys = build(sc, (0, 1))[1]
            real = [key for key, a in zip(keys, sub) if a is not neutral]
            hz = hazards(real) or hazards(keys)
            return (b[0][0].split(':')[0] + ':' + (
                ','.join(hz) if hz else 'no-collision'))
    sl = _slots(case['shape'])
    if len(sl) != len(set(sl)):
        return symptom.split(':')[0] + ':repeated-operand'
    keys = build(case, tuple(range(k)))[1]
    hz = hazards(keys)
    if hz:
        return symptom.split(':')[0] + ':' + ','.join(hz)
    return f"{symptom}:no-collision:shape={show(case['shape'], atoms)}"[:160]


# ------------------------------------------------------------- enumeration

def cases(ctx: Ctx):
    out = []
    for tname, (cname, pool) in themes(ctx).items():
        points = CONTEXTS[cname]['points']
        for k in (1, 2, 3, 4):
            sub = pool
            if k == 4:
                sub = pool[:4] if ctx.quick else pool[:5]
            if k == 3 and ctx.quick:
                sub = pool[:5]
            combos = itertools.permutations(range(len(sub)), k)
            if k == 4 and ctx.quick:
                combos = [tuple(range(4)), (3, 2, 1, 0), (1, 3, 0, 2)]
            for combo in combos:
                for shape in SHAPES[k]:
                    # symmetric shapes: skip mirror images of commutative
                    # flat forms (the registration order is enumerated anyway)
                    flat = all(not isinstance(x, list) for x in shape)
                    ops = {x for x in shape if isinstance(x, str)}
                    if flat and len(ops) <= 1 and list(combo) != sorted(
                            combo):
                        continue
                    for pt in points:
                        out.append({
                            'theme': tname, 'ctx': cname, 'point': pt,
                            'atoms': [sub[i] for i in combo],
                            'shape': shape})
    return out


def _slots(shape):
    out = []
    for x in shape:
        if isinstance(x, list):
            out += _slots(x)
        elif not isinstance(x, str):
            out.append(x)
    return out


def _fill(shape, mapping):
    return [_fill(x, mapping) if isinstance(x, list)
            else x if isinstance(x, str) else mapping[x] for x in shape]


def repeat_cases(ctx: Ctx):
    """Every shape with 2-4 operand slots, the slots filled from fewer
    distinct atoms than slots (every surjection: at least one atom occurs
    twice), including an atom that is pre-initial at the first point."""
    pool = [['a', None, 'succeeded'], ['b', None, 'succeeded'],
            ['a', '-P1', 'succeeded']]
    if not ctx.quick:
        pool.append(['c', None, 'out-2'])
    out = []
    for n in (2, 3, 4):
        for shape in SHAPES[n]:
            for m in range(1, n):
                for mapping in itertools.product(range(m), repeat=n):
                    if len(set(mapping)) != m:
                        continue
                    # canonical: first occurrences in increasing order (the
                    # choice of atoms below is ordered anyway)
                    firsts = []
                    for v in mapping:
                        if v not in firsts:
                            firsts.append(v)
                    if firsts != sorted(firsts):
                        continue
                    for chosen in itertools.permutations(
                            range(len(pool)), m):
                        for pt in ('1', '2'):
                            out.append({
                                'theme': 'repeats', 'ctx': 'int1',
                                'point': pt,
                                'atoms': [pool[i] for i in chosen],
                                'shape': _fill(shape, mapping)})
    return out


def _work(cs):
    res = []
    evals = 0
    n_cases = 0
    nontrivial = 0
    for case in cs:
        bad, ev = check_case(case)
        if bad is None:
            continue
        n_cases += 1
        evals += ev
        if '|' in repr(case['shape']):
            nontrivial += 1
        for symptom, what, extra in bad:
            sig = signature(case, symptom) if not symptom.startswith(
                'cache:') else symptom
            res.append((
                sig,
                f"{show(case['shape'], case['atoms'])} at point "
                f"{case['point']} (ICP {CONTEXTS[case['ctx']]['icp']}): "
                f'{what}',
                {'leg': 'direct', 'case': case, 'extra': extra}))
    return res, evals, n_cases, nontrivial


# ------------------------------------------------ leg 2: through the config

FLOW_INT = """[scheduler]
    allow implicit tasks = True
[scheduling]
    cycling mode = integer
    initial cycle point = 1
    [[graph]]
        P1 = \"\"\"
            {graph}
        \"\"\"
[runtime]
    [[root]]
        [[[outputs]]]
            out = out
            out-2 = out-2
            out_2 = out_2
            msg = file ready
            msg-2 = file ready 2
"""
FLOW_DT = """[scheduler]
    allow implicit tasks = True
    cycle point time zone = +0530
[scheduling]
    initial cycle point = 20000101T0000+0530
    [[graph]]
        PT6H = \"\"\"
            {graph}
        \"\"\"
[runtime]
    [[root]]
        [[[outputs]]]
            out = out
            out-2 = out-2
            out_2 = out_2
            msg = file ready
            msg-2 = file ready 2
"""
# graph qualifier -> the output string the prerequisite will carry (the
# configured message for custom outputs)
CFG_OUT = {'': 'succeeded', 'fail?': 'failed', 'out': 'out', 'out-2': 'out-2',
           'out_2': 'out_2', 'msg': 'file ready', 'msg-2': 'file ready 2'}


def cfg_cases(ctx: Ctx):
    names = ['foo', 'foo1', '1foo', 'xfoo', 'foo_bar', 'a-foo']
    out = []
    atoms = [
        ('foo', '', 'out'), ('foo', '', 'out-2'), ('foo', '', 'out_2'),
        ('foo', '', 'msg'), ('foo', '', 'msg-2'), ('foo', '[-P2]', 'out'),
        ('foo', '[-P2]', ''), ('foo', '', ''), ('foo1', '', 'out'),
        ('a-foo', '', 'out-2'), ('foo', '', 'fail?'),
    ]
    pairs = list(itertools.permutations(atoms, 2))
    if ctx.quick:
        pairs = [p for p in pairs if p[0][0] == 'foo' and (
            p[0][2] in ('out', 'msg', '') or p[0][1])]
    for a, b in pairs:
        if a[0] == b[0] and a[1] == b[1] and {a[2], b[2]} == {'', 'fail?'}:
            continue
        for op in '|&':
            out.append({'mode': 'int', 'atoms': [a, b],
                        'shape': [0, op, 1]})
        out.append({'mode': 'int', 'atoms': [a, b, ('p', '', '')],
                    'shape': [2, '&', [0, '|', 1]]})
    # the same upstream output more than once in one expression
    A, B, C, AP = ('a', '', ''), ('b', '', ''), ('c', '', 'out-2'), \
        ('a', '[-P1]', '')
    for atoms, shape in [
        ([A, B, C], [0, '&', 1, '|', 0, '&', 2]),
        ([A, B, C], [[0, '|', 1], '&', [0, '|', 2]]),
        ([AP, B, C], [0, '&', 1, '|', 0, '&', 2]),
        ([AP, B], [[0, '|', 1], '&', [1, '|', 0]]),
        ([A], [0, '|', 0]),
        ([C, B], [0, '|', 1, '&', 0]),
        ([A, B], [0, '|', [1, '&', [0, '|', 1]]]),
        ([A, AP], [0, '|', 1, '|', 0, '|', 1]),
    ]:
        out.append({'mode': 'int', 'atoms': atoms, 'shape': shape})
    for n1, n2 in itertools.permutations(names, 2):
        out.append({'mode': 'int', 'atoms': [(n1, '', ''), (n2, '', 'out')],
                    'shape': [0, '|', 1]})
    for a, b in [(('foo', '[-PT6H]', ''), ('foo', '', '')),
                 (('foo', '[-PT12H]', 'out'), ('foo', '[-PT6H]', 'out-2')),
                 (('foo', '', 'out'), ('foo', '', 'out-2')),
                 (('bar', '[+PT6H]', 'msg'), ('bar', '[+PT6H]', 'msg-2'))]:
        for op in '|&':
            out.append({'mode': 'dt', 'atoms': [a, b], 'shape': [0, op, 1]})
    return out


def cfg_graph(case):
    def txt(shape):
        s = []
        for item in shape:
            if isinstance(item, list):
                s.append('(' + txt(item) + ')')
            elif isinstance(item, str):
                s.append(f' {item} ')
            else:
                n, off, q = case['atoms'][item]
                s.append(f"{n}{off}{':' + q if q else ''}")
        return ''.join(s)
    lines = [txt(case['shape']) + ' => t']
    # tasks referenced only with an offset need a sequence of their own
    for n in sorted({a[0] for a in case['atoms']}):
        lines.append(f'{n}:started')
    return '\n            '.join(lines)


def judge_cfg(job):
    case, scratch, idx = job
    import shutil
    from pathlib import Path
    from types import SimpleNamespace
    from cylc.flow.config import WorkflowConfig
    from cylc.flow.cycling.loader import get_point, get_point_relative
    from cylc.flow.exceptions import CylcError
    from cylc.flow.id import Tokens
    d = Path(scratch) / f'c13-{idx}'
    d.mkdir(parents=True, exist_ok=True)
    f = d / 'flow.cylc'
    graph = cfg_graph(case)
    f.write_text((FLOW_INT if case['mode'] == 'int' else FLOW_DT).format(
        graph=graph))
    try:
        cfg = WorkflowConfig(f'c13-{idx}', str(f), options=SimpleNamespace())
    except CylcError as exc:
        return 'rejected', [], 0, f'{type(exc).__name__}: {exc}'[:200]
    finally:
        shutil.rmtree(d, ignore_errors=True)
    _CURRENT[0] = None    # WorkflowConfig re-initialised the cycling type
    tdef = cfg.taskdefs['t']
    deps = [x for ds in tdef.dependencies.values() for x in ds]
    icp = cfg.initial_point
    if case['mode'] == 'int':
        points = [get_point('1'), get_point('2'), get_point('5')]
    else:
        points = [icp, get_point_relative('+P1D', icp)]
    k = len(case['atoms'])
    bad = []
    evals = 0
    first_line = graph.split('\n')[0]
    for point in points:
        keys, pre = [], []
        for n, off, q in case['atoms']:
            p = point if not off else get_point_relative(off[1:-1], point)
            keys.append((str(p), n, CFG_OUT[q]))
            pre.append(bool(p < icp))
        free = [i for i in range(k) if not pre[i]]
        for r in range(len(free) + 1):
            for sat in itertools.combinations(free, r):
                pres = [x.get_prerequisite(point, tdef) for x in deps]
                got_keys = {tuple(kk) for p in pres for kk in p.keys()}
                if got_keys != set(keys):
                    bad.append((
                        'cfg:prerequisite-keys',
                        f'{first_line!r} at {point}: prerequisite is over '
                        f'{sorted(got_keys)}, the graph says {sorted(keys)}'))
                    break
                tk = [Tokens(cycle=keys[i][0], task=keys[i][1],
                             task_sel=keys[i][2]) for i in sat]
                try:
                    for p in pres:
                        p.satisfy_me(tk)
                    got = all(bool(p.is_satisfied()) for p in pres)
                except Exception as exc:   # noqa
                    got = f'EXC {type(exc).__name__}'
                evals += 1
                truth = [pre[i] or i in sat for i in range(k)]
                want = ref_eval(case['shape'], truth)
                if got != want:
                    hz = hazards(keys)
                    sl = _slots(case['shape'])
                    if not hz and len(sl) != len(set(sl)):
                        hz = ['repeated-operand']
                    bad.append((
                        ('eval-error' if isinstance(got, str)
                         else 'wrong-truth') + ':' + (
                            ','.join(hz) if hz else 'no-collision'),
                        f'{first_line!r} (loaded by WorkflowConfig) at '
                        f'{point}: with {[keys[i] for i in sat]} satisfied '
                        f'is_satisfied() = {got!r}, expression is {want}'))
                    break
            if bad:
                break
        if bad:
            break
    return 'ok', bad, evals, ''


# ----------------------------------------------------------------- driving

def run(ctx: Ctx) -> Result:
    cs = cases(ctx) + repeat_cases(ctx)
    parts = pmap(_work, chunks(cs, ctx.workers * 8), ctx.workers)
    vio = []
    evals = n_cases = nontrivial = 0
    for res, ev, nc, nt in parts:
        vio += res
        evals += ev
        n_cases += nc
        nontrivial += nt
    ccs = cfg_cases(ctx)
    cres = pmap(judge_cfg,
                [(c, str(ctx.scratch), i) for i, c in enumerate(ccs)],
                ctx.workers, chunksize=4)
    cfg_ok = cfg_rej = cfg_evals = 0
    rej_samples = []
    for (st, bad, ev, why), c in zip(cres, ccs):
        cfg_evals += ev
        if st == 'ok':
            cfg_ok += 1
        else:
            cfg_rej += 1
            if len(rej_samples) < 3:
                rej_samples.append(why)
        for sig, what in bad:
            vio.append((sig, what, {'leg': 'config', 'case': c}))
    if nontrivial < 1000:
        raise HarnessError(f'only {nontrivial} conditional expressions')
    if cfg_ok < len(ccs) // 2:
        raise HarnessError(
            f'config leg: only {cfg_ok}/{len(ccs)} workflows accepted: '
            f'{rej_samples}')
    by_theme = {}
    for c in cs:
        by_theme[c['theme']] = by_theme.get(c['theme'], 0) + 1
    vios = [Violation(s, w, p) for s, w, p in vio]
    cov = {
        'evaluations': evals + cfg_evals,
        'distinct_nontrivial': nontrivial + cfg_ok,
        'rule': (
            'evaluation = one is_satisfied() of a real Prerequisite made by '
            'Dependency.get_prerequisite after a given satisfy_me history; '
            'non-trivial = distinct (expression, cycle point) cases whose '
            'expression contains "|" (a conditional expression is built and '
            'evaluated), plus accepted config-leg workflows'),
        'expression_cases': n_cases,
        'cases_by_theme': by_theme,
        'config_workflows': len(ccs),
        'config_accepted': cfg_ok,
        'config_rejected_not_judged': cfg_rej,
        'config_evaluations': cfg_evals,
        'samples': [
            f"{show(c['shape'], c['atoms'])} @ {c['point']}"
            for c in cs[:: max(1, len(cs) // 8)][:8]],
        'exhaustive': True,
        'bounds': {
            'atoms': (
                'k<=2: all ordered choices from pools of 6-8 colliding '
                'atoms; k=3: from the first 5 of each pool; k=4: three '
                'arrangements of the first 4' if ctx.quick else
                'k<=3: all ordered choices from pools of 6-8 colliding '
                'atoms; k=4: from the first 5 of each pool'),
            'shapes': {str(k): len(v) for k, v in SHAPES.items()},
            'registration_orders': 'all k!',
            'satisfaction': 'all subsets (one call) for every order; all '
                            'single-step sequences for the natural order',
            'contexts': sorted(CONTEXTS),
            'repeated_operands': 'every shape with 2-4 slots x every '
                                 'surjection of the slots onto fewer atoms '
                                 'from a pool of %d (one pre-initial at '
                                 'point 1) x ordered atom choices' % (
                                     3 if ctx.quick else 4),
        },
    }
    return Result(cov, vios, assumptions=[
        'decided up to the stated bounds only',
        'output strings are labels or messages made of word characters, '
        'spaces, "-", "_", ".", "+"; messages containing the expression '
        'operators | & ( ) are not generated (the string form of the '
        'expression is then ambiguous)',
        'task names with a trailing non-word character are exercised through '
        'the direct Dependency leg only; in the config leg they would first '
        'meet the graph-parser defects reported under C14',
        'truthiness of is_satisfied() is compared (a non-bool return value '
        'with the right truthiness is not flagged)',
        'suicide prerequisites and xtriggers are outside this property',
    ])


def replay(payload):
    if payload['leg'] == 'direct':
        res = _work([payload['case']])[0]
        return [Violation(s, w, p) for s, w, p in res]
    import os
    from ..core import scratch_root
    st, bad, _, _ = judge_cfg(
        (payload['case'], str(scratch_root()), os.getpid()))
    return [Violation(s, w, payload) for s, w in bad]
