"""C39 Workflow names cannot escape the cylc-run directory.

Engine B: every string of up to N symbols over an alphabet that contains
every path-significant character ('.', '/', '~', '-', '_', ' ', '+', '@',
newline, a non-ASCII letter, a digit) and every reserved directory name as a
single symbol.  Each string is offered to the real validation entry points;
whenever cylc *accepts* it the reference (plain os.path arithmetic on path
components) must place the resolved path strictly below the cylc-run
directory and - when reserved names are checked - find no reserved component
in the normalised path.  Rejections are counted, never judged.
"""
from __future__ import annotations

import itertools
import os
import re

from ..core import Ctx, HarnessError, Result, Violation, pmap

LEVEL = 'exploration'

# Single characters first (design alphabet), then multi-character symbols.
# The reserved-word symbols use letters that are not single symbols; the only
# ambiguity is among '.', '..', '/', '/..', removed by forbidding the
# adjacent pairs below (the longest-match tokenisation is the one kept), so
# every enumerated string is distinct (self-tested in run()).
CHARS = ['a', '1', '.', '/', '~', '-', '_', ' ', 'é', '+', '@', '\n']
WORDS = ['..', '/..', 'run1', 'log', 'runN', 'share', 'work', '.service',
         '_cylc-install', 'flow.cylc', 'suite.rc']
ALPHABET = CHARS + WORDS
NONCANONICAL = frozenset([('.', '.'), ('.', '..'), ('/', '..')])


def canonical(tup):
    return not any(p in NONCANONICAL for p in zip(tup, tup[1:]))


def count_canonical(maxlen):
    """Number of canonical tuples of length 0..maxlen (by recurrence)."""
    total = 1
    ending = {s: 1 for s in ALPHABET}
    for _ in range(maxlen):
        total += sum(ending.values())
        ending = {
            s: sum(v for t, v in ending.items() if (t, s) not in NONCANONICAL)
            for s in ALPHABET}
    return total


def selftest_tokenisation(depth=3):
    """All canonical tuples give distinct strings and no string is lost."""
    seen = {}
    for k in range(depth + 1):
        for tup in itertools.product(ALPHABET, repeat=k):
            if canonical(tup):
                s = ''.join(tup)
                if s in seen:
                    raise HarnessError(f'ambiguous: {tup} {seen[s]}')
                seen[s] = tup
    for k in range(depth + 1):
        for tup in itertools.product(ALPHABET, repeat=k):
            s = ''.join(tup)
            if s not in seen or len(seen[s]) > len(tup):
                raise HarnessError(f'string lost by canonicalisation: {tup}')


# The reserved names, from the cylc documentation of the run directory
# layout (written out here; NOT imported from the code under test).
RESERVED = frozenset([
    'log', 'share', 'work', 'runN', '.service', '_cylc-install',
    'flow.cylc', 'suite.rc'])
RUN_NUM = re.compile(r'\Arun[0-9]+\Z')

ENTRIES = ('validate', 'validate_reserved', 'check_reserved')


# ---------------------------------------------------------------- reference

def comps(path):
    """Components of a normalised POSIX path ('/a/b' -> ['', 'a', 'b'])."""
    return path.split('/') if path != '/' else ['']


def relation(run_dir, path):
    """Where the normalised *path* lies relative to *run_dir*.

    'inside' (strict descendant, component-wise), 'equal', 'ancestor' or
    'outside'.
    """
    path = os.path.normpath(path)
    if not os.path.isabs(path):
        return 'outside'   # a resolved path must be absolute
    r = comps(os.path.normpath(run_dir))
    p = comps(path)
    if p == r:
        return 'equal'
    if len(p) > len(r) and p[:len(r)] == r:
        return 'inside'
    if len(p) < len(r) and r[:len(p)] == p:
        return 'ancestor'
    return 'outside'


def reserved_in(run_dir, path):
    """Reserved components of the part of *path* below run_dir (sorted)."""
    r = comps(os.path.normpath(run_dir))
    p = comps(os.path.normpath(path))
    out = set()
    for c in p[len(r):]:
        if c in RESERVED:
            out.add(c)
        elif RUN_NUM.match(c):
            out.add('run<digits>')
    return sorted(out)


# --------------------------------------------------------------- real code

def call(entry, name):
    """True if cylc accepts *name* at *entry*, False if it rejects it."""
    from cylc.flow.exceptions import WorkflowFilesError
    from cylc.flow import workflow_files as wf
    try:
        if entry == 'validate':
            wf.validate_workflow_name(name)
        elif entry == 'validate_reserved':
            wf.validate_workflow_name(name, check_reserved_names=True)
        elif entry == 'check_reserved':
            wf.check_reserved_dir_names(name)
        else:
            raise ValueError(entry)
    except WorkflowFilesError:
        return False
    return True


def resolved_paths(run_dir, name):
    """The paths the name resolves to: by plain joining, and by cylc's own
    run-directory resolver (which also expands '~' and variables)."""
    from cylc.flow.pathutil import get_workflow_run_dir
    return [os.path.join(run_dir, name), get_workflow_run_dir(name)]


def judge(run_dir, name):
    """Return (accepted-by-entry dict, [violation dicts])."""
    acc = {e: call(e, name) for e in ENTRIES}
    bad = []
    if not any(acc.values()):
        return acc, bad
    paths = resolved_paths(run_dir, name)
    rels = [relation(run_dir, p) for p in paths]
    for entry in ('validate', 'validate_reserved'):
        if not acc[entry]:
            continue
        for p, rel in zip(paths, rels):
            if rel != 'inside':
                bad.append({
                    'name': name, 'entry': entry, 'kind': 'escape',
                    'detail': rel, 'path': os.path.normpath(p)})
                break
    for entry in ('validate_reserved', 'check_reserved'):
        if not acc[entry]:
            continue
        # check_reserved_dir_names does not promise containment; judge the
        # reserved clause on the joined path whatever its location
        res = reserved_in(run_dir, os.path.join(run_dir, name)) \
            if not os.path.isabs(name) else []
        for word in res:
            bad.append({
                'name': name, 'entry': entry, 'kind': 'reserved',
                'detail': word,
                'path': os.path.normpath(os.path.join(run_dir, name))})
    return acc, bad


def signature(b):
    if b['kind'] == 'escape':
        return f"accepted-name-resolves-{b['detail']}-run-dir:{b['entry']}"
    return f"reserved-name-accepted:{b['detail']}:{b['entry']}"


def describe(b):
    if b['kind'] == 'escape':
        return (f"{b['entry']} accepts {b['name']!r} which resolves to "
                f"{b['path']} ({b['detail']} the cylc-run directory, not "
                "strictly inside it)")
    return (f"{b['entry']} accepts {b['name']!r} although the normalised "
            f"path {b['path']} contains the reserved name {b['detail']}")


# -------------------------------------------------------------- enumeration

def _work(job):
    from cylc.flow.pathutil import get_cylc_run_dir
    prefixes, maxlen = job
    run_dir = get_cylc_run_dir()
    n = {
        'evaluations': 0, 'accepted_any': 0, 'accepted_all': 0,
        'rejected_all': 0, 'nontrivial': 0,
        # seams (reference-side classification of what cylc did)
        'rejected_escape': 0,        # rejected & reference says not inside
        'rejected_absolute': 0,
        'accepted_with_dotdot': 0,   # accepted & contains '..' component
        'accepted_needs_normalising': 0,
        'reserved_only_rejections': 0,   # plain mode accepts, reserved rejects
        'rejected_inside_clean': 0,  # rejected though inside & unreserved
    }
    reserved_hit = {}
    bad = []
    samples = {}
    for pre in prefixes:
        for k in range(0, maxlen - len(pre) + 1):
            for tail in itertools.product(ALPHABET, repeat=k):
                if not canonical(pre[-1:] + tail):
                    continue
                name = ''.join(pre) + ''.join(tail)
                acc, b = judge(run_dir, name)
                n['evaluations'] += 1
                if b and len(bad) < 400:
                    bad.extend(b[:2])
                rel = relation(run_dir, os.path.join(run_dir, name))
                res = reserved_in(run_dir, os.path.join(run_dir, name)) \
                    if rel == 'inside' else []
                if acc['validate']:
                    n['accepted_any'] += 1
                    parts = name.split('/')
                    if '..' in parts:
                        n['accepted_with_dotdot'] += 1
                        samples.setdefault('accepted_with_dotdot', name)
                    norm = os.path.normpath(name)
                    if norm != name:
                        n['accepted_needs_normalising'] += 1
                    if norm != name or '/' in norm:
                        n['nontrivial'] += 1
                    if acc['validate_reserved']:
                        n['accepted_all'] += 1
                        samples.setdefault('accepted', name)
                    else:
                        n['reserved_only_rejections'] += 1
                        for w in res:
                            reserved_hit[w] = reserved_hit.get(w, 0) + 1
                        samples.setdefault('reserved_only_rejection', name)
                else:
                    n['rejected_all'] += 1
                    if os.path.isabs(name):
                        n['rejected_absolute'] += 1
                    elif rel != 'inside':
                        n['rejected_escape'] += 1
                        if '..' in name:
                            samples.setdefault('rejected_escape', name)
                    elif not res:
                        n['rejected_inside_clean'] += 1
    return n, reserved_hit, bad, samples


def run(ctx: Ctx) -> Result:
    maxlen = ctx.pick(4, 5)
    # one job per 2-symbol prefix (plus the short strings)
    selftest_tokenisation()
    jobs = [([()], 1)]   # '' and the 1-symbol strings
    pre2 = [p for p in itertools.product(ALPHABET, repeat=2) if canonical(p)]
    per = max(1, len(pre2) // (ctx.workers * 6))
    for i in range(0, len(pre2), per):
        jobs.append((pre2[i:i + per], maxlen))
    res = pmap(_work, jobs, ctx.workers)
    tot = {}
    reserved_hit = {}
    bad = []
    samples = {}
    for n, rh, b, s in res:
        for k, v in n.items():
            tot[k] = tot.get(k, 0) + v
        for k, v in rh.items():
            reserved_hit[k] = reserved_hit.get(k, 0) + v
        bad.extend(b)
        for k, v in s.items():
            samples.setdefault(k, v)
    expect = count_canonical(maxlen)
    if tot['evaluations'] != expect:
        raise HarnessError(
            f"enumerated {tot['evaluations']} strings, expected {expect}")
    # the space must exercise every seam of the validation
    for seam in ('accepted_all', 'rejected_escape', 'rejected_absolute',
                 'accepted_with_dotdot', 'accepted_needs_normalising',
                 'reserved_only_rejections', 'rejected_inside_clean'):
        if not tot[seam] and not bad:
            raise HarnessError(f'seam never exercised: {seam}')
    missing = [w for w in sorted(RESERVED) + ['run<digits>']
               if not reserved_hit.get(w)]
    if missing and not bad:
        raise HarnessError(
            f'reserved names never rejected by cylc (space vacuous?): '
            f'{missing}')
    vios = [Violation(signature(b), describe(b), b) for b in bad]
    cov = {
        'evaluations': tot['evaluations'],
        'entry_point_calls': tot['evaluations'] * len(ENTRIES),
        'distinct_nontrivial': tot['nontrivial'],
        'rule': (
            'every string of 0..%d symbols over the alphabet (all distinct: '
            'one tokenisation per string is kept); each offered to '
            'validate_workflow_name(check_reserved_names=False/True) and '
            'check_reserved_dir_names; non-trivial = accepted by '
            'validate_workflow_name and either multi-component or changed '
            'by path normalisation' % maxlen),
        'alphabet': ALPHABET,
        'max_symbols': maxlen,
        'accepted_plain': tot['accepted_any'],
        'accepted_plain_and_reserved_mode': tot['accepted_all'],
        'rejected_not_judged': tot['rejected_all'],
        'seams': {k: tot[k] for k in (
            'rejected_escape', 'rejected_absolute', 'accepted_with_dotdot',
            'accepted_needs_normalising', 'reserved_only_rejections',
            'rejected_inside_clean')},
        'reserved_only_rejections_by_word': reserved_hit,
        'samples': [{'class': k, 'name': v} for k, v in sorted(
            samples.items())],
        'exhaustive': True,
    }
    return Result(cov, vios, assumptions=[
        'decided for names of at most %d alphabet symbols' % maxlen,
        'the cylc-run directory is $HOME/cylc-run with no symlinks below it '
        '(containment is judged on normalised paths, not on a populated '
        'file system)',
        'reserved names are the documented run-directory entries (log, '
        'share, work, runN, .service, _cylc-install, flow.cylc, suite.rc) '
        'and run<ASCII digits>, compared exactly and case-sensitively: a '
        'component such as "log\\n" or "Log" is not a reserved name',
        'entry points judged: validate_workflow_name (both modes) and '
        'check_reserved_dir_names; the CLI ID parser, which passes its '
        'workflow token to validate_workflow_name, is not driven here',
        'rejected names are counted, never judged',
    ])


def replay(payload):
    from cylc.flow.pathutil import get_cylc_run_dir
    run_dir = get_cylc_run_dir()
    _, bad = judge(run_dir, payload['name'])
    sig = signature(payload)
    return [Violation(signature(b), describe(b), b)
            for b in bad if signature(b) == sig]
