"""C30 Removing a task undoes exactly its effects."""
from __future__ import annotations

from ..core import Ctx, HarnessError, Result
from ..sched.catalogue import A, AND, OR, E, spec_from
from ..sched.mon_c08 import FlowProfile
from ..sched.mon_c30 import COUNT, RemoveFrame, wrap_c30
from ..sched.monitors import PoolInvariants
from ..sched.run import explore_all, replay_violation, result_from

LEVEL = 'model_checking'

ASSUME = [
    'bounded catalogue: one-cycle chain (a => b => c), AND-diamond '
    '(a => b & c => d), OR-diamond, a child reached through several arrows '
    '(a:started => b, a => b, c => b) and a two-cycle inter-cycle chain '
    '(a[-P1] => a => b); integer cycling; localhost jobs; every job succeeds',
    '`remove_tasks` of one instance per command, without --flow and with '
    '--flow=N, offered for every instance of the graph at every main-loop '
    'boundary of the run (one removal per execution); set-up commands that '
    'come first in some profiles (cylc set --pre to force-satisfy a '
    'prerequisite, cylc trigger --flow=2 to create a second flow) are also '
    'offered at every boundary',
    'no-flow (--flow=none) instances are not generated: "its flows" is empty'
    ' for them and the statement does not say what removal means',
    'the pool is compared right before / right after the scheduler executes '
    'the queued command; the private database at the end of that main-loop '
    'iteration (database writes are queued until then)',
    'a child that also lives in flows that are not removed MAY have the '
    'prerequisites naturally satisfied by the target unset (the statement '
    'does not decide); a child living only in removed flows MUST',
    'an active (preparing/submitted/running) child left without satisfied '
    'prerequisites may stay or go; a waiting one must go',
    '"can run again later" is judged as: a removed instance that is back in '
    'the pool with all prerequisites satisfied is never left waiting in a '
    'quiescent state, and `set --pre=all` of it in a removed flow respawns '
    'and submits it (no hold/queue-limit/runahead reason exists in these '
    'workflows)',
    'kill of the removed instance\'s job and what its late messages do are '
    'not judged here',
]

a, b, c, d = 'a', 'b', 'c', 'd'
SHAPES = {
    'chain': [E(A(a), b), E(A(b), c)],
    'diamond': [E(A(a), b), E(A(a), c), E(AND(A(b), A(c)), d)],
    'ordiamond': [E(A(a), b), E(A(a), c), E(OR(A(b), A(c)), d)],
    'prevchain': [E(A(a, -1), a), E(A(a), b)],
    # the child depends on the target through several graph arrows
    'arrows': [E(A(a, 0, 'started'), b), E(A(a), b), E(A(c), b)],
}


def rm(inst, flow=None):
    return ('remove_tasks', {'tasks': [inst], 'flow': [flow] if flow else []})


def trig(inst, flow):
    return ('force_trigger_tasks',
            {'tasks': [inst], 'flow': [flow] if flow else []})


def setpre(inst, pre, flow=None):
    return ('set', {'tasks': [inst], 'flow': [flow] if flow else [],
                    'prerequisites': pre})


def rows(tier: str):
    """(name, shape, fcp, [ops of command 1, ops of command 2, ...])."""
    q = [
        ('chain-rm-all', 'chain', 1,
         [[rm('1/a'), rm('1/b'), rm('1/c')]]),
        ('diamond-rm-bd', 'diamond', 1,
         [[rm('1/b'), rm('1/d', '1'), rm('1/a', '1')]]),
        ('ordiamond-rm-b', 'ordiamond', 1, [[rm('1/b')]]),
        ('arrows-rm-a', 'arrows', 1, [[rm('1/a')]]),
        ('diamond-forced-rm', 'diamond', 1,
         [[setpre('1/d', ['1/b:succeeded'])], [rm('1/b'), rm('1/c')]]),
        ('chain-flow2-rm', 'chain', 1,
         [[trig('1/a', '2')], [rm('1/b', '1'), rm('1/b', '2')]]),
        # "so it can run again later": removal, then all prerequisites again
        # (diamond: the other branch keeps the scheduler alive meanwhile)
        ('diamond-rm-rerun-b', 'diamond', 1,
         [[rm('1/b')], [setpre('1/b', ['all'])]]),
    ]
    if tier == 'quick':
        return q
    return q + [
        ('chain-rm-flow1', 'chain', 1,
         [[rm('1/a', '1'), rm('1/b', '1'), rm('1/c', '1')]]),
        ('chain-flow2-rm-all', 'chain', 1,
         [[trig('1/a', '2')], [rm('1/b'), rm('1/c', '1')]]),
        ('prevchain-rm', 'prevchain', 2,
         [[rm('1/a'), rm('2/a', '1'), rm('1/b'), rm('2/b')]]),
        ('diamond-rm-ac', 'diamond', 1,
         [[rm('1/a'), rm('1/c'), rm('1/d'), rm('1/b', '1')]]),
        ('ordiamond-rm-c', 'ordiamond', 1, [[rm('1/c', '1')]]),
        ('chain-rm-rerun-a', 'chain', 1,
         [[rm('1/a')], [setpre('1/a', ['all'])]]),
        ('chain-rm-rerun-flow1', 'chain', 1,
         [[rm('1/b', '1')], [setpre('1/b', ['all'], '1')]]),
        ('chain-forced-rm', 'chain', 1,
         [[setpre('1/c', ['1/b:succeeded']), setpre('1/b', ['all'])],
          [rm('1/b')]]),
        ('chain-flow2-rm-a', 'chain', 1,
         [[trig('1/a', '2')],
          [rm('1/a', '2'), rm('1/a', '1'), rm('1/c', '2')]]),
        ('chain-flow2b-rm', 'chain', 1,
         [[trig('1/b', '2')],
          [rm('1/c', '2'), rm('1/c'), rm('1/b', '2')]]),
    ]


def catalogue(tier: str):
    out = []
    for name, shape, fcp, op_lists in rows(tier):
        sp = spec_from([('P1', SHAPES[shape])], 1, fcp, name=name)
        sp['op_lists'] = op_lists
        out.append(sp)
    return out


def make_factory(spec, tier='quick'):
    def factory():
        return FlowProfile(
            spec, op_lists=spec['op_lists'], pre_boot=wrap_c30,
            monitors=[RemoveFrame, PoolInvariants], jump=())
    return factory


NEED = ('removals-processed:all', 'removals-processed:flow',
        'target-left-pool', 'target-not-in-pool', 'removals-effective',
        'natural-atom-unset', 'child-removed-no-satisfied-prereq',
        'child-with-forced-atom-on-target', 'target-kept-in-other-flows',
        'db-history-erased-checked')


def run(ctx: Ctx) -> Result:
    specs = catalogue(ctx.tier)
    COUNT.clear()
    st = explore_all(
        ctx, [make_factory(s, ctx.tier) for s in specs],
        max_states=ctx.pick(6000, 60000), max_seconds=ctx.pick(1500, 6000))
    seen = COUNT.collect()
    if not st.violations and not st.error:
        need = NEED + ('followups', 'removed-instance-ran-again',
                       'removed-instance-respawned',
                       'removed-after-finishing')
        for k in need:
            if not seen.get(k):
                raise HarnessError(f'vacuous: no {k} in the whole exploration')
    return result_from(
        ctx, st, prop='C30',
        bounds={'workflows': [s['name'] for s in specs],
                'profiles': {
                    s['name']: [[f"{n} {' '.join(k['tasks'])} "
                                 f"flow={','.join(k['flow']) or 'all'}"
                                 f"{' pre=' + ','.join(k['prerequisites']) if k.get('prerequisites') else ''}"
                                 for n, k in ops] for ops in s['op_lists']]
                    for s in specs},
                'removals per execution': 1,
                'set-up / follow-up commands per execution': '0-1'},
        assumptions=ASSUME, min_states=100,
        extra_cov={'observed (lower bounds, per-process counters)': seen})


def replay(payload):
    specs = {s['name']: s for s in catalogue('thorough')}
    specs.update({s['name']: s for s in catalogue('quick')})
    return replay_violation(
        payload, lambda pl: make_factory(
            specs[pl['spec_name']], pl.get('tier', 'quick')))
