"""C25 The published data store reflects the task pool (Engine A).

Every main-loop iteration of every explored execution: pool vs store after
each `update_data_structure`, and a client mirror fed with every published
batch (see vfw/sched/mon_c25.py).
"""
from __future__ import annotations

from ..core import Ctx, HarnessError, Result
from ..sched import catalogue as cat
from ..sched.catalogue import A, AND, E, spec_from
from ..sched.mon_c25 import COUNTS, StoreReflectsPool
from ..sched.mon_c27 import COUNTS as COUNTS27, ReloadProfile, definitions
from ..sched.run import explore_all, replay_violation, result_from

LEVEL = 'model_checking'

ASSUME = [
    'bounded catalogue: the C01 graph shapes (small), integer cycling, '
    'localhost jobs, one flow; natural runs plus one operator command per '
    'execution (hold / release / trigger of an instance, in the pool or '
    'not), plus one reload per execution (unchanged, +task, +edge, -task, '
    '-edge definitions) and, in thorough, one graph-window resize (n=2), '
    'two commands and hold-then-reload',
    'pool vs store is evaluated at the return of every '
    'Scheduler.update_data_structure; only the fields named in the '
    'statement are compared (status, held, queued, runahead, flow numbers, '
    'satisfied outputs, per-atom prerequisite satisfaction)',
    'the client is the UI-server merge: first published batch = snapshot, '
    'then per element type: clear on `reloaded`, data_store_mgr.apply_delta, '
    'checksum over the client\'s elements against the published checksum; '
    'batches go through a protobuf wire round trip; the per-type topics '
    'other than `all` are not consumed',
    'client vs scheduler store is compared element-wise at every main-loop '
    'boundary at which nothing is left unpublished, and in quiescent states '
    'an unpublished batch is itself a violation',
    'restarts are out of scope (a client reconnects and takes a new '
    'snapshot)',
    'the state key is extended with time-free digests of the store and of '
    'the client mirror',
]


def catalogue(tier: str):
    shapes = dict(cat.basic_shapes())
    out = []

    def add(name, shape, fcp, rec='P1', **extra):
        sp = spec_from([(rec, shapes[shape])], 1, fcp, name=name)
        sp.update(extra)
        out.append(sp)

    # natural runs over the C01 shapes
    nat = [('chain2', 2), ('or', 1), ('failopt', 1), ('custom', 1),
           ('prev', 3), ('future', 2), ('prevb', 2)]
    if tier == 'thorough':
        nat += [('and', 1), ('fanout', 1), ('customopt', 1), ('start', 1),
                ('prev2', 2), ('chain3', 2), ('paren', 1), ('finish', 1)]
    for shape, fcp in nat:
        add(f'{shape}-f{fcp}', shape, fcp)
    # one operator command
    cmds = [('hold', {'tasks': ['1/a']}), ('hold', {'tasks': ['1/b']}),
            ('release', {'tasks': ['1/a']}),
            ('force_trigger_tasks', {'tasks': ['1/b'], 'flow': ['all']})]
    add('chain2-f1-cmd', 'chain2', 1, helpers=cmds, helper_budget=1)
    add('chain2-f2-holdcp1-release', 'chain2', 2, options={'holdcp': '1'},
        helpers=[('release', {'tasks': ['2/a']}),
                 ('release_hold_point', {})], helper_budget=1)
    # a group trigger of tasks outside the n=1 window: members enter the
    # window as ghosts and join the pool within one data-store batch
    out.append(dict(spec_from(
        [('P1', [E(A('a'), 'b'), E(A('b'), 'c'), E(A('a'), 'e'),
                 E(AND(A('c'), A('e')), 'd')])], 1, 1,
        name='kite-f1-grouptrigger'),
        helpers=[('force_trigger_tasks',
                  {'tasks': ['1/c', '1/d'], 'flow': ['all']}),
                 ('force_trigger_tasks',
                  {'tasks': ['1/d'], 'flow': ['all']})],
        helper_budget=1, helper_when='no-live-member'))
    # ... and of a member whose job is live (recorded finding: the data
    # store node of the respawned member shows the old job's kill result)
    out.append(dict(spec_from(
        [('P1', [E(A('a'), 'c'), E(A('a'), 'e'),
                 E(AND(A('c'), A('e')), 'd')])], 1, 1,
        name='kite-f1-grouptrigger-live'),
        helpers=[('force_trigger_tasks',
                  {'tasks': ['1/c', '1/d'], 'flow': ['all']})],
        helper_budget=1, helper_when='live-member'))
    # one reload
    add('chain2-f1-reload', 'chain2', 1, reloads=1, drop_tasks=['a', 'b'])
    add('prev-f2-ra0-reload', 'prev', 2, reloads=1,
        scheduling={'runahead limit': 'P0'}, drop_tasks=[])
    if tier == 'thorough':
        add('chain2-f1-cmd2', 'chain2', 1, helpers=cmds + [
            ('release', {'tasks': ['1/b']})], helper_budget=2)
        add('chain2-f2-cmd', 'chain2', 2, helpers=cmds + [
            ('hold', {'tasks': ['2/a']}), ('release', {'tasks': ['1/b']}),
            ('set_hold_point', {'point': '1'})], helper_budget=1)
        add('fanout-f1-qlimit1-reload', 'fanout', 1, reloads=1,
            queues={'q': {'limit': 1, 'members': ['a', 'b', 'c']}},
            add_edges=[('b', 0, 'c')], drop_tasks=['a', 'c'])
        add('chain2-f1-hold-reload', 'chain2', 1, reloads=1,
            drop_tasks=['b'],
            helpers=[('hold', {'tasks': ['1/a']}),
                     ('hold', {'tasks': ['1/b']})], helper_budget=1)
        add('prevb-f2-ra0-reload', 'prevb', 2, reloads=1,
            scheduling={'runahead limit': 'P0'})
        win = [('set_graph_window_extent', {'n_edge_distance': 2})]
        add('chain3-f2-window', 'chain3', 2, helpers=win, helper_budget=1)
        add('prev-f3-window', 'prev', 3, helpers=win + [
            ('set_graph_window_extent', {'n_edge_distance': 0})],
            helper_budget=2)
        add('chain2-f1-window-reload', 'chain2', 1, helpers=win,
            helper_budget=1, reloads=1, drop_tasks=['b'])
    return out


def outcomes_for(spec) -> dict:
    opt = cat.optional_outputs(spec['sections'])
    return {t: ['succeeded', 'failed'] for t, o in opt.items()
            if 'succeeded' in o or 'failed' in o}


def emit_for(spec) -> str:
    opt = cat.optional_outputs(spec['sections'])
    return 'any' if any(o - cat.STD for o in opt.values()) else 'all'


def make_factory(spec, tier='quick'):
    def factory():
        return ReloadProfile(
            spec, tier='quick',      # definition variants: the small set
            reload_budget=spec.get('reloads', 0),
            helpers=spec.get('helpers'),
            helper_budget=spec.get('helper_budget', 0),
            monitors=[StoreReflectsPool],
            outcomes=outcomes_for(spec), emit=emit_for(spec), jump=())
    return factory


NEED = [
    'data-store updates checked', 'pooled proxies compared with the store',
    'held proxies compared', 'queued proxies compared',
    'runahead proxies compared', 'published batches applied',
    'reloaded deltas applied', 'checksums compared', 'mirror comparisons',
]


def run(ctx: Ctx) -> Result:
    specs = catalogue(ctx.tier)
    COUNTS.collect(ctx.scratch)
    COUNTS27.collect(ctx.scratch)
    st = explore_all(
        ctx, [make_factory(s, ctx.tier) for s in specs],
        max_states=ctx.pick(6000, 60000), max_seconds=ctx.pick(240, 2400))
    counts = COUNTS.collect(ctx.scratch)
    COUNTS27.collect(ctx.scratch)
    if not st.error and not st.violations:
        miss = [k for k in NEED if not counts.get(k)]
        if miss:
            raise HarnessError(
                f'vacuous: never observed {miss}; observed {counts}')
    return result_from(
        ctx, st, prop='C25',
        bounds={'workflows': [s['name'] for s in specs],
                'commands': {s['name']: [h[0] for h in s['helpers']]
                             for s in specs if s.get('helpers')},
                'reload definitions': {
                    s['name']: sorted(definitions(s, 'quick'))
                    for s in specs if s.get('reloads')}},
        assumptions=ASSUME, min_states=200,
        extra_cov={'observed (per-process counters, include replays)':
                   counts})


def replay(payload):
    tier = payload.get('tier', 'quick')
    specs = {s['name']: s for s in catalogue(tier)}
    return replay_violation(
        payload, lambda pl: make_factory(specs[pl['spec_name']], tier))
