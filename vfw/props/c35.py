"""C35 Runtime inheritance follows C3 linearization.

Engine B: every runtime family hierarchy up to a size bound is linearized by
the real cylc code (`C3(tree).mro()` for all of them; a fixed stride of them
additionally through a real `WorkflowConfig` built from a generated
flow.cylc, observing `linearized ancestors` and the inherited values), and
compared with the order Python itself computes for the equivalent class
hierarchy (`type(name, bases, {}).__mro__`).  When Python refuses to build
the classes (`TypeError`: no consistent MRO) cylc must reject, too.  A small
exhaustive family of *cyclic* hierarchies (which have no linearization at
all) must be rejected as well.
"""
from __future__ import annotations

import itertools
import os
from pathlib import Path

from ..core import Ctx, HarnessError, Result, Violation, pmap

LEVEL = 'exploration'

ROOT = 'root'
DUMMY = 'zz_task'


# ---------------------------------------------------------------- reference

def py_reference(parents):
    """{name: [mro names] | None (Python refuses)} using Python's own class
    machinery.  `parents` maps name -> ordered parent names (acyclic);
    'root' has no parents."""
    out = {}
    classes = {}

    def build(name):
        if name in out:
            return classes.get(name)
        bases = [build(p) for p in parents[name]]
        if any(b is None for b in bases):
            out[name] = None
            return None
        try:
            cls = type(name, tuple(bases), {})
        except TypeError:
            out[name] = None
            return None
        classes[name] = cls
        out[name] = [c.__name__ for c in cls.__mro__[:-1]]
        return cls

    for name in parents:
        build(name)
    return out


def naive_dfs(parents, name):
    """Old-style depth-first left-to-right order (for coverage stats)."""
    res = []

    def go(n):
        if n not in res:
            res.append(n)
            for p in parents[n]:
                go(p)
    go(name)
    return res


def classify(parents, node, got, want):
    """Root-cause class of a disagreement (computed from the violation)."""
    if want is None or want == 'CYCLE':
        return ('accepts-cyclic' if want == 'CYCLE'
                else 'accepts-inconsistent')
    if got == 'REJECT':
        return 'rejects-consistent'
    if not isinstance(got, list):
        return 'bad-result'
    if sorted(got) != sorted(want):
        if set(want) - set(got):
            return 'missing-ancestor'
        return 'extra-or-duplicate-ancestor'
    pos = {n: i for i, n in enumerate(got)}
    if got[0] != node:
        return 'self-not-first'
    # local precedence: each namespace's own parent list keeps its order
    for n in got:
        ps = parents[n]
        if any(pos[a] > pos[b] for a, b in zip(ps, ps[1:])):
            return 'local-precedence-broken'
        if any(pos[p] < pos[n] for p in ps):
            return 'parent-before-child'
    return 'consistent-but-not-c3-order'


# -------------------------------------------------------------- cylc drivers

def cylc_c3_all(parents, order):
    """Run C3(tree).mro() for each name in order on ONE C3 object, the way
    compute_family_tree does.  Returns ({name: list|'REJECT'}, mutated)."""
    import sys
    from cylc.flow.c3mro import C3
    tree = {k: list(v) for k, v in parents.items()}
    c3 = C3(tree)
    got = {}
    # (a cyclic hierarchy ends in RecursionError: keep that cheap)
    limit = sys.getrecursionlimit()
    sys.setrecursionlimit(min(limit, _depth() + 60))
    try:
        for name in order:
            try:
                got[name] = c3.mro(name)
            except Exception:
                got[name] = 'REJECT'
    finally:
        sys.setrecursionlimit(limit)
    mutated = tree != {k: list(v) for k, v in parents.items()}
    return got, mutated


def _depth():
    import sys
    f = sys._getframe()
    n = 0
    while f is not None:
        n += 1
        f = f.f_back
    return n


def pair_vars(names):
    return [(a, b) for a, b in itertools.combinations(names, 2)]


def render_flow(parents, order, variant):
    """flow.cylc text. variant bits: 1 = omit 'inherit = root', 2 = write
    'None' (first-parent demotion) in front of multi-parent lists."""
    names = sorted(parents, key=lambda n: (n != ROOT, n))
    pairs = pair_vars(names)
    lines = [
        '[scheduling]', '    [[graph]]', f'        R1 = {DUMMY}',
        '[runtime]', f'    [[{DUMMY}]]']
    for n in order:
        lines.append(f'    [[{n}]]')
        ps = list(parents[n])
        if n != ROOT:
            if ps == [ROOT] and variant & 1:
                pass
            else:
                if variant & 2 and len(ps) > 1:
                    ps = ['None'] + ps
                lines.append('        inherit = ' + ', '.join(ps))
        lines.append('        [[[environment]]]')
        for a, b in pairs:
            if n in (a, b):
                lines.append(f'            P_{a}_{b} = {n}')
    return '\n'.join(lines) + '\n'


def expected_env(parents, mro):
    names = sorted(parents, key=lambda n: (n != ROOT, n))
    env = {}
    for a, b in pair_vars(names):
        for n in mro:           # first namespace in the MRO that defines it
            if n in (a, b):
                env[f'P_{a}_{b}'] = n
                break
    return env


def cylc_config(parents, order, variant, fpath):
    """Real WorkflowConfig. Returns 'REJECT:<exc>' or
    {name: (linearized ancestors, {env})}."""
    from cylc.flow.config import WorkflowConfig
    from cylc.flow.exceptions import WorkflowConfigError
    from cylc.flow.scripts.validate import ValidateOptions
    Path(fpath).write_text(render_flow(parents, order, variant))
    try:
        cfg = WorkflowConfig('c35', str(fpath), ValidateOptions())
    except WorkflowConfigError as exc:
        return 'REJECT:' + str(exc).splitlines()[0][:80]
    except RecursionError:
        return 'REJECT:RecursionError'
    out = {}
    for n in parents:
        env = cfg.cfg['runtime'][n].get('environment', {})
        out[n] = (
            list(cfg.runtime['linearized ancestors'][n]),
            {k: v for k, v in env.items() if k.startswith('P_')},
        )
    return out


# ------------------------------------------------------------------ judging

def judge_c3(parents, order, ref):
    got, mutated = cylc_c3_all(parents, order)
    bad = []
    for n in order:
        want = ref[n]
        g = got[n]
        ok = (g == 'REJECT') if (want is None or want == 'CYCLE') else (
            g == want)
        if not ok:
            bad.append({
                'leg': 'c3', 'parents': parents, 'order': order, 'node': n,
                'got': g, 'want': want,
                'kind': classify(parents, n, g, want)})
    if mutated and not bad:
        bad.append({
            'leg': 'c3', 'parents': parents, 'order': order, 'node': None,
            'got': 'tree mutated', 'want': 'tree unchanged',
            'kind': 'tree-mutated'})
    return bad


def judge_config(parents, order, variant, ref, fpath):
    res = cylc_config(parents, order, variant, fpath)
    base = {'leg': 'config', 'parents': parents, 'order': order,
            'variant': variant}
    any_bad_ref = [n for n in order if ref[n] is None or ref[n] == 'CYCLE']
    if isinstance(res, str):
        if any_bad_ref:
            return []
        return [dict(base, node=None, got=res, want='accepted',
                     kind='rejects-consistent')]
    if any_bad_ref:
        n = any_bad_ref[0]
        return [dict(base, node=n, got=res[n][0], want=ref[n],
                     kind=classify(parents, n, res[n][0], ref[n]))]
    bad = []
    for n in order:
        lin, env = res[n]
        if lin != ref[n]:
            bad.append(dict(base, node=n, got=lin, want=ref[n],
                            kind=classify(parents, n, lin, ref[n])))
            continue
        want_env = expected_env(parents, ref[n])
        if env != want_env:
            diff = sorted(
                k for k in set(env) | set(want_env)
                if env.get(k) != want_env.get(k))
            bad.append(dict(
                base, node=n, got={k: env.get(k) for k in diff},
                want={k: want_env.get(k) for k in diff},
                kind='inherited-values-not-in-mro-order'))
    return bad


def signature(b):
    return f"{b['leg']}:{b['kind']}"


def describe(b):
    tree = '; '.join(
        f"{n}({', '.join(b['parents'][n])})" for n in b['order']
        if n != ROOT)
    return (f"[{b['leg']}] hierarchy {tree}: {b['node']} -> cylc "
            f"{b['got']}, Python MRO says {_w(b['want'])}")


def _w(want):
    if want is None:
        return 'TypeError (no consistent MRO: must be rejected)'
    if want == 'CYCLE':
        return 'cyclic (must be rejected)'
    return want


# -------------------------------------------------------------- enumeration

def parent_choices(i, maxlen):
    cands = [ROOT] + [f'N{j}' for j in range(i)]
    out = []
    for ln in range(1, min(maxlen, len(cands)) + 1):
        out.extend(itertools.permutations(cands, ln))
    return out


def _work(job):
    """Depth-first over the parent lists of N<k>..N<n-1> below a fixed prefix
    (choices for N0..N<k-1>). Python classes are built incrementally."""
    n, maxlen, prefix, stride, offsets, scratch, connected = job
    root_cls = type(ROOT, (), {})
    stats = {
        'hierarchies': 0, 'mro_calls': 0, 'multi_parent_nodes': 0,
        'inconsistent_nodes': 0, 'c3_differs_from_dfs': 0,
        'nonredundant_multi': 0, 'config_cases': 0, 'config_rejected': 0,
        'config_variants': {}, 'skipped_relabelled_smaller': 0,
    }
    distinct = set()
    bad = []
    samples = []
    fpath = Path(scratch) / f'c35-{os.getpid()}' / 'flow.cylc'
    fpath.parent.mkdir(parents=True, exist_ok=True)
    names = [f'N{i}' for i in range(n)]
    choice_tab = [parent_choices(i, maxlen) for i in range(n)]
    parents = {ROOT: []}
    classes = {ROOT: root_cls}
    ref = {ROOT: [ROOT]}
    counter = [0]

    def leaf():
        if connected and len(_ancestors(parents, names[-1])) != n + 1:
            stats['skipped_relabelled_smaller'] += 1
            return
        stats['hierarchies'] += 1
        order = [ROOT] + names
        pcopy = {k: list(v) for k, v in parents.items()}
        b = judge_c3(pcopy, order, ref)
        stats['mro_calls'] += len(order)
        last = names[-1]
        # coverage statistics about the last namespace (the others were
        # the "last" of a smaller hierarchy)
        want = ref[last]
        if len(parents[last]) > 1:
            stats['multi_parent_nodes'] += 1
            anc = set(want) if want else _ancestors(parents, last)
            if len(anc) == n + 1:
                stats['nonredundant_multi'] += 1
        if want is None:
            stats['inconsistent_nodes'] += 1
        else:
            distinct.add(tuple(want))
            if want != naive_dfs(parents, last):
                stats['c3_differs_from_dfs'] += 1
                if len(samples) < 2:
                    samples.append({
                        'hierarchy': {k: list(v) for k, v in parents.items()
                                      if k != ROOT},
                        'namespace': last, 'python_mro': want})
        idx = counter[0]
        counter[0] += 1
        if idx % stride in offsets:
            variant = (idx // stride) % 4
            rev = (idx // stride) % 8 >= 4
            corder = list(reversed(order)) if rev else order
            stats['config_cases'] += 1
            key = f'v{variant}{"r" if rev else ""}'
            stats['config_variants'][key] = (
                stats['config_variants'].get(key, 0) + 1)
            cb = judge_config(pcopy, corder, variant, ref, fpath)
            if any(r is None for r in ref.values()):
                stats['config_rejected'] += 1
            b = b + cb
        if b and len(bad) < 200:
            bad.extend(b[:2])

    def rec(i):
        if i == n:
            leaf()
            return
        name = names[i]
        opts = [prefix[i]] if i < len(prefix) else choice_tab[i]
        for ps in opts:
            parents[name] = list(ps)
            if any(ref[p] is None for p in ps):
                ref[name] = None
                classes[name] = None
            else:
                try:
                    cls = type(name, tuple(classes[p] for p in ps), {})
                    classes[name] = cls
                    ref[name] = [c.__name__ for c in cls.__mro__[:-1]]
                except TypeError:
                    classes[name] = None
                    ref[name] = None
            rec(i + 1)
        del parents[name], classes[name], ref[name]

    rec(0)
    try:
        fpath.unlink()
        fpath.parent.rmdir()
    except OSError:
        pass
    return stats, sorted(distinct), bad, samples


def _ancestors(parents, name):
    seen = set()
    todo = [name]
    while todo:
        x = todo.pop()
        if x not in seen:
            seen.add(x)
            todo.extend(parents[x])
    return seen


def jobs_for(n, maxlen, stride, offsets, scratch, connected=False):
    k = max(0, min(4, n - 2))
    tabs = [parent_choices(i, maxlen) for i in range(k)]
    return [
        (n, maxlen, list(prefix), stride, offsets, scratch, connected)
        for prefix in itertools.product(*tabs)
    ]


# ----------------------------------------------------------- cyclic family

def cyclic_cases(n, maxlen):
    """All parent assignments on n namespaces (parents from root + ALL
    namespaces incl. self and later ones) that contain a cycle."""
    names = [f'N{i}' for i in range(n)]
    cands = [ROOT] + names
    opts = []
    for ln in range(1, maxlen + 1):
        opts.extend(itertools.permutations(cands, ln))
    # self-inheritance: (N,) only - permutations never repeat a name
    for combo in itertools.product(opts, repeat=n):
        parents = {ROOT: []}
        for nm, ps in zip(names, combo):
            parents[nm] = list(ps)
        if _has_cycle(parents):
            yield parents


def _has_cycle(parents):
    state = {}

    def go(n):
        if state.get(n) == 1:
            return True
        if state.get(n) == 2:
            return False
        state[n] = 1
        r = any(go(p) for p in parents[n])
        state[n] = 2
        return r
    return any(go(n) for n in parents)


def _reaches_cycle(parents):
    """Names from which a cycle is reachable (no Python classes needed)."""
    on = set()
    for start in parents:
        # start reaches a cycle iff some node reachable from start can
        # reach itself
        reach = _ancestors(parents, start)
        for x in reach:
            if any(x in _ancestors(parents, p) for p in parents[x]):
                on.add(start)
                break
    return on


def cyclic_reference(parents):
    cyc = _reaches_cycle(parents)
    sub = {k: v for k, v in parents.items() if k not in cyc}
    ref = py_reference(sub)
    for k in cyc:
        ref[k] = 'CYCLE'
    return ref


def _work_cyclic(job):
    cases, stride, scratch = job
    fpath = Path(scratch) / f'c35c-{os.getpid()}' / 'flow.cylc'
    fpath.parent.mkdir(parents=True, exist_ok=True)
    bad = []
    n_cfg = 0
    for idx, parents in cases:
        order = list(parents)
        ref = cyclic_reference(parents)
        b = judge_c3(parents, order, ref)
        if idx % stride == 0:
            n_cfg += 1
            b += judge_config(parents, order, 0, ref, fpath)
        if b and len(bad) < 50:
            bad.extend(b[:2])
    try:
        fpath.unlink()
        fpath.parent.rmdir()
    except OSError:
        pass
    return len(cases), n_cfg, bad


# ---------------------------------------------------------------------- run

def run(ctx: Ctx) -> Result:
    import logging
    logging.getLogger('cylc').setLevel(logging.CRITICAL)
    if ctx.quick:
        sizes = [(1, 3), (2, 3), (3, 3), (4, 3), (5, 3)]
        stride = 97
        cyc_n, cyc_stride = 3, 37
    else:
        sizes = [(1, 4), (2, 4), (3, 4), (4, 4), (5, 4), (6, 3)]
        stride = 997
        cyc_n, cyc_stride = 3, 2
    offsets = {0}
    if ctx.seed:
        offsets.add(ctx.seed % stride)
    offsets = sorted(offsets)
    jobs = []
    for n, maxlen in sizes:
        st = stride if n >= 4 else max(1, stride // 50)
        jobs.extend(jobs_for(
            n, maxlen, st, offsets, str(ctx.scratch), connected=(n >= 6)))
    # biggest jobs first
    res = pmap(_work, jobs, ctx.workers, chunksize=4)
    tot = {}
    variants = {}
    distinct = set()
    bad = []
    samples = []
    for stats, dist, b, smp in res:
        for k, v in stats.items():
            if k == 'config_variants':
                for kk, vv in v.items():
                    variants[kk] = variants.get(kk, 0) + vv
            else:
                tot[k] = tot.get(k, 0) + v
        distinct.update(map(tuple, dist))
        bad.extend(b)
        if len(samples) < 6:
            samples.extend(smp[:1])
    # cyclic family
    cyc = list(enumerate(cyclic_cases(cyc_n, 2)))
    for m in range(1, cyc_n):
        cyc.extend((i + len(cyc), p) for i, p in
                   enumerate(cyclic_cases(m, 2)))
    nchunk = max(1, ctx.workers * 2)
    cjobs = [(cyc[i::nchunk], cyc_stride, str(ctx.scratch))
             for i in range(nchunk) if cyc[i::nchunk]]
    cres = pmap(_work_cyclic, cjobs, ctx.workers)
    n_cyc = sum(r[0] for r in cres)
    n_cyc_cfg = sum(r[1] for r in cres)
    for r in cres:
        bad.extend(r[2])

    if not tot.get('inconsistent_nodes'):
        raise HarnessError('no inconsistent hierarchy was enumerated')
    if not tot.get('c3_differs_from_dfs'):
        raise HarnessError('C3 never differed from depth-first order')
    if not tot.get('config_cases') or not tot.get('config_rejected'):
        raise HarnessError('WorkflowConfig leg not exercised')
    if len(variants) < 8:
        raise HarnessError(f'config variants not all exercised: {variants}')

    vios = [Violation(signature(b), describe(b), b) for b in bad]
    cov = {
        'evaluations': tot['mro_calls'] + tot['config_cases'] + n_cyc,
        'distinct_nontrivial': tot['nonredundant_multi'],
        'rule': (
            'evaluations = C3.mro() calls (every namespace of every '
            'hierarchy) + WorkflowConfig builds + cyclic hierarchies; '
            'non-trivial = hierarchies whose last namespace has >= 2 '
            'parents and has every other namespace as an ancestor (not a '
            'relabelled smaller case)'),
        'hierarchies': tot['hierarchies'],
        'size6_hierarchies_skipped_as_relabelled_smaller_cases':
            tot['skipped_relabelled_smaller'],
        'sizes_(namespaces_below_root,max_parents)': [list(s) for s in sizes],
        'multi_parent_hierarchies': tot['multi_parent_nodes'],
        'python_refuses_(no_consistent_mro)': tot['inconsistent_nodes'],
        'c3_differs_from_depth_first_order': tot['c3_differs_from_dfs'],
        'distinct_linearizations': len(distinct),
        'workflowconfig_cases': tot['config_cases'],
        'workflowconfig_cases_with_inconsistent_hierarchy':
            tot['config_rejected'],
        'workflowconfig_variants': variants,
        'workflowconfig_stride': stride,
        'cyclic_hierarchies': n_cyc,
        'cyclic_hierarchies_through_workflowconfig': n_cyc_cfg,
        'samples': samples[:6],
        'exhaustive': True,
    }
    return Result(cov, vios, assumptions=[
        'hierarchies are generated in topological label order (N<i> may '
        'only inherit from root and N<j>, j<i), which reaches every acyclic '
        'hierarchy up to renaming; parent lists have distinct members '
        '(a repeated parent is not judged)',
        'the equivalent Python hierarchy maps root to a class deriving from '
        'object and "no inherit" to inherit = root, as documented',
        'the full WorkflowConfig path (inherit parsing, None-demotion of the '
        'first parent, implicit root, definition order, inherited values) is '
        'exercised on a fixed stride of the hierarchies, C3.mro() on all',
        'cyclic hierarchies: up to 3 namespaces, <= 2 parents each; any '
        'exception counts as rejection in the C3 leg, WorkflowConfigError in '
        'the WorkflowConfig leg',
        'first-parent ancestors / family descendants are not judged here',
    ])


def replay(payload):
    import logging
    import tempfile
    logging.getLogger('cylc').setLevel(logging.CRITICAL)
    parents = {k: list(v) for k, v in payload['parents'].items()}
    order = list(payload['order'])
    if _has_cycle(parents):
        ref = cyclic_reference(parents)
    else:
        ref = py_reference(parents)
    if payload['leg'] == 'c3':
        bad = judge_c3(parents, order, ref)
    else:
        from ..core import scratch_root
        d = Path(tempfile.mkdtemp(dir=scratch_root()))
        bad = judge_config(
            parents, order, payload.get('variant', 0), ref, d / 'flow.cylc')
    return [Violation(signature(b), describe(b), b) for b in bad
            if signature(b) == signature(payload)] or [
        Violation(signature(b), describe(b), b) for b in bad]
