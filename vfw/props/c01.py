"""C01 Graph-faithful execution (Engine A, model checking).

Also carries the monitors of C07 (cycle bounds), C09 (lifecycle) and C26
(pool bookkeeping), which ride along on the same exploration; those
properties have their own modules that reuse this catalogue with their own
extra profiles.
"""
from __future__ import annotations

from ..core import Ctx, Result
from ..sched import catalogue as cat
from ..sched.monitors import (
    CycleBounds, GraphFaithful, Lifecycle, PoolInvariants)
from ..sched.profile import Profile
from ..sched.run import explore_all, replay_violation, result_from

LEVEL = 'model_checking'

ASSUME = [
    'bounded catalogue of graph shapes (see bounds); integer cycling',
    'all jobs on localhost/background; job and command completions are the '
    'environment model of DESIGN.md 3.3 (fused step+message events)',
    'deadlines enter the state as due/pending flags and firing order, not '
    'as distances',
    'outcome alphabet: every finished task completes its required outputs '
    '(failure only where the graph marks success/failure optional)',
]


def outcomes_for(spec) -> dict:
    opt = cat.optional_outputs(spec['sections'])
    out = {}
    for t, o in opt.items():
        if 'succeeded' in o or 'failed' in o:
            out[t] = ['succeeded', 'failed']
    return out


def emit_for(spec) -> str:
    opt = cat.optional_outputs(spec['sections'])
    custom_opt = any(
        o - cat.STD for o in opt.values())
    return 'any' if custom_opt else 'all'


def make_factory(spec):
    def factory():
        return Profile(
            spec,
            monitors=[GraphFaithful, CycleBounds, Lifecycle, PoolInvariants],
            outcomes=outcomes_for(spec), emit=emit_for(spec), jump=())
    return factory


def catalogue(tier):
    return cat.c01_catalogue(tier)


def run(ctx: Ctx) -> Result:
    specs = catalogue(ctx.tier)
    st = explore_all(
        ctx, [make_factory(s) for s in specs],
        max_states=ctx.pick(2500, 20000), max_seconds=ctx.pick(100, 1500))
    return result_from(
        ctx, st, prop='C01',
        bounds={'workflows': [s['name'] for s in specs],
                'tasks<=': 4, 'fcp<=': ctx.pick(3, 4)},
        assumptions=ASSUME, min_states=50)


def replay(payload):
    specs = {s['name']: s for s in catalogue('thorough')}
    return replay_violation(
        payload, lambda pl: make_factory(specs[pl['spec_name']]))
