"""C02 No task instance runs twice in a flow without intervention."""
from __future__ import annotations

from ..core import Ctx, Result
from ..sched import catalogue as cat
from ..sched.catalogue import A, AND, OR, E, N, spec_from
from ..sched.monitors import (
    CycleBounds, Lifecycle, PoolInvariants, SubmitOnce)
from ..sched.profile import Profile
from ..sched.run import explore_all, replay_violation, result_from

LEVEL = 'model_checking'

ASSUME = [
    'bounded catalogue (see bounds); integer cycling; localhost jobs',
    'retry delays released by clock jumps to the earliest retry deadline',
    'no operator intervention in any explored execution',
    'fused job-step+message events; duplicate/late message deviations are '
    "C10's subject",
]


def catalogue(tier: str):
    shapes = dict(cat.basic_shapes())
    R = lambda e=0, s=0: {'retries': {'exec': e, 'sub': s}}   # noqa
    out = [
        # (name, sections, fcp, tasks-extra, fail tasks, submit-fail tasks)
        ('or-noretry', [('P1', shapes['or'])], 1, {}, (), ()),
        ('and-prev', [('P1', [E(AND(A('a'), A('b', -1)), 'b')])], 2, {},
         (), ()),
        ('chain-retry1', [('P1', shapes['chain2'])], 1, {'a': R(1)},
         ('a',), ()),
        ('failopt-retry1', [('P1', shapes['failopt'])], 1, {'a': R(1)},
         ('a',), ()),
        ('chain-subretry1', [('P1', shapes['chain2'])], 1, {'a': R(0, 1)},
         (), ('a',)),
        ('subfail-opt', [('P1', [
            E(A('a', 0, 'submit-failed', True), 'b'),
            E(A('a', 0, 'succeeded', True), 'c')])], 1, {'a': R(0, 1)},
         (), ('a',)),
    ]
    if tier == 'thorough':
        out += [
            ('chain-retry2', [('P1', shapes['chain2'])], 1, {'a': R(2)},
             ('a',), ()),
            ('both-retries', [('P1', shapes['chain2'])], 1, {'a': R(1, 1)},
             ('a',), ('a',)),
            ('failopt-retry1-f2', [('P1', shapes['failopt'])], 2,
             {'a': R(1)}, ('a',), ()),
            ('or-retry', [('P1', shapes['or'])], 1, {'a': R(1)},
             ('a',), ()),
            ('fail-noretry-2c', [('P1', shapes['failopt'])], 2, {},
             ('a',), ()),
        ]
    specs = []
    for name, secs, fcp, tasks, fails, subf in out:
        s = spec_from(secs, 1, fcp, name=name, tasks=tasks)
        s['fail_tasks'] = list(fails)
        s['subfail_tasks'] = list(subf)
        specs.append(s)
    return specs


def make_factory(spec):
    def factory():
        outcomes = {t: ['succeeded', 'failed'] for t in spec['fail_tasks']}
        return Profile(
            spec,
            monitors=[SubmitOnce, lambda: Lifecycle(allow_retry=True),
                      CycleBounds, PoolInvariants],
            outcomes=outcomes, submit_fail=tuple(spec['subfail_tasks']),
            jump=('try',))
    return factory


def run(ctx: Ctx) -> Result:
    specs = catalogue(ctx.tier)
    st = explore_all(
        ctx, [make_factory(s) for s in specs],
        max_states=ctx.pick(2500, 20000), max_seconds=ctx.pick(100, 1500))
    return result_from(
        ctx, st, prop='C02',
        bounds={'workflows': [s['name'] for s in specs],
                'execution retries<=': 2, 'submission retries<=': 1},
        assumptions=ASSUME, min_states=50)


def replay(payload):
    specs = {s['name']: s for s in catalogue('thorough')}
    return replay_violation(
        payload, lambda pl: make_factory(specs[pl['spec_name']]))
