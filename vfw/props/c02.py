"""C02 No task instance runs twice in a flow without intervention."""
from __future__ import annotations

from ..core import Ctx, Result
from ..sched import catalogue as cat
from ..sched.catalogue import A, AND, OR, E, N, spec_from
from ..sched.monitors import (
    CycleBounds, Lifecycle, PoolInvariants, SubmitOnce)
from ..sched.profile import Profile
from ..sched.run import explore_all, replay_violation, result_from

LEVEL = 'model_checking'

ASSUME = [
    'bounded catalogue (see bounds); integer cycling; localhost jobs',
    'retry delays released by clock jumps to the earliest retry deadline',
    'no operator intervention in any explored execution',
    'fused job-step+message events; duplicate/late message deviations are '
    "C10's subject",
]


def catalogue(tier: str):
    shapes = dict(cat.basic_shapes())
    R = lambda e=0, s=0: {'retries': {'exec': e, 'sub': s}}   # noqa
    out = [
        # (name, sections, fcp, tasks-extra, fail tasks, submit-fail tasks)
        ('or-noretry', [('P1', shapes['or'])], 1, {}, (), ()),
        ('and-prev', [('P1', [E(AND(A('a'), A('b', -1)), 'b')])], 2, {},
         (), ()),
        ('chain-retry1', [('P1', shapes['chain2'])], 1, {'a': R(1)},
         ('a',), ()),
        ('failopt-retry1', [('P1', shapes['failopt'])], 1, {'a': R(1)},
         ('a',), ()),
        ('chain-subretry1', [('P1', shapes['chain2'])], 1, {'a': R(0, 1)},
         (), ('a',)),
        ('subfail-opt', [('P1', [
            E(A('a', 0, 'submit-failed', True), 'b'),
            E(A('a', 0, 'succeeded', True), 'c')])], 1, {'a': R(0, 1)},
         (), ('a',)),
    ]
    if tier == 'thorough':
        out += [
            ('chain-retry2', [('P1', shapes['chain2'])], 1, {'a': R(2)},
             ('a',), ()),
            ('both-retries', [('P1', shapes['chain2'])], 1, {'a': R(1, 1)},
             ('a',), ('a',)),
            ('failopt-retry1-f2', [('P1', shapes['failopt'])], 2,
             {'a': R(1)}, ('a',), ()),
            ('or-retry', [('P1', shapes['or'])], 1, {'a': R(1)},
             ('a',), ()),
            ('fail-noretry-2c', [('P1', shapes['failopt'])], 2, {},
             ('a',), ()),
        ]
    specs = []
    for name, secs, fcp, tasks, fails, subf in out:
        s = spec_from(secs, 1, fcp, name=name, tasks=tasks)
        s['fail_tasks'] = list(fails)
        s['subfail_tasks'] = list(subf)
        specs.append(s)
    return specs


class RetryProfile(Profile):
    """Adds the 'accepted by the job runner, then gone without running'
    outcome: the submit command succeeds, the job silently leaves the runner
    (no message), and only a poll reveals the submission failure."""

    POLLS = 2

    def make_world(self):
        w = super().make_world()
        w.n_polls = 0
        return w

    def extra_key(self, w):
        return w.n_polls

    def job_steps(self, w, job):
        steps = super().job_steps(w, job)
        if job.state == 'submitted' and job.key[1] in self.submit_fail:
            steps = steps + ['vanish']
        return steps

    def enabled(self, w):
        evs = super().enabled(w)
        if w.running and w.n_polls < self.POLLS and any(
                j.state == 'submit-failed' and 'vanished' in j.emitted
                for j in w.env.jobs.values()):
            evs.append(('poll',))
        return evs

    def apply(self, w, ev):
        if ev[0] == 'job' and ev[2] == 'vanish':
            job = w.env.jobs[tuple(ev[1])]
            job.state = 'submit-failed'
            job.emitted.append('vanished')   # marker (never a real output)
            w.emit('job_step', job=job.key, what='vanish')
            w.resume()
            return
        if ev[0] == 'poll':
            w.n_polls += 1
            w.command('poll_tasks', tasks=['*/*'])
            w.resume()
            return
        return super().apply(w, ev)


def make_factory(spec):
    def factory():
        outcomes = {t: ['succeeded', 'failed'] for t in spec['fail_tasks']}
        return RetryProfile(
            spec,
            monitors=[SubmitOnce, lambda: Lifecycle(allow_retry=True),
                      CycleBounds, PoolInvariants],
            outcomes=outcomes, submit_fail=tuple(spec['subfail_tasks']),
            jump=('try',))
    return factory


def run(ctx: Ctx) -> Result:
    specs = catalogue(ctx.tier)
    st = explore_all(
        ctx, [make_factory(s) for s in specs],
        max_states=ctx.pick(2500, 20000), max_seconds=ctx.pick(100, 1500))
    return result_from(
        ctx, st, prop='C02',
        bounds={'workflows': [s['name'] for s in specs],
                'execution retries<=': 2, 'submission retries<=': 1},
        assumptions=ASSUME, min_states=50)


def replay(payload):
    specs = {s['name']: s for s in catalogue('thorough')}
    return replay_violation(
        payload, lambda pl: make_factory(specs[pl['spec_name']]))
