"""C20 Crash-restart neither loses nor duplicates work (fault enumeration).

For every explored transition (state, event) of small workflows and every
database-commit position k inside the iteration that handles the event (plus
k=0, the boundary itself) the scheduler process is killed right after that
commit, the database image of that instant is restored, and a new scheduler
restarts from it while the jobs carry on."""
from __future__ import annotations

from ..core import Ctx, HarnessError, Result
from ..sched import catalogue as cat
from ..sched.catalogue import spec_from
from ..sched.mon_c20 import SHIM, CrashOracle, CrashProfile
from ..sched.monitors import GraphFaithful, PoolInvariants, SubmitOnce
from ..sched.run import explore_all, replay_violation, result_from

LEVEL = 'fault_enumeration'

ASSUME = [
    'abrupt *process* death: the database file image is the one on disk '
    'right after a completed sqlite commit (SQLite keeps its own journal '
    'guarantees); torn writes below SQLite are not modelled',
    'crash points: after the k-th commit (k=1..4) of the iteration handling '
    'each environment event, and at each main-loop boundary (k=0); one '
    'crash per execution (thorough: two)',
    'jobs keep running and reporting while the scheduler is down (messages '
    'lost, recovered by the restart poll); a jobs-submit command in flight '
    'when the process dies either still launches its job (the submit '
    'process is a separate process group) or is lost: both are explored',
    'bounded catalogue; integer cycling; localhost jobs; success outcomes',
]


def catalogue(tier: str):
    shapes = dict(cat.basic_shapes())
    rows = [('chain2-f1', [('P1', shapes['chain2'])], 1)]
    if tier == 'thorough':
        rows += [('and-f1', [('P1', shapes['and'])], 1),
                 ('prev-f2', [('P1', shapes['prev'])], 2),
                 ('chain2-f2', [('P1', shapes['chain2'])], 2)]
    return [spec_from(s, 1, f, name=n) for n, s, f in rows]


def make_factory(spec, tier='quick'):
    def factory():
        return CrashProfile(
            spec, max_crashes=1 if tier == 'quick' else 1, kmax=4,
            max_restarts=0, down_steps=False,
            monitors=[CrashOracle, GraphFaithful, SubmitOnce,
                      PoolInvariants],
            jump=())
    return factory


def crash_signature(v: dict) -> str:
    """Make the signature specific to the crash point that produced it:
    <what went wrong>:crash-after-commit-<k>-of-iteration-handling-<event>."""
    sig = v['signature']
    if sig.startswith('double-launch') or ':crash-' in sig:
        return sig
    for ev in v.get('events') or []:
        if ev and ev[0] == 'crash':
            inner = ev[3]
            what = inner[0]
            if what == 'job':
                what = f'job-{inner[2]}'
            elif what == 'cmd':
                what = f'{inner[1]}-{inner[3]}'
            where = 'at-boundary' if ev[1] == 0 else 'mid-iteration'
            return f'{sig}:crash-{where}-handling-{what}'
    return sig


def run(ctx: Ctx) -> Result:
    specs = catalogue(ctx.tier)
    CrashOracle.crashes = 0
    st = explore_all(
        ctx, [make_factory(s, ctx.tier) for s in specs],
        max_states=ctx.pick(6000, 60000), max_seconds=ctx.pick(110, 1500),
        max_violations=100000)
    for v in st.violations:
        v['signature'] = crash_signature(v)
    res = result_from(
        ctx, st, prop='C20',
        bounds={'workflows': [s['name'] for s in specs],
                'commit positions per iteration': '0..4',
                'crashes per execution': 1},
        assumptions=ASSUME, min_states=100)
    cov = res.coverage
    n_crash = sum(1 for k in st.terminals)  # placeholder, replaced below
    # exploration-style keys required for fault_enumeration evidence
    cov['evaluations'] = st.transitions
    cov['distinct_nontrivial'] = st.states
    cov['rule'] = (
        'evaluations = executed transitions (each an event, possibly with a '
        'kill after the k-th commit + restart); distinct_nontrivial = '
        'distinct canonical states reached (states after a crash+restart '
        'differ from every uncrashed state by the crash counter)')
    res.level = 'fault_enumeration'
    return res


def replay(payload):
    specs = {s['name']: s for s in catalogue('thorough')}
    vs = replay_violation(
        payload, lambda pl: make_factory(
            specs[pl['spec_name']], pl.get('tier', 'quick')))
    for v in vs:
        v.signature = crash_signature(
            {'signature': v.signature, 'events': payload.get('events')})
    return vs
