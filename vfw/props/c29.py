"""C29 Manually set outputs behave like naturally completed outputs."""
from __future__ import annotations

from ..core import Ctx, HarnessError, Result
from ..sched import catalogue as cat
from ..sched.catalogue import A, AND, E, N, RefGraph, atoms, spec_from
from ..sched.monitors import PoolInvariants
from ..sched.mon_c29 import COUNTS, SetLikeNatural, SetProfile
from ..sched.run import explore_all, replay_violation, result_from

LEVEL = 'model_checking'

ASSUME = [
    'bounded catalogue (<=3 tasks, final cycle point 1-2, one custom output);'
    ' integer cycling; localhost jobs; all-success jobs that emit their '
    'custom outputs in order',
    'operator alphabet: `set` on ONE instance per command (every instance in '
    'bounds, active, finished or not yet spawned) with --flow=all; outputs in'
    ' {none given, submitted, started, succeeded, failed, custom} (thorough '
    'adds pairs, expired and submit-failed), prerequisites in {all, each own '
    'one, a non-existent one, own+non-existent}; 1 (quick) / 2 (thorough, '
    'smallest graphs) commands per execution offered at every main-loop '
    'boundary',
    'required outputs are read off the graph term: outputs used without `?`;'
    ' --out=skip, --flow=new/none, --wait, family/glob targets are not '
    'generated; xtrigger prerequisites (xtrigger/<label>, xtrigger/all, a '
    'non-existent label) only in the thorough entry `xtrig`, whose xtrigger '
    'function always succeeds when the scheduler calls it',
    'children = instances with an atom on the output in the term '
    '(RefGraph.children); a child that already left the pool earlier in the '
    'run is not expected to be spawned again; outputs that were already '
    'complete before the command are not expected to spawn again',
    'the same child rule is evaluated for every natural output completion, '
    'so forced and natural completion are compared through one reference',
]


def _specs(tier: str):
    shapes = dict(cat.basic_shapes())
    a, b, c = 'a', 'b', 'c'
    rows = [
        # name, sections, fcp, command budget
        ('and', [('P1', shapes['and'])], 1, 1),
        ('custom2', [('P1', [E(AND(A(a, 0, 'x'), A(a)), b)])], 1, 1),
        ('prev1', [('P1', [E(A(a, -1), a)])], 2, 1),
    ]
    if tier == 'thorough':
        rows += [
            ('chain3', [('P1', shapes['chain3'])], 1, 1),
            ('customopt', [('P1', shapes['customopt'])], 1, 1),
            ('subfailopt', [('P1', [E(A(a, 0, 'submit-failed', True), b),
                                    E(A(a, 0, 'succeeded', True), c)])],
             1, 1),
            ('chain2-x2', [('P1', shapes['chain2'])], 1, 2),
            ('xtrig', [('P1', shapes['chain2'])], 1, 1),
        ]
    out = []
    for name, secs, fcp, budget in rows:
        sp = spec_from(secs, 1, fcp, name=name)
        sp['budget'] = budget
        if name == 'xtrig':
            # b also waits for an xtrigger (not part of the graph term)
            sp['graph'] = {'P1': 'a => b\n@x => b'}
            sp['xtriggers'] = {'x': 'echo(succeed=True)'}
            sp['xtrig_tasks'] = {'b': ['x']}
            sp['only_parts'] = ['1/b:pre']
        out.append(sp)
    return out


def instances(spec):
    ref = RefGraph(spec['sections'], spec['icp'], spec['fcp'])
    return sorted((t, p) for t in ref.tasks for p in ref.points[t])


def own_atoms(spec, inst):
    ref = RefGraph(spec['sections'], spec['icp'], spec['fcp'])
    t, p = inst
    out = []
    for e in ref.exprs(t, p):
        for a in atoms(e):
            if not ref.pre_start(a, p):
                k = (a[1], p + a[2], a[3])
                if k not in out:
                    out.append(k)
    return out


def _pre(a):
    return f'{a[1]}/{a[0]}:{a[2]}'


def alphabet(spec, tier):
    """[(partition, 'set', kwargs)] : the whole operator alphabet."""
    out = []
    insts = instances(spec)
    for inst in insts:
        t, p = inst
        tid = f'{p}/{t}'
        base = {'tasks': [tid], 'flow': ['all']}
        custom = sorted(spec.get('tasks', {}).get(t, {}).get('outputs', {}))
        outs = [None, ['succeeded'], ['started'], ['submitted'], ['failed']]
        outs += [[c] for c in custom]
        if spec.get('budget', 1) > 1:
            outs = [['started'], ['failed']]
        elif tier == 'thorough':
            outs += [['expired'], ['submit-failed']]
            outs += [[c, 'succeeded'] for c in custom]
            outs += [['started', 'failed']]
        for o in outs:
            out.append((f'{tid}:out', 'set',
                        {**base, 'outputs': o, 'prerequisites': None}))
        own = own_atoms(spec, inst)
        others = [i for i in insts if i != inst]
        foreign = None
        for (ot, op) in others:
            cand = (ot, op, 'succeeded')
            if cand not in own:
                foreign = cand
                break
        if foreign is None and others:
            foreign = (others[0][0], others[0][1], 'failed')
        pres = [['all']] + [[_pre(a)] for a in own]
        if len(own) > 1:
            pres.append([_pre(a) for a in own])
        if foreign is not None:
            pres.append([_pre(foreign)])
            if own:
                pres.append([_pre(own[0]), _pre(foreign)])
        for lab in spec.get('xtrig_tasks', {}).get(t, ()):
            pres += [[f'xtrigger/{lab}'], ['xtrigger/all'],
                     ['xtrigger/nosuch']]
            if own:
                pres.append([_pre(own[0]), f'xtrigger/{lab}'])
        for pr in pres:
            out.append((f'{tid}:pre', 'set',
                        {**base, 'outputs': None, 'prerequisites': pr}))
    return out


def catalogue(tier: str):
    """One spec per (workflow, partition of the first command)."""
    out = []
    for sp in _specs(tier):
        alpha = alphabet(sp, tier)
        parts = []
        for part, _, _ in alpha:
            if part not in parts:
                parts.append(part)
        for part in parts:
            if sp.get('only_parts') and part not in sp['only_parts']:
                continue
            s = dict(sp)
            s['base'] = sp['name']
            s['part'] = part
            s['tier'] = tier
            s['name'] = f"{sp['name']}#{part}"
            out.append(s)
    return out


def make_factory(spec, tier=None):
    tier = tier or spec.get('tier', 'quick')
    alpha = alphabet(spec, tier)
    first = [(n, kw) for part, n, kw in alpha if part == spec['part']]
    # second command (thorough, smallest graph): a reduced alphabet
    rest = [(n, kw) for part, n, kw in alpha
            if kw['outputs'] in (['succeeded'], ['started'])
            or kw['prerequisites'] == ['all']
            or (kw['outputs'] is None and kw['prerequisites'] is None)]
    budget = spec.get('budget', 1)

    def ops(w):
        return first if w.op_count == 0 else rest

    def factory():
        return SetProfile(
            spec, ops=ops, op_budget=budget,
            monitors=[SetLikeNatural, PoolInvariants], jump=())
    return factory


def run(ctx: Ctx) -> Result:
    specs = catalogue(ctx.tier)
    COUNTS.collect(ctx.scratch)
    st = explore_all(
        ctx, [make_factory(s, ctx.tier) for s in specs],
        max_states=ctx.pick(4000, 40000), max_seconds=ctx.pick(300, 2400))
    counts = COUNTS.collect(ctx.scratch)
    if not st.error and not st.violations:
        # vacuity guards: every clause of the statement was exercised
        need = ['forced:succeeded', 'natural:succeeded', 'obligations']
        prefixes = ['set_out:default:', 'set_out:started:', 'set_out:failed:',
                    'set_pre:all:', 'set_pre:own:', 'set_pre:foreign:',
                    'set_pre:mixed:']
        missing = [k for k in need if not counts.get(k)]
        missing += [p for p in prefixes
                    if not any(k.startswith(p) for k in counts)]
        missing += [w for w in (':active', ':unspawned', ':finished')
                    if not any(k.endswith(w) for k in counts)]
        if missing:
            raise HarnessError(
                f'vacuous exploration: never observed {missing}')
    return result_from(
        ctx, st, prop='C29',
        bounds={'workflows': sorted({s['base'] for s in specs}),
                'profiles': len(specs),
                'operator commands per execution': {
                    s['base']: s.get('budget', 1) for s in specs}},
        assumptions=ASSUME, min_states=100,
        extra_cov={'observations': counts})


def replay(payload):
    specs = {s['name']: s for s in catalogue(payload.get('tier', 'quick'))}
    return replay_violation(
        payload, lambda pl: make_factory(
            specs[pl['spec_name']], pl.get('tier', 'quick')))
