"""C04 Runahead limit is respected and never deadlocks a completable run
(Engine A, model checking of the real Scheduler)."""
from __future__ import annotations

from ..core import Ctx, HarnessError, Result
from ..sched import mon_c04
from ..sched.catalogue import A, AND, E, N, spec_from
from ..sched.mon_c04 import (
    EarlyOpProfile, EarlyProfile, RunaheadLimit, render_hours)
from ..sched.monitors import GraphFaithful, PoolInvariants
from ..sched.run import explore_all, replay_violation, result_from

LEVEL = 'model_checking'

ASSUME = [
    'bounded catalogue (see bounds): 1-3 recurrences of the forms Pn, '
    '+Pm/Pn, R1 over at most 3 tasks; integer cycling, plus datetime '
    'cycling (whole hours) in the thorough tier',
    'every job succeeds (the liveness clause is about runs in which every '
    'task completes); localhost jobs; fused job-step+message events',
    'a "release" is a TaskState.reset that flips is_runahead True->False on '
    'a proxy that is in the pool; proxies being loaded from the database on '
    'restart are not judged (no restarts are explored)',
    'the future-trigger offset of a pooled task is the largest positive '
    'offset on the left of any `=> task` edge of the term (a property of '
    'the task definition, not of the individual cycle point)',
    'when fewer than n+1 recurrence points remain at or after the earliest '
    'pool point, the Pn limit is taken to be the final cycle point',
    'operator alphabet (operator profiles; quick has one with a single '
    '`trigger`): one `stop --cycle-point` or one `trigger` per execution, '
    'offered at every main-loop boundary; the '
    'reference stop point changes when the scheduler has processed the '
    'command; triggered instances are exempt from the moment the command '
    'is accepted; with operator commands only instances still held back by '
    'the limit at the end are judged (flow semantics of re-runs are C02/C08)',
]

DT_ICP = '20200101T0000Z'


def _dt(hours: int) -> str:
    d, h = divmod(hours, 24)
    return f'202001{1 + d:02d}T{h:02d}00Z'


def _rows(tier: str):
    a, b, s = 'a', 'b', 's'
    solo = [N(a)]
    chain = [E(A(a), b)]
    fut = [E(A(a, 1), b), N(a)]
    # (name, sections, fcp, limit, stop)
    rows = [
        ('solo-P1-f3-ra0', [('P1', solo)], 3, 'P0', None),
        ('solo-P1-f4-ra1', [('P1', solo)], 4, 'P1', None),
        ('solo-P1-f3-ra4', [('P1', solo)], 3, 'P4', None),
        ('solo-P2-f5-ra1', [('P2', solo)], 5, 'P1', None),
        ('chain-P1-f3-ra1', [('P1', chain)], 3, 'P1', None),
        ('future-P1-f3-ra0', [('P1', fut)], 3, 'P0', None),
        ('two-P2-oP2-f4-ra1', [('P2', [N(a)]), ('+P1/P2', [N(b)])], 4, 'P1',
         None),
        ('two-P1-P2-f3-ra1', [('P1', [N(a)]), ('P2', [N(b)])], 3, 'P1',
         None),
        ('r1-feed-f3-ra1', [('R1', [E(A(s), a)]),
                            ('P1', [E(A(a, -1), a)])], 3, 'P1', None),
        ('three-f4-ra2', [('R1', [N(s)]), ('P2', [N(a)]),
                          ('+P1/P2', [N(b)])], 4, 'P2', None),
        ('future-and-r1-f3-ra0', [('P1', [N(a), N('x')]),
                                  ('R1', [E(AND(A('x'), A(a, 1)), b)])], 3,
         'P0', None),
        ('solo-P1-f5-ra2-stop3', [('P1', solo)], 5, 'P2', 3),
        ('future-P1-f4-ra1-stop3', [('P1', fut)], 4, 'P1', 3),
    ]
    if tier == 'thorough':
        rows += [
            ('solo-P1-f4-ra2', [('P1', solo)], 4, 'P2', None),
            ('solo-P1-f4-ra3', [('P1', solo)], 4, 'P3', None),
            ('solo-P1-f5-ra4', [('P1', solo)], 5, 'P4', None),
            ('solo-oP2-f6-ra1', [('+P1/P2', solo)], 6, 'P1', None),
            ('chain-P1-f3-ra0', [('P1', chain)], 3, 'P0', None),
            ('chain-P1-f3-ra2', [('P1', chain)], 3, 'P2', None),
            ('chain-P2-f5-ra1', [('P2', chain)], 5, 'P1', None),
            ('future-P1-f3-ra1', [('P1', fut)], 3, 'P1', None),
            ('future-P1-f3-ra2', [('P1', fut)], 3, 'P2', None),
            ('future-P2-f5-ra0', [('P2', [E(A(a, 2), b), N(a)])], 5, 'P0',
             None),
            ('future2-P1-f4-ra0', [('P1', [E(A(a, 2), b), N(a)])], 4, 'P0',
             None),
            ('two-P2-oP2-f4-ra0', [('P2', [N(a)]), ('+P1/P2', [N(b)])], 4,
             'P0', None),
            ('two-P2-oP2-f5-ra2', [('P2', [N(a)]), ('+P1/P2', [N(b)])], 5,
             'P2', None),
            ('two-P2-P3-f7-ra1', [('P2', [N(a)]), ('P3', [N(b)])], 7, 'P1',
             None),
            ('two-P2-P3-f7-ra2', [('P2', [N(a)]), ('P3', [N(b)])], 7, 'P2',
             None),
            ('two-P1-P2-f4-ra1', [('P1', [N(a)]), ('P2', [N(b)])], 4, 'P1',
             None),
            ('two-cross-f4-ra1', [('P1', [N(a)]),
                                  ('P2', [E(A(a), b)])], 4, 'P1', None),
            ('r1-feed-f3-ra0', [('R1', [E(A(s), a)]),
                                ('P1', [E(A(a, -1), a)])], 3, 'P0', None),
            ('r1-solo-f4-ra1', [('R1', [N(s)]), ('P1', [N(a)])], 4, 'P1',
             None),
            ('three-f5-ra1', [('R1', [N(s)]), ('P2', [N(a)]),
                              ('+P1/P2', [N(b)])], 5, 'P1', None),
            ('three-f4-ra3', [('R1', [E(A(s), a)]), ('P2', [N(a)]),
                              ('P3', [N(b)])], 4, 'P3', None),
            ('solo-P1-f5-ra1-stop2', [('P1', solo)], 5, 'P1', 2),
            ('solo-P1-f5-ra4-stop3', [('P1', solo)], 5, 'P4', 3),
            ('chain-P1-f4-ra1-stop2', [('P1', chain)], 4, 'P1', 2),
            ('future-P1-f4-ra0-stop2', [('P1', fut)], 4, 'P0', 2),
            ('two-P2-oP2-f6-ra1-stop4', [('P2', [N(a)]),
                                         ('+P1/P2', [N(b)])], 6, 'P1', 4),
            ('solo-P1-f4-default', [('P1', solo)], 4, None, None),
            ('future-two-P1-f4-ra0', [('P1', [E(A(a, 1), b), E(A(a, 2), 'c'),
                                              N(a)])], 4, 'P0', None),
            ('future-P2-oP2-f5-ra0', [('P2', [N(a)]),
                                      ('+P1/P2', [E(A(a, 1), b)])], 5, 'P0',
             None),
        ]
    return rows


def _dt_rows():
    """Datetime cycling: the term is written in whole hours from the ICP."""
    a, b = 'a', 'b'
    # (name, sections[hours], fcp[hours], limit, stop[hours])
    return [
        ('dt-solo-6h-f24-PT6H', [('P6', [N(a)])], 24, 'PT6H', None),
        ('dt-solo-6h-f24-PT12H', [('P6', [N(a)])], 24, 'PT12H', None),
        ('dt-solo-6h-f18-PT0H', [('P6', [N(a)])], 18, 'PT0H', None),
        ('dt-solo-6h-f24-PT8H', [('P6', [N(a)])], 24, 'PT8H', None),
        ('dt-two-6h-o12h-f24-PT6H', [('P12', [N(a)]),
                                     ('+P6/P12', [N(b)])], 24, 'PT6H', None),
        ('dt-two-6h-12h-f24-PT12H', [('P6', [N(a)]), ('P12', [N(b)])], 24,
         'PT12H', None),
        ('dt-future-6h-f18-PT0H', [('P6', [E(A(a, 6), b), N(a)])], 18,
         'PT0H', None),
        ('dt-solo-6h-f36-P1D-stop18', [('P6', [N(a)])], 36, 'P1D', 18),
        ('dt-solo-6h-f24-P1', [('P6', [N(a)])], 24, 'P1', None),
    ]


def _op_rows(tier: str):
    a, b = 'a', 'b'
    # (name, sections, fcp, limit, ops)
    rows = [
        ('op-chain-P1-f3-ra0-trigger', [('P1', [E(A(a), b)])], 3, 'P0',
         [('force_trigger_tasks', {'tasks': ['2/a'], 'flow': ['all']})]),
    ]
    if tier == 'thorough':
        rows += [
            ('op-solo-P1-f4-ra1', [('P1', [N(a)])], 4, 'P1',
             [('stop', {'mode': None, 'cycle_point': '2'}),
              ('stop', {'mode': None, 'cycle_point': '3'}),
              ('force_trigger_tasks', {'tasks': ['3/a'], 'flow': ['all']}),
              ('force_trigger_tasks', {'tasks': ['1/a'], 'flow': ['all']})]),
            ('op-solo-P1-f5-ra1-trigger-first', [('P1', [N(a)])], 5, 'P1',
             [('force_trigger_tasks', {'tasks': ['1/a'], 'flow': ['all']})]),
            ('op-chain-P1-f3-ra0', [('P1', [E(A(a), b)])], 3, 'P0',
             [('stop', {'mode': None, 'cycle_point': '2'}),
              ('force_trigger_tasks', {'tasks': ['3/b'], 'flow': ['all']}),
              ('force_trigger_tasks', {'tasks': ['1/a'], 'flow': ['all']})]),
            ('op-future-P1-f3-ra0', [('P1', [E(A(a, 1), b), N(a)])], 3, 'P0',
             [('stop', {'mode': None, 'cycle_point': '2'}),
              ('force_trigger_tasks', {'tasks': ['1/b'], 'flow': ['all']})]),
        ]
    return rows


def catalogue(tier: str):
    out = []
    for name, secs, fcp, limit, stop in _rows(tier):
        sched = {}
        if limit is not None:
            sched['runahead limit'] = limit
        extra = {}
        if stop is not None:
            sched['stop after cycle point'] = stop
            extra['stop'] = stop
        sp = spec_from(secs, 1, fcp, name=name, scheduling=sched, **extra)
        sp['kind'] = 'plain'
        out.append(sp)
    if tier == 'thorough':
        for name, secs, fcp, limit, stop in _dt_rows():
            sched = {'runahead limit': limit}
            extra = {}
            if stop is not None:
                sched['stop after cycle point'] = _dt(stop)
                extra['stop'] = _dt(stop)
            sp = spec_from(secs, DT_ICP, _dt(fcp), name=name,
                           scheduling=sched, cycling='gregorian',
                           graph=render_hours(secs), **extra)
            sp['kind'] = 'datetime'
            out.append(sp)
    for name, secs, fcp, limit, ops in _op_rows(tier):
        sp = spec_from(secs, 1, fcp, name=name,
                       scheduling={'runahead limit': limit})
        sp['kind'] = 'op'
        sp['ops'] = ops
        out.append(sp)
    return out


def make_factory(spec):
    kind = spec['kind']

    def factory():
        if kind == 'plain':
            return EarlyProfile(
                spec, monitors=[RunaheadLimit, GraphFaithful, PoolInvariants],
                jump=())
        if kind == 'datetime':
            return EarlyProfile(
                spec, monitors=[RunaheadLimit, PoolInvariants], jump=())
        ops = spec['ops']
        return EarlyOpProfile(
            spec, ops=lambda w: ops, op_budget=1,
            monitors=[lambda: RunaheadLimit(judge_missing=False),
                      PoolInvariants],
            jump=())
    return factory


def run(ctx: Ctx) -> Result:
    specs = catalogue(ctx.tier)
    cdir = ctx.scratch / 'c04-counters'
    cdir.mkdir(parents=True, exist_ok=True)
    mon_c04.COUNTER_DIR = str(cdir)
    st = explore_all(
        ctx, [make_factory(s) for s in specs],
        max_states=ctx.pick(4000, 40000), max_seconds=ctx.pick(600, 3000))
    counts = mon_c04.read_counts(str(cdir))
    if not st.violations and not st.error and not st.capped:
        need = ['releases', 'releases-at-start-up', 'releases-at-limit',
                'releases-with-others-held-back',
                'releases-with-future-offset', 'releases-with-stop-cap',
                'terminals']
        need += ['trigger-commands']
        if ctx.tier == 'thorough':
            need += ['stop-point-commands', 'releases-manual-exempt']
        miss = [k for k in need if not counts.get(k)]
        if miss:
            raise HarnessError(f'vacuous: seam(s) never exercised: {miss}')
        if set(st.terminals) != {'stopped:AUTO'}:
            raise HarnessError(
                f'unexpected terminal kinds without a violation: '
                f'{st.terminals}')
    return result_from(
        ctx, st, prop='C04',
        bounds={'workflows': [s['name'] for s in specs],
                'runahead limits': 'P0..P4' + ctx.pick(
                    '', ', default, PT0H..P1D'),
                'recurrences per workflow<=': 3, 'tasks<=': 3,
                'final point<=': ctx.pick(5, 7),
                'operator commands per execution': 1},
        assumptions=ASSUME, min_states=100,
        extra_cov={'seam_counters': counts,
                   'seam_counters_note': (
                       'observations summed over every execution, including '
                       're-executed prefixes (vacuity guards, not distinct '
                       'cases)')})


def replay(payload):
    specs = {s['name']: s for s in catalogue('thorough')}
    return replay_violation(
        payload, lambda pl: make_factory(specs[pl['spec_name']]))
