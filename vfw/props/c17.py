"""C17 Datetime recurrences agree with brute-force enumeration; caches are
transparent.

Engine B + C.  Recurrence *terms* (every format alternative of
CylcTimeParser.RECURRENCE_FORMAT_REGEXES, absolute / relative / truncated
points, exclusion points and exclusion sequences) are generated from fields
for each calendar mode x cycle point time zone.  The reference meaning of a
term is computed by the harness with its own calendar arithmetic (the one
self-checked in c18.py): the arithmetic progression the form documents, minus
the excluded instants.  The real ISO8601Sequence is then driven through

* every single query (7 methods x a window of query points) on a fresh
  object, and
* every *query history* up to the depth bound over the same methods x a
  smaller set of query points (breadth-first, states deduplicated by the
  contents of the sequence's caches, the history re-executed on a pristine
  object for every transition),

and every answer is compared with the reference list (where the method
documents the set-based answer for that query) and with the answer a fresh
object gives (always: caches must be transparent).
"""
from __future__ import annotations

import signal

from ..core import Ctx, HarnessError, Result, Violation, chunks, pmap
from .c18 import (
    dump_rec, fields_at, instant, iso_setup, read_dump,
    self_check, tz_minutes, tz_str,
)

LEVEL = 'model_checking'

POINT_METHODS = ('is_valid', 'get_next_point', 'get_prev_point',
                 'get_first_point', 'get_nearest_prev_point')
NULLARY = ('get_start_point', 'get_stop_point')
EXTRA = 8          # raw points generated beyond the query window
WINDOW_STEPS = 7   # query window of an unbounded sequence, in steps
UNJUDGED = '~'     # reference gives no verdict for this (method, query)


# --------------------------------------------------------------------------
# reference: durations, points, progressions

DURATIONS = {
    # text: ('fixed', seconds) | ('months', n)
    'PT1H': ('fixed', 3600), 'PT6H': ('fixed', 21600),
    'PT12H': ('fixed', 43200), 'P1D': ('fixed', 86400),
    'P2D': ('fixed', 172800), 'P1W': ('fixed', 604800),
    'PT90M': ('fixed', 5400), 'P1DT6H': ('fixed', 108000),
    'PT18H': ('fixed', 64800), 'PT3H': ('fixed', 10800),
    'PT30M': ('fixed', 1800), 'P3D': ('fixed', 259200),
    'PT24H': ('fixed', 86400), 'PT36H': ('fixed', 129600),
    'P1M': ('months', 1), 'P2M': ('months', 2), 'P1Y': ('months', 12),
}


def add_dur(cal, off, t, dur, k=1):
    """t + k * dur.  Month arithmetic is done on the local fields in the
    workflow time zone; the generator only uses it from days <= 20, where
    the result does not depend on the zone or on clamping rules."""
    kind, n = DURATIONS[dur] if isinstance(dur, str) else dur
    if kind == 'fixed':
        return t + k * n
    y, mo, d, h, mi, s = fields_at(cal, t, off)
    if d > 20:
        raise HarnessError('nominal duration from a late day of month')
    m0 = (y * 12 + (mo - 1)) + k * n
    y2, mo2 = divmod(m0, 12)
    return instant(cal, y2, mo2 + 1, d, h, mi, s, off)


def fmt_point(cal, off, tzname, t, style='std'):
    """Render instant t.  std: cylc's standard form in the workflow zone;
    short: no zone, reduced precision (read in the workflow zone);
    utc: explicit Z; ext: extended format with explicit zone."""
    if style == 'utc':
        y, mo, d, h, mi, s = fields_at(cal, t, 0)
        return f'{y:04d}{mo:02d}{d:02d}T{h:02d}{mi:02d}Z'
    y, mo, d, h, mi, s = fields_at(cal, t, off)
    if s:
        raise HarnessError('sub-minute instant')
    if style == 'std':
        return f'{y:04d}{mo:02d}{d:02d}T{h:02d}{mi:02d}{tzname}'
    if style == 'short':
        if mi:
            return f'{y:04d}{mo:02d}{d:02d}T{h:02d}{mi:02d}'
        return f'{y:04d}{mo:02d}{d:02d}T{h:02d}'
    if style == 'ext':
        return (f'{y:04d}-{mo:02d}-{d:02d}T{h:02d}:{mi:02d}'
                f'{tz_str(off, ext=True)}')
    raise ValueError(style)


def first_at_or_after(cal, off, ctx_t, trunc):
    """First instant >= ctx_t whose local fields match a truncated point.

    trunc = ('T', hh) | ('T-', mm) | ('DD', dd, hh) | ('MMDD', mm, dd, hh)
    """
    y, mo, d, h, mi, s = fields_at(cal, ctx_t, off)
    kind = trunc[0]
    if kind == 'T':
        c = instant(cal, y, mo, d, trunc[1], 0, 0, off)
        return c if c >= ctx_t else c + 86400
    if kind == 'T-':
        c = instant(cal, y, mo, d, h, trunc[1], 0, off)
        return c if c >= ctx_t else c + 3600
    if kind == 'DD':
        c = instant(cal, y, mo, trunc[1], trunc[2], 0, 0, off)
        return c if c >= ctx_t else add_dur(cal, off, c, 'P1M')
    if kind == 'MMDD':
        c = instant(cal, y, trunc[1], trunc[2], trunc[3], 0, 0, off)
        return c if c >= ctx_t else add_dur(cal, off, c, 'P1Y')
    raise ValueError(trunc)


TRUNC_TEXT = {
    'T': lambda t: f'T{t[1]:02d}',
    'T-': lambda t: f'T-{t[1]:02d}',
    'DD': lambda t: f'{t[1]:02d}T{t[2]:02d}',
    'MMDD': lambda t: f'{t[1]:02d}{t[2]:02d}T{t[3]:02d}',
}
TRUNC_IMPLIED = {'T': 'P1D', 'T-': 'PT1H', 'DD': 'P1M', 'MMDD': 'P1Y'}


class Cfg:
    def __init__(self, cal, tz):
        self.cal, self.tz = cal, tz
        self.off = tz_minutes(tz)

    def d(self):
        return dict(cal=self.cal, tz=self.tz, nd=0, fmt='default')

    def label(self):
        return f'{self.cal},tz={self.tz}'

    def fmt(self, t, style='std'):
        return fmt_point(self.cal, self.off, self.tz, t, style)

    def add(self, t, dur, k=1):
        return add_dur(self.cal, self.off, t, dur, k)


def point_text(cfg, spec):
    """Text of a start/end point spec.

    spec = ('abs', t, style) | ('rel', '+PT6H') | ('trunc', trunc)
    """
    if spec[0] == 'abs':
        return cfg.fmt(spec[1], spec[2])
    if spec[0] == 'rel':
        return spec[1]
    return TRUNC_TEXT[spec[1][0]](spec[1])


def rel_value(cfg, base, text):
    """base +/- a chain like '+P1D', '-PT6H', '+P1D+PT6H'."""
    import re
    t = base
    for sign, dur in re.findall(r'([+-])(P[^+-]+)', text):
        t = cfg.add(t, dur, 1 if sign == '+' else -1)
    return t


def resolve(cfg, spec, ctx_t):
    if spec[0] == 'abs':
        return spec[1]
    if ctx_t is None:
        raise LookupError
    if spec[0] == 'rel':
        return rel_value(cfg, ctx_t, spec[1])
    return first_at_or_after(cfg.cal, cfg.off, ctx_t, spec[1])


def render(cfg, term):
    """The recurrence expression of a term."""
    form = term['form']
    n = term.get('n')
    R = 'R' if n is None else f'R{n}'
    S = point_text(cfg, term['start']) if term.get('start') else None
    E = point_text(cfg, term['end']) if term.get('end') else None
    D = term.get('intv')
    text = {
        'S': lambda: S,
        'Rn/S/E': lambda: f'{R}/{S}/{E}',
        'S/D': lambda: f'{S}/{D}',
        'D': lambda: D,
        'D/E': lambda: f'{D}/{E}',
        'Rn/S': lambda: f'{R}/{S}',
        'Rn/S/D': lambda: f'{R}/{S}/{D}',
        'Rn//D': lambda: f'{R}//{D}',
        'Rn/D/E': lambda: f'{R}/{D}/{E}',
        'Rn/D': lambda: f'{R}/{D}',
        'R1': lambda: 'R1',
        'R1//E': lambda: f'R1//{E}',
    }[form]()
    ex = term.get('excl')
    if ex:
        items = [excl_text(cfg, e) for e in ex]
        text += '!' + (items[0] if len(items) == 1
                       else '(' + ','.join(items) + ')')
    return text


def excl_text(cfg, e):
    """e = ('pt', t, style) | ('pt+', t, style, '+PT6H')
    | ('trunc', trunc) | ('seq', t, style, dur) | ('dur', dur)"""
    if e[0] == 'pt':
        return cfg.fmt(e[1], e[2])
    if e[0] == 'pt+':
        return cfg.fmt(e[1], e[2]) + e[3]
    if e[0] == 'trunc':
        return TRUNC_TEXT[e[1][0]](e[1])
    if e[0] == 'seq':
        return cfg.fmt(e[1], e[2]) + '/' + e[3]
    if e[0] == 'dur':
        return e[1]
    raise ValueError(e)


def excl_pred(cfg, e, main_start):
    """Predicate instant -> excluded?"""
    cal, off = cfg.cal, cfg.off
    if e[0] == 'pt':
        return lambda t, x=e[1]: t == x
    if e[0] == 'pt+':
        x = rel_value(cfg, e[1], e[3])
        return lambda t, x=x: t == x
    if e[0] == 'trunc':
        tr = e[1]
        step = TRUNC_IMPLIED[tr[0]]

        def pred(t, tr=tr):
            # t matches the truncated fields (in the workflow zone) and is
            # not before the exclusion sequence's first point
            if t < main_start:
                return False
            return first_at_or_after(cal, off, t, tr) == t
        assert step
        return pred
    if e[0] in ('seq', 'dur'):
        x = e[1] if e[0] == 'seq' else main_start
        dur = e[3] if e[0] == 'seq' else e[1]
        kind, n = DURATIONS[dur]
        if kind != 'fixed':
            raise HarnessError('nominal exclusion sequence')
        return lambda t, x=x, n=n: t >= x and (t - x) % n == 0
    raise ValueError(e)


def reference(cfg, term, icp, fcp):
    """Meaning of a term: dict(raw, excl(set), lo_open, hi_open) or None
    when the term has no documented meaning in this context."""
    form = term['form']
    n = term.get('n')
    D = term.get('intv')
    start = end = None
    try:
        if form in ('S', 'Rn/S/E', 'S/D', 'Rn/S', 'Rn/S/D'):
            start = resolve(cfg, term['start'], icp)
        if form in ('D', 'Rn//D', 'R1'):
            start = icp
        if form in ('Rn/S/E', 'D/E', 'Rn/D/E', 'R1//E'):
            end = resolve(cfg, term['end'], fcp)
        if form == 'Rn/D':
            if fcp is None:
                raise LookupError
            end = fcp
    except LookupError:
        return None
    lo_open = hi_open = False
    if form == 'S':
        D = TRUNC_IMPLIED[term['start'][1][0]]
    if form == 'Rn/S' and n != 1:
        if term['start'][0] != 'trunc':
            return None
        D = TRUNC_IMPLIED[term['start'][1][0]]
    if form in ('R1', 'R1//E') or n == 1:
        raw = [start if start is not None else end]
        return dict(raw=raw, lo_open=False, hi_open=False, step=None,
                    start=raw[0])
    if form == 'Rn/S/E':
        # ISO 8601 format 1: END is the end of the first interval
        if end <= start:
            return None
        D = ('fixed', end - start)
    if start is not None:
        # format 3 (and 1): forwards from START
        if n is None:
            hi_open = True
            hi = (fcp if fcp is not None else
                  cfg.add(max(start, icp), D, WINDOW_STEPS))
            raw = []
            k = 0
            while True:
                t = cfg.add(start, D, k)
                raw.append(t)
                if t > hi and len([x for x in raw if x > hi]) >= EXTRA:
                    break
                k += 1
                if k > 400:
                    return None
        else:
            raw = [cfg.add(start, D, k) for k in range(n)]
    else:
        # format 4: backwards from END
        if n is None:
            lo_open = True
            raw = []
            k = 0
            while True:
                t = cfg.add(end, D, -k)
                raw.append(t)
                if t < icp and len([x for x in raw if x < icp]) >= EXTRA:
                    break
                k += 1
                if k > 400:
                    return None
            raw.reverse()
        else:
            raw = [cfg.add(end, D, -k) for k in range(n)][::-1]
    if any(b <= a for a, b in zip(raw, raw[1:])):
        raise HarnessError(f'reference progression not increasing: {term}')
    return dict(raw=raw, lo_open=lo_open, hi_open=hi_open, step=D,
                start=raw[0])


# --------------------------------------------------------------------------
# term generation

def _contexts(cfg, quick):
    def mk(y, mo, d, h, mi=0):
        return instant(cfg.cal, y, mo, d, h, mi, 0, cfg.off)
    feb = mk(2020, 2, 27, 0)
    ny = mk(2019, 12, 29, 18)
    mid = mk(2020, 1, 10, 6)
    out = {
        'feb': (feb, None),
        'feb-fcp': (feb, feb + 3 * 86400 + 12 * 3600),
        'ny-fcp': (ny, ny + 2 * 86400 + 6 * 3600),
        'mid': (mid, None),
        'mid-fcp': (mid, cfg.add(cfg.add(mid, 'P1M', 5), 'P1D', 2)),
    }
    return out


def terms(cfg, quick):
    """List of (term, context name).  Deterministic."""
    C = _contexts(cfg, quick)
    out = []

    def add(ctx, **kw):
        out.append((kw, ctx))

    FIXED_SMALL = ['PT6H', 'P1D']
    FIXED_ALL = ['PT6H', 'P1D', 'PT12H', 'PT90M', 'P1DT6H', 'P2D']
    nominal = ['P1M'] if quick else ['P1M', 'P1Y', 'P2M']
    styles = ['std', 'short', 'utc', 'ext']

    for cname in ('feb', 'feb-fcp', 'ny-fcp'):
        icp, fcp = C[cname]
        # the year-boundary context uses the small parameter lists
        small = quick or cname == 'ny-fcp'
        fixed_main = FIXED_SMALL if small else FIXED_ALL
        # f4: D
        for D in fixed_main:
            add(cname, form='D', intv=D)
        if cname == 'ny-fcp' and quick:
            continue
        fwd = not (quick and cname == 'feb-fcp')   # forward forms here?
        # f3: S/D with absolute (every notation), relative, truncated START
        for i, D in enumerate(fixed_main if fwd else []):
            s_on = icp + 6 * 3600
            add(cname, form='S/D', start=('abs', s_on, styles[i % 4]), intv=D)
            add(cname, form='S/D', start=('abs', icp - 30 * 3600,
                                          styles[(i + 1) % 4]), intv=D)
            add(cname, form='S/D', start=('rel', '+PT6H'), intv=D)
            add(cname, form='S/D', start=('trunc', ('T', 6)), intv=D)
            if not small:
                add(cname, form='S/D', start=('rel', '+P1D+PT3H'), intv=D)
                add(cname, form='S/D', start=('rel', '-PT6H'), intv=D)
                add(cname, form='S/D', start=('trunc', ('T', 18)), intv=D)
                add(cname, form='S/D', start=('trunc', ('T-', 30)), intv=D)
                add(cname, form='S/D', start=('abs', icp, 'ext'), intv=D)
        # f1: truncated START alone (implied interval)
        for tr in ([('T', 6), ('T', 0), ('T-', 30)] if fwd else []) + (
                [] if small else [('T', 18), ('T', 23), ('T-', 0),
                                  ('T-', 59)]):
            add(cname, form='S', start=('trunc', tr))
        # f7: Rn/S/D, R/S/D ; f8: Rn//D ; f6: Rn/S ; f12: R1
        ns = [1, 3, 5] if small else [1, 2, 3, 5]
        for n in (ns + [None] if fwd else []):
            for D in fixed_main[:2] if small else fixed_main[:4]:
                add(cname, form='Rn/S/D', n=n,
                    start=('abs', icp + 6 * 3600, 'short'), intv=D)
                add(cname, form='Rn/S/D', n=n, start=('trunc', ('T', 6)),
                    intv=D)
                if not small:
                    add(cname, form='Rn/S/D', n=n, start=('rel', '+PT6H'),
                        intv=D)
                    add(cname, form='Rn/S/D', n=n,
                        start=('abs', icp - 86400, 'utc'), intv=D)
                if n is not None:
                    add(cname, form='Rn//D', n=n, intv=D)
            add(cname, form='Rn/S', n=n, start=('trunc', ('T', 6)))
            if not small:
                add(cname, form='Rn/S', n=n, start=('trunc', ('T-', 30)))
        if fwd:
            add(cname, form='Rn/S', n=1, start=('abs', icp + 86400, 'std'))
            add(cname, form='Rn/S', n=1, start=('rel', '+P1D'))
            add(cname, form='Rn/S', n=1, start=('abs', icp + 3600, 'utc'))
        add(cname, form='R1')
        # f2: Rn/S/E (format 1)
        for n in (([3, None] if small else [1, 2, 3, 5, None])
                  if fwd else []):
            add(cname, form='Rn/S/E', n=n,
                start=('abs', icp + 6 * 3600, 'short'),
                end=('abs', icp + 18 * 3600, 'short'))
            if not small:
                add(cname, form='Rn/S/E', n=n, start=('trunc', ('T', 6)),
                    end=('abs', icp + 30 * 3600, 'std'))
                add(cname, form='Rn/S/E', n=n, start=('rel', '+PT6H'),
                    end=('abs', icp + 9 * 3600, 'utc'))
        # format 4: D/E, Rn/D/E, R/D/E, Rn/D, R1//E
        e_abs = icp + 2 * 86400 + 3600        # not aligned with ICP
        e_al = icp + 2 * 86400                # aligned with ICP for 6H/1D
        for D in (fixed_main[:2] if small else fixed_main[:4]):
            if quick and cname == 'feb':
                break       # quick: format 4 in the context with an FCP
            for e, st in ((e_abs, 'short'), (e_al, 'std')):
                add(cname, form='D/E', intv=D, end=('abs', e, st))
                add(cname, form='Rn/D/E', n=None, intv=D, end=('abs', e, st))
                for n in ([3] if small else [1, 2, 4]):
                    add(cname, form='Rn/D/E', n=n, intv=D,
                        end=('abs', e, st))
            if fcp is not None:
                add(cname, form='D/E', intv=D, end=('rel', '-PT1H'))
                add(cname, form='D/E', intv=D, end=('rel', '-P1D'))
                add(cname, form='Rn/D', n=None, intv=D)
                for n in ([3] if small else [1, 2, 4]):
                    add(cname, form='Rn/D', n=n, intv=D)
                    add(cname, form='Rn/D/E', n=n, intv=D,
                        end=('rel', '-PT6H'))
        add(cname, form='R1//E', end=('abs', e_abs, 'short'))
        if fcp is not None:
            add(cname, form='R1//E', end=('rel', '-P1D'))
            add(cname, form='R1//E', end=('rel', '-PT0H'))

    # nominal durations, from mid-month
    for cname in ('mid', 'mid-fcp'):
        icp, fcp = C[cname]
        for D in nominal:
            add(cname, form='D', intv=D)
            add(cname, form='S/D', start=('rel', '+P1D'), intv=D)
            add(cname, form='Rn/S/D', n=4, start=('abs', icp + 86400,
                                                  'short'), intv=D)
            if not quick:
                add(cname, form='Rn//D', n=3, intv=D)
                add(cname, form='S/D', start=('abs', icp - 86400 * 3, 'std'),
                    intv=D)
        add(cname, form='S', start=('trunc', ('DD', 15, 0)))
        add(cname, form='S', start=('trunc', ('DD', 5, 6)))
        add(cname, form='Rn/S', n=3, start=('trunc', ('DD', 12, 0)))
        add(cname, form='S', start=('trunc', ('MMDD', 6, 5, 0)))
        if not quick:
            add(cname, form='S', start=('trunc', ('MMDD', 1, 5, 0)))
            add(cname, form='Rn/S', n=None, start=('trunc', ('DD', 20, 12)))
            add(cname, form='S/D', start=('trunc', ('DD', 15, 0)),
                intv='P2M')
            add(cname, form='S/D', start=('trunc', ('DD', 15, 0)),
                intv='P1D')
        if cname == 'mid' and quick:
            break

    # exclusions on top of a few base shapes
    base = []
    for cname in (('feb',) if quick else ('feb', 'feb-fcp')):
        icp, fcp = C[cname]
        base += [
            (cname, dict(form='D', intv='PT6H')),
            (cname, dict(form='Rn/S/D', n=5, start=('trunc', ('T', 0)),
                         intv='P1D')),
            (cname, dict(form='S/D', start=('trunc', ('T', 6)),
                         intv='PT12H')),
            (cname, dict(form='Rn/D/E', n=6, intv='PT6H',
                         end=('abs', icp + 2 * 86400, 'std'))),
        ]
        if not quick and cname == 'feb':
            base += [
                (cname, dict(form='D', intv='P1D')),
                (cname, dict(form='S', start=('trunc', ('T', 6)))),
                (cname, dict(form='Rn//D', n=6, intv='PT6H')),
                (cname, dict(form='D/E', intv='PT6H',
                             end=('abs', icp + 2 * 86400 + 3600, 'short'))),
                (cname, dict(form='Rn/S/E', n=6,
                             start=('abs', icp, 'short'),
                             end=('abs', icp + 6 * 3600, 'short'))),
            ]
    for cname, b in base:
        icp, fcp = C[cname]
        r = reference(cfg, b, icp, fcp)
        raw = [t for t in r['raw'] if t >= icp]
        step = DURATIONS[r['step']][1] if isinstance(r['step'], str) \
            else r['step'][1]
        last = r['raw'][-1]
        ex = [
            [('pt', raw[1], 'std')],
            [('pt', raw[0], 'short')],
            [('pt', raw[1], 'utc'), ('pt', raw[2], 'ext')],
            [('pt', raw[0], 'std'), ('pt', raw[1], 'std'),
             ('pt', raw[2], 'std')],
            [('pt', raw[1] + 1800, 'std')],            # off-sequence
            [('trunc', ('T', 6))],
            [('seq', raw[1], 'std', 'PT12H')],
            [('pt', raw[3], 'std'), ('trunc', ('T', 0))],
            [('trunc', ('T', 6)), ('trunc', ('T', 18))],
        ]
        if not r['hi_open']:
            ex += [[('pt', last, 'std')],
                   [('pt', last, 'std'), ('pt', last - step, 'std')],
                   [('pt', last - step, 'utc')]]
        if not quick:
            ex += [
                [('pt+', raw[0], 'std', '+PT6H')],
                [('trunc', ('T', 12))],
                [('seq', raw[0], 'short', 'P1D')],
                [('seq', raw[2], 'utc', 'PT18H')],
                [('pt', raw[2], 'std'), ('pt', raw[3], 'std')],
                [('pt', raw[1], 'std'), ('seq', raw[2], 'std', 'P1D')],
                [('trunc', ('T-', 0)), ('pt', raw[1] + 60, 'std')],
            ]
            if not r['hi_open']:
                ex += [[('pt', last, 'std'), ('pt', last - step, 'std'),
                        ('pt', last - 2 * step, 'std')],
                       [('pt', last, 'short'), ('pt', raw[0], 'short')]]
        if b['form'] in ('D', 'Rn//D'):
            # bare-duration exclusion: only where main START is the ICP
            ex += [[('dur', 'PT12H')], [('dur', 'P1D')]]
            if not quick:
                ex += [[('dur', 'PT18H')], [('dur', 'P2D'),
                                            ('pt', raw[1], 'std')]]
        for e in ex:
            add(cname, **dict(b, excl=e))
    return out


# --------------------------------------------------------------------------
# expected answers

def members(cfg, term, ref):
    """(L, excluded raw points)"""
    preds = [excl_pred(cfg, e, ref['start']) for e in term.get('excl') or []]
    L, X = [], []
    for t in ref['raw']:
        (X if any(p(t) for p in preds) else L).append(t)
    return L, X


def expectations(ref, L, icp, fcp, queries):
    """dict (method, q) -> want | UNJUDGED, from the ordered list."""
    raw = ref['raw']
    rawset, Lset = set(raw), set(L)
    lo_known = raw[0]       # the list is complete within [lo_known, hi_known]
    hi_known = raw[-1]

    def in_ctx(t):
        return t >= icp and (fcp is None or t <= fcp)

    def up(q, strict):
        """smallest member > q (>= q)"""
        if q < lo_known and ref['lo_open']:
            return UNJUDGED
        c = [x for x in L if (x > q if strict else x >= q)]
        if c:
            return c[0] if in_ctx(c[0]) else UNJUDGED
        if ref['hi_open']:
            return UNJUDGED
        return None

    def down(q):
        """largest member < q"""
        if q > hi_known and ref['hi_open']:
            return UNJUDGED
        c = [x for x in L if x < q]
        if c:
            return c[-1] if in_ctx(c[-1]) else UNJUDGED
        if ref['lo_open']:
            return UNJUDGED
        return None
    exp = {}
    for q in queries:
        known = lo_known <= q <= hi_known or (
            q < lo_known and not ref['lo_open']) or (
            q > hi_known and not ref['hi_open'])
        exp[('is_valid', q)] = (q in Lset) if (known and in_ctx(q)) \
            else UNJUDGED
        if not in_ctx(q):
            for m in POINT_METHODS[1:]:
                exp[(m, q)] = UNJUDGED
            continue
        exp[('get_next_point', q)] = up(q, True)
        exp[('get_first_point', q)] = up(q, False)
        exp[('get_nearest_prev_point', q)] = down(q)
        # previous point: documented for points of the progression (its
        # use: previous instance of a task) and one step past a bounded end
        onprog = q in rawset
        exp[('get_prev_point', q)] = down(q) if (
            onprog and len(raw) > 1) else UNJUDGED
    # start / stop
    if L:
        exp[('get_start_point', None)] = L[0] if (
            not ref['lo_open'] and in_ctx(L[0])) else UNJUDGED
    else:
        exp[('get_start_point', None)] = None if not (
            ref['lo_open'] or ref['hi_open']) else UNJUDGED
    if ref['hi_open']:
        exp[('get_stop_point', None)] = None if fcp is None else UNJUDGED
    elif L:
        exp[('get_stop_point', None)] = L[-1] if in_ctx(L[-1]) else UNJUDGED
    else:
        exp[('get_stop_point', None)] = UNJUDGED
    return exp


def choose_queries(ref, L, X, icp, fcp, nwide, nhist):
    """(wide query list for single queries, short list for histories)."""
    raw = ref['raw']
    hi = fcp if fcp is not None else None
    inwin = [t for t in raw if t >= icp and (hi is None or t <= hi)]
    if fcp is None and ref['hi_open']:
        inwin = inwin[:WINDOW_STEPS + 1]
    wide = []

    def push(lst, t):
        if t not in lst and t >= icp - 86400 * 2:
            lst.append(t)
    for t in inwin:
        push(wide, t)
        push(wide, t + 60)
        push(wide, t - 60)
    for t in (icp, icp - 3600, raw[0] - 3600, raw[-1] + 3600):
        push(wide, t)
    if fcp is not None:
        push(wide, fcp)
        push(wide, fcp + 3600)
    if ref['step'] and not ref['hi_open']:
        kind, n = (DURATIONS[ref['step']] if isinstance(ref['step'], str)
                   else ref['step'])
        if kind == 'fixed':
            push(wide, raw[-1] + n)
    wide = wide[:nwide]
    # history queries: excluded point, its neighbours, first, off-sequence,
    # last-ish, before-first
    pri = []
    xin = [t for t in X if t in inwin]
    Lin = [t for t in L if t in inwin]
    if xin:
        push(pri, xin[0])
        before = [t for t in Lin if t < xin[0]]
        after = [t for t in Lin if t > xin[0]]
        if before:
            push(pri, before[-1])
        if after:
            push(pri, after[0])
        if len(xin) > 1:
            push(pri, xin[-1])
    for t in Lin[:2]:
        push(pri, t)
    if Lin:
        push(pri, Lin[0] + 60)
        push(pri, Lin[-1])
        push(pri, Lin[len(Lin) // 2])
    push(pri, (inwin[0] if inwin else icp) - 60)
    for t in Lin:
        push(pri, t)
    for t in wide:
        push(pri, t)
    hist = [t for t in pri if t in wide][:nhist]
    return wide, hist


# --------------------------------------------------------------------------
# driving the real sequence

class _Timeout(Exception):
    pass


def _alarm(signum, frame):
    raise _Timeout()


def reset_caches(seq):
    """Return a constructed sequence (and its nested exclusion sequences)
    to the just-constructed state."""
    from cylc.flow.cycling.iso8601 import ISO8601Sequence
    seq._cached_first_point_values = {}
    seq._cached_next_point_values = {}
    seq._cached_valid_point_booleans = {}
    seq._cached_recent_valid_points = []
    seq.is_on_sequence.cache_clear()
    ex = seq.exclusions
    if ex:
        for s in ex.exclusion_sequences:
            if isinstance(s, ISO8601Sequence):
                reset_caches(s)


def cache_state(seq):
    """Hashable projection of all caches of a sequence (recursively)."""
    nested = ()
    ex = seq.exclusions
    if ex:
        nested = tuple(cache_state(s) for s in ex.exclusion_sequences)
    return (
        tuple(sorted(seq._cached_first_point_values.items())),
        tuple(sorted(seq._cached_next_point_values.items())),
        tuple(sorted(seq._cached_valid_point_booleans.items())),
        tuple(str(p) for p in seq._cached_recent_valid_points),
        seq.is_on_sequence.cache_info().currsize,
        nested,
    )


class Driver:
    def __init__(self, cfg: Cfg, text, icp, fcp):
        from cylc.flow.cycling import iso8601
        self.iso = iso8601
        self.cfg = cfg
        self.rec = dump_rec(0, 'default')
        self.args = (text, cfg.fmt(icp),
                     None if fcp is None else cfg.fmt(fcp))
        self.seq = None
        self.points = {}

    def construct(self):
        return self.iso.ISO8601Sequence(*self.args)

    def pristine(self, truly_fresh=False):
        if truly_fresh or self.seq is None:
            self.seq = self.construct()
        else:
            reset_caches(self.seq)
        return self.seq

    def call(self, seq, op):
        m, q = op
        try:
            signal.setitimer(signal.ITIMER_REAL, 20)
            try:
                if q is None:
                    r = getattr(seq, m)()
                else:
                    r = getattr(seq, m)(
                        self.iso.ISO8601Point(self.cfg.fmt(q)))
            finally:
                signal.setitimer(signal.ITIMER_REAL, 0)
        except _Timeout:
            return 'EXC Timeout(20s)'
        except RecursionError:
            return 'EXC RecursionError'
        except Exception as exc:
            return f'EXC {type(exc).__name__}'
        if m == 'is_valid':
            return r if isinstance(r, bool) else f'NONBOOL {r!r}'
        if r is None:
            return None
        v = read_dump(self.rec, self.cfg.cal, str(r))
        return v[0] if v else f'UNREADABLE {r}'

    def run_history(self, hist, truly_fresh=False):
        """Execute ops on a pristine object; return list of results and the
        object."""
        seq = self.pristine(truly_fresh)
        return [self.call(seq, op) for op in hist], seq


def feature(method, got, want, L, X, raw):
    """Root-cause class of a wrong point answer, computed from the answer."""
    if isinstance(got, str):
        return 'raises-' + got.split()[-1] if got.startswith('EXC') \
            else 'unreadable-result'
    if got is None:
        return 'none-instead-of-point'
    if got in X:
        return 'returns-excluded-point'
    if got not in raw and got not in L:
        return 'returns-off-sequence-point'
    if want is None:
        return 'point-instead-of-none'
    return 'returns-wrong-member'


def violation_record(cfgd, text, icp_s, fcp_s, hist, op, got, want, fresh,
                     kind, L, X, raw, form, qs):
    m = op[0]
    if kind == 'reference':
        if m == 'is_valid':
            if got is True:
                feat = ('true-for-excluded-point' if op[1] in X
                        else 'true-for-non-member')
            elif got is False:
                feat = 'false-for-member'
            else:
                feat = feature(m, got, want, L, X, raw)
        else:
            feat = feature(m, got, want, L, X, raw)
        sig = f'fresh:{m}:{feat}'
    else:
        same = 'same-query' if any(h[1] == op[1] for h in hist) \
            else 'other-query'
        sig = (f"history-dependent:{'>'.join(h[0] for h in hist)}>{m}:"
               f"{same}")
    return dict(
        sig=sig, cfg=cfgd, text=text, icp=icp_s, fcp=fcp_s,
        hist=[[h[0], h[1]] for h in hist], op=[op[0], op[1]], got=got,
        want=want, fresh=fresh, kind=kind, L=L[:40], X=X[:40], raw=raw[:60],
        form=form, qtext=qs)


def explore(drv: Driver, ops, exp, depth, L, X, raw, form, budget=None):
    """Breadth-first over query histories.  Returns stats and violations."""
    cfgd = drv.cfg.d()
    text, icp_s, fcp_s = drv.args
    bads = []
    fresh = {}
    states = set()
    transitions = 0
    histories = 0

    def qs(op):
        return None if op[1] is None else drv.cfg.fmt(op[1])
    # level 0: single queries on pristine objects
    seq0 = drv.pristine()
    states.add(cache_state(seq0))
    frontier = [()]
    for level in range(depth):
        nxt = []
        for h in frontier:
            for op in ops:
                res, seq = drv.run_history(h + (op,))
                got = res[-1]
                transitions += 1
                histories += 1
                if level == 0:
                    fresh[op] = got
                want = exp.get(op, UNJUDGED)
                if level == 0:
                    # agreement with the enumerated list
                    if want != UNJUDGED and got != want:
                        bads.append(violation_record(
                            cfgd, text, icp_s, fcp_s, h, op, got, want,
                            got, 'reference', L, X, raw, form, qs(op)))
                elif got != fresh[op]:
                    # the answer depends on the queries made before
                    bads.append(violation_record(
                        cfgd, text, icp_s, fcp_s, h, op, got, want,
                        fresh[op], 'transparency', L, X, raw, form, qs(op)))
                if level + 1 < depth:
                    key = cache_state(seq)
                    if key not in states:
                        states.add(key)
                        nxt.append(h + (op,))
        frontier = nxt
    return dict(states=len(states), transitions=transitions,
                histories=histories, bads=bads, fresh=fresh)


# --------------------------------------------------------------------------

def judge_term(cfg: Cfg, term, cname, depth, nwide, nhist, check_reset):
    """Everything for one (term, context) in one configuration."""
    icp, fcp = _contexts(cfg, True)[cname]
    text = render(cfg, term)
    ref = reference(cfg, term, icp, fcp)
    out = dict(text=text, status='ok', bads=[], states=0, transitions=0,
               histories=0, single=0, form=term['form'], members=0,
               excluded=0)
    if ref is None:
        out['status'] = 'no-meaning'
        return out
    L, X = members(cfg, term, ref)
    if ref['hi_open']:
        tail = ref['raw'][-6:]
        if len([t for t in tail if t in set(L)]) < 2:
            out['status'] = 'degenerate'     # whole tail excluded: may hang
            return out
    out['members'] = len(L)
    out['excluded'] = len(X)
    drv = Driver(cfg, text, icp, fcp)
    try:
        signal.setitimer(signal.ITIMER_REAL, 20)
        try:
            drv.pristine(truly_fresh=True)
        finally:
            signal.setitimer(signal.ITIMER_REAL, 0)
    except _Timeout:
        out['status'] = 'rejected'
        return out
    except Exception as exc:
        out['status'] = 'rejected'
        out['why'] = f'{type(exc).__name__}'
        return out
    wide, hq = choose_queries(ref, L, X, icp, fcp, nwide, nhist)
    exp = expectations(ref, L, icp, fcp, wide)
    # 1. every single query on a pristine object (wide window)
    ops_wide = [(m, q) for q in wide for m in POINT_METHODS] + [
        (m, None) for m in NULLARY]
    r1 = explore(drv, ops_wide, exp, 1, L, X, ref['raw'], term['form'])
    out['single'] = r1['transitions']
    out['bads'] += r1['bads']
    # 2. query histories (short query list)
    ops = [(m, q) for q in hq for m in POINT_METHODS] + [
        (m, None) for m in NULLARY]
    if depth > 1:
        r2 = explore(drv, ops, exp, depth, L, X, ref['raw'], term['form'])
        out['states'] = r2['states']
        out['transitions'] = r2['transitions']
        out['histories'] = r2['histories']
        out['bads'] += r2['bads']
    # 3. harness self-check: a reset object behaves like a newly
    # constructed one (answers and cache contents), on every single query
    if check_reset:
        for op in ops:
            a, sa = drv.run_history((op,))
            ka = cache_state(sa)
            b, sb = drv.run_history((op,), truly_fresh=True)
            if a != b or ka != cache_state(sb):
                raise HarnessError(
                    f'reset object differs from a new object: {text} {op}')
    judged = sum(1 for k, v in exp.items() if v != UNJUDGED)
    out['judged'] = judged
    out['unjudged'] = len(exp) - judged
    out['sample'] = dict(
        recurrence=text, icp=drv.args[1], fcp=drv.args[2],
        reference_points=[cfg.fmt(t) for t in L[:6]],
        excluded=[cfg.fmt(t) for t in X[:4]],
        history_queries=[cfg.fmt(t) for t in hq])
    return out


def configs(ctx: Ctx):
    return [(cal, tz) for cal in ('gregorian', '360day', '365day', '366day')
            for tz in ('Z', '+0530')]


def bounds(quick):
    # (history depth, wide queries, history queries)
    return (2, 30, 6) if quick else (2, 36, 6)


def _work(job):
    cal, tz, idxs, quick = job
    signal.signal(signal.SIGALRM, _alarm)
    cfg = Cfg(cal, tz)
    iso_setup(cfg.d())
    tl = terms(cfg, quick)
    depth, nwide, nhist = bounds(quick)
    res = []
    for i in idxs:
        term, cname = tl[i]
        d = depth
        nh = nhist
        if not quick and i % 8 == CONFIG_INDEX[(cal, tz)]:
            # each term gets the deep exploration in one configuration
            d, nh = 3, 4
        r = judge_term(cfg, term, cname, d, nwide, nh,
                       check_reset=(i % 10 == 0))
        r['idx'] = i
        r['depth'] = d
        res.append(r)
    return (cal, tz), res


CONFIG_INDEX = {
    (cal, tz): k for k, (cal, tz) in enumerate(
        (cal, tz) for cal in ('gregorian', '360day', '365day', '366day')
        for tz in ('Z', '+0530'))}


def run(ctx: Ctx) -> Result:
    self_check()
    cfgs = configs(ctx)
    nterms = len(terms(Cfg('gregorian', 'Z'), ctx.quick))
    jobs = []
    per = max(1, ctx.workers * 3 // len(cfgs))
    for cal, tz in cfgs:
        if len(terms(Cfg(cal, tz), ctx.quick)) != nterms:
            raise HarnessError('term catalogue differs between configs')
        for ch in chunks(range(nterms), per):
            jobs.append((cal, tz, ch, ctx.quick))
    out = pmap(_work, jobs, ctx.workers)
    vios = []
    stat = dict(ok=0, rejected=0, degenerate=0)
    stat['no-meaning'] = 0
    states = transitions = histories = single = judged = unjudged = 0
    forms = {}
    samples = []
    deep = 0
    per_sig = {}
    rejected_samples = []
    for (cal, tz), res in out:
        for r in res:
            stat[r['status']] += 1
            if r['status'] == 'rejected' and len(rejected_samples) < 12:
                rejected_samples.append(
                    f"{r['text']} [{cal},{tz}]: {r.get('why')}")
            if r['status'] != 'ok':
                continue
            f = forms.setdefault(r['form'], [0, 0])
            f[0] += 1
            f[1] += 1 if r['excluded'] else 0
            states += r['states']
            transitions += r['transitions']
            histories += r['histories']
            single += r['single']
            judged += r['judged']
            unjudged += r['unjudged']
            deep += 1 if r['depth'] == 3 else 0
            if r['idx'] % max(1, nterms // 5) == 0 and len(samples) < 10 \
                    and cal == 'gregorian':
                samples.append(dict(r['sample'], config=f'{cal},{tz}'))
            for b in r['bads']:
                n = per_sig.setdefault(b['sig'], 0)
                per_sig[b['sig']] = n + 1
                if n < 3:
                    vios.append(Violation(b['sig'], describe(b), b))
    for v in vios:
        v.what += f" [{per_sig[v.signature]} case(s) in this run]"
    need = ['S', 'Rn/S/E', 'S/D', 'D', 'D/E', 'Rn/S', 'Rn/S/D', 'Rn//D',
            'Rn/D/E', 'Rn/D', 'R1', 'R1//E']
    for f in need:
        if not forms.get(f) or not forms[f][0]:
            raise HarnessError(f'recurrence form {f} never accepted/judged')
    if stat['ok'] < 0.7 * sum(stat.values()):
        raise HarnessError(f'too few terms judged: {stat} '
                           f'{rejected_samples[:5]}')
    if not sum(v[1] for v in forms.values()):
        raise HarnessError('no term with effective exclusions')
    depth = bounds(ctx.quick)[0]
    cov = {
        'states': states,
        'transitions': transitions + single,
        'traces_validated_against_impl': histories + single,
        'history_depth': 3 if deep else depth,
        'history_depth_every_sequence': depth,
        'sequences_explored_to_depth_3': deep,
        'single_queries_on_fresh_objects': single,
        'history_transitions': transitions,
        'sequences': stat['ok'],
        'terms_per_configuration': nterms,
        'configurations': [f'{c},{t}' for c, t in cfgs],
        'accepted_and_judged': stat['ok'],
        'rejected_by_cylc_not_judged': stat['rejected'],
        'rejected_samples': rejected_samples,
        'degenerate_skipped': stat['degenerate'],
        'no_documented_meaning_skipped': stat['no-meaning'],
        'judged_method_query_pairs': judged,
        'unjudged_method_query_pairs': unjudged,
        'forms_judged_[all,with_exclusions]': forms,
        'samples': samples,
        'exhaustive': True,
    }
    return Result(cov, vios, assumptions=ASSUMPTIONS)


def describe(b):
    h = ''.join(f"{m}({q and _qt(b, q)}); " for m, q in b['hist'])
    q = b['qtext']
    base = (f"[{b['cfg']['cal']},tz={b['cfg']['tz']}] "
            f"ISO8601Sequence({b['text']!r}, {b['icp']!r}, {b['fcp']!r}): "
            f"{h}{b['op'][0]}({q if q else ''}) = {_show(b, b['got'])}")
    if b['kind'] == 'reference':
        return base + (f"; the enumerated recurrence minus exclusions says "
                       f"{_show(b, b['want'])}")
    return base + (f"; the same query on a fresh object gives "
                   f"{_show(b, b['fresh'])}")


def _qt(b, q):
    cfg = Cfg(b['cfg']['cal'], b['cfg']['tz'])
    return cfg.fmt(q)


def _show(b, v):
    if isinstance(v, int) and not isinstance(v, bool):
        return _qt(b, v)
    return v


ASSUMPTIONS = [
    'decided for the generated terms, contexts, query windows and history '
    'depth only; nothing is sampled',
    'ISO8601Sequence is not clipped to the initial/final cycle point by '
    'design (unlike integer sequences), so a (method, query) pair is judged '
    'against the list only when the query and the expected answer lie '
    'within [ICP, FCP]; None is expected only where the recurrence itself '
    'ends; every answer (judged or not) must still equal the answer of a '
    'fresh object',
    'get_prev_point is judged for queries on the un-excluded progression '
    '(its documented use); get_stop_point of an unbounded recurrence is '
    'judged (None) only without a final cycle point',
    'format 1 (Rn/START/END) has the ISO 8601 meaning: END is the end of '
    'the first interval; format 4 without repetitions (INTV/END) counts '
    'back from END',
    'a truncated START means the first matching instant at or after the '
    'initial cycle point in the cycle point time zone, with the implied '
    'interval of its largest truncated unit; truncated END points, week '
    'and ordinal-date truncations, min() and chained offsets on truncated '
    'points are not generated',
    'month/year intervals are only generated from days <= 20 of a month '
    '(no end-of-month clamping, result independent of time zone)',
    'a bare-duration exclusion (!PT12H) is only generated where the main '
    'sequence starts at the initial cycle point; truncated and '
    'absolute-start exclusion sequences everywhere',
    'unbounded sequences whose whole tail is excluded are skipped (no '
    'documented answer; the real code may not terminate)',
    'context points and query points are passed in standard form in the '
    'cycle point time zone (as the scheduler does); points inside the '
    'recurrence expression use several notations and zones',
    'history exploration re-executes each history on the same sequence '
    'object after returning its caches (and those of nested exclusion '
    'sequences) to the constructed state; a self-check compares this with '
    'newly constructed objects',
]


def replay(payload):
    self_check()
    signal.signal(signal.SIGALRM, _alarm)
    b = payload
    cfg = Cfg(b['cfg']['cal'], b['cfg']['tz'])
    iso_setup(cfg.d())
    from cylc.flow.cycling import iso8601
    rec = dump_rec(0, 'default')

    def call(seq, op):
        m, q = op
        try:
            signal.setitimer(signal.ITIMER_REAL, 20)
            try:
                r = getattr(seq, m)() if q is None else getattr(seq, m)(
                    iso8601.ISO8601Point(cfg.fmt(q)))
            finally:
                signal.setitimer(signal.ITIMER_REAL, 0)
        except _Timeout:
            return 'EXC Timeout(20s)'
        except RecursionError:
            return 'EXC RecursionError'
        except Exception as exc:
            return f'EXC {type(exc).__name__}'
        if m == 'is_valid':
            return r if isinstance(r, bool) else f'NONBOOL {r!r}'
        if r is None:
            return None
        v = read_dump(rec, cfg.cal, str(r))
        return v[0] if v else f'UNREADABLE {r}'
    op = tuple(b['op'])
    hist = [tuple(h) for h in b['hist']]
    seq = iso8601.ISO8601Sequence(b['text'], b['icp'], b['fcp'])
    for h in hist:
        call(seq, h)
    got = call(seq, op)
    fresh = call(iso8601.ISO8601Sequence(b['text'], b['icp'], b['fcp']), op)
    if b['kind'] == 'reference':
        if got == b['want']:
            return []
    elif got == fresh:
        return []
    nb = violation_record(
        b['cfg'], b['text'], b['icp'], b['fcp'], hist, op, got, b['want'],
        fresh, b['kind'], b['L'], b['X'], b['raw'], b['form'], b['qtext'])
    return [Violation(nb['sig'], describe(nb), nb)]
