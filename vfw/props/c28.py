"""C28 Group trigger runs each member once, honouring in-group order."""
from __future__ import annotations

import itertools

from ..core import Ctx, HarnessError, Result
from ..sched import catalogue as cat
from ..sched.catalogue import A, AND, E, N, RefGraph, spec_from
from ..sched.monitors import PoolInvariants
from ..sched.mon_c28 import (
    COUNTS, GroupTrigger, TriggerProfile, prep_window_members)
from ..sched.run import explore_all, replay_violation, result_from

LEVEL = 'model_checking'

ASSUME = [
    'bounded catalogue (<=3 tasks, final cycle point 1-2); integer cycling; '
    'localhost jobs; jobs succeed and emit their custom outputs in order, '
    'except the tasks listed as failing in a catalogue entry',
    'operator alphabet: force_trigger_tasks on every subset of the instances '
    'in bounds of size <=2 (quick) / <=3 (thorough) - active, finished or '
    'not yet spawned - with --flow=all (quick) plus new, none and an unused '
    'number (thorough); 1 command per execution (2 in the repeated-trigger '
    'entry), offered at every main-loop boundary; hold/pause/queue-limit '
    'entries in thorough (hold point before the first cycle, paused start '
    'with an optional resume, default queue limit 1)',
    '"start first" is judged as: a group-start member without a live job has '
    'begun job preparation by the end of the main-loop iteration that '
    'executed the trigger; the queue exception is judged one way only (a '
    'member may stay queued only if it was unqueued and its queue, counting '
    'the other group-start members of the same trigger, was full)',
    'in-group prerequisites of other members must be satisfied by outputs '
    'really produced (environment ground truth) by the current run of the '
    'upstream member: a job submitted after the trigger or the live job of a '
    'group-start member',
    '--flow=none on a group-start member that is active in a flow is ignored '
    'by cylc with a warning: such members are not judged; members that are '
    'not group-start are not judged for liveness while held or paused',
    'the flows of a trigger = flow numbers allocated while the command '
    'was executed + flows of its group-start members right after it; runs of '
    'a member in other flows are natural runs of those flows and are not '
    'counted; with --flow=new/N members other than group-start ones are not '
    'judged for liveness if any member was active in another flow (the '
    'flows merge); a trigger executed while the scheduler is already '
    'shutting down is not judged',
    'a trigger that would remove a member (one with in-group prerequisites) '
    'whose job submission command is queued but not yet started is only '
    'issued in the dedicated `chain2-prepwin` / `xcycle-prepwin` entries '
    '(in job preparation = submission command queued or running): there '
    'the abandoned job '
    'is submitted nevertheless (known finding '
    'removed-preparing-member-job-still-submitted) and that finding would '
    'otherwise cut the search of every other entry short',
    'after the latest trigger naming it a member may be submitted at most '
    'once in the flows of that trigger (no retries configured); a job whose '
    'kill command is pending makes no further progress (late messages of '
    'orphaned jobs belong to C10)',
]


def _specs(tier: str):
    shapes = dict(cat.basic_shapes())
    a, b, c = 'a', 'b', 'c'
    flows_q = ['all']
    flows_t = ['all', 'new', 'none', '2']
    rows = [
        # name, sections, fcp, max subset, flows, extra, failing, budget
        ('chain3', [('P1', shapes['chain3'])], 1, 2, flows_q, {}, (), 1),
        ('start', [('P1', shapes['start'])], 1, 2, flows_q, {}, (), 1),
        ('and-bfail', [('P1', shapes['and'])], 1, 2, flows_q, {}, ('b',), 1),
    ]
    # the only entry in which a trigger may remove a member whose job
    # submission command is queued but not yet started (known finding)
    prepwin = ('chain2-prepwin', [('P1', shapes['chain2'])], 1, 2, flows_q,
               {'only_parts': ['1/a+1/b'], 'prepwin': True}, (), 1)
    rows.append(prepwin)
    # in-group order across cycles: the downstream member may already be in
    # the pool (partially satisfied by 2/c) when the group is triggered
    xcyc = ('xcycle-f2', [('P1', [E(AND(A(a, -1), A(c)), b), N(a)])], 2, 2,
            flows_q, {'only_parts': ['1/a+2/b'],
                      'scheduling': {'runahead limit': 'P0'}}, (), 1)
    rows.append(xcyc)
    if tier == 'thorough':
        rows = [
            ('chain3', [('P1', shapes['chain3'])], 1, 3, flows_t, {}, (), 1),
            ('start', [('P1', shapes['start'])], 1, 2, flows_t, {}, (), 1),
            ('and-bfail', [('P1', shapes['and'])], 1, 3, flows_q, {},
             ('b',), 1),
            ('fanout-q1', [('P1', shapes['fanout'])], 1, 2, flows_q,
             {'queues': {'default': {'limit': 1}}}, (), 1),
            ('custom', [('P1', shapes['custom'])], 1, 2, flows_q, {}, (), 1),
            ('prev-f2', [('P1', shapes['prev'])], 2, 2, ['all', 'new'], {},
             (), 1),
            ('chain3-paused', [('P1', shapes['chain3'])], 1, 2, flows_q,
             {'options': {'paused_start': True}, 'resume': True}, (), 2),
            ('chain3-pause1', [('P1', shapes['chain3'])], 1, 2, flows_q,
             {'pre_op': ('pause', {}), 'resume': True}, (), 3),
            ('chain3-held', [('P1', shapes['chain3'])], 1, 2, flows_q,
             {'pre_op': ('hold', {'tasks': ['1/a', '1/b', '1/c']})}, (), 2),
            ('chain3-holdpt', [('P1', shapes['chain3'])], 1, 2, flows_q,
             {'options': {'holdcp': '0'}}, (), 1),
            prepwin,
            # (flow=all only: with --flow=new, members pooled in the old
            # flow in other cycles are re-flowed or merged member by member,
            # which the statement does not decide)
            ('xcycle-prepwin', xcyc[1], 2, 2, flows_q,
             {'scheduling': {'runahead limit': 'P0'},
              'only_parts': ['2/b+2/c'], 'prepwin': True}, (), 1),
            (xcyc[0], xcyc[1], 2, 2, flows_q,
             {'scheduling': {'runahead limit': 'P0'}, 'only_parts': ['1/a+2/b', '2/b+2/c', '1/a+2/a', '1/b+2/b',
                             '1/c+2/b']},
             (), 1),
            ('chain2-x2', [('P1', shapes['chain2'])], 1, 1, ['all', 'new'],
             {}, (), 2),
            # the whole group twice; events settle between commands
            ('chain2-x2g', [('P1', shapes['chain2'])], 1, 2, ['all'],
             {'only_parts': ['1/a+1/b'], 'macro': True}, (), 2),
        ]
    out = []
    for name, secs, fcp, size, flows, extra, fails, budget in rows:
        sp = spec_from(secs, 1, fcp, name=name, **extra)
        sp.update(max_subset=size, flows=flows, fail_tasks=list(fails),
                  budget=budget)
        out.append(sp)
    return out


def instances(spec):
    ref = RefGraph(spec['sections'], spec['icp'], spec['fcp'])
    return sorted((t, p) for t in ref.tasks for p in ref.points[t])


def alphabet(spec):
    """[(partition, name, kwargs)]"""
    out = []
    insts = instances(spec)
    for k in range(1, spec['max_subset'] + 1):
        for sub in itertools.combinations(insts, k):
            ids = [f'{p}/{t}' for t, p in sub]
            for fl in spec['flows']:
                out.append(('+'.join(ids), 'force_trigger_tasks',
                            {'tasks': ids, 'flow': [fl]}))
    return out


def catalogue(tier: str):
    out = []
    for sp in _specs(tier):
        parts = []
        for part, _, _ in alphabet(sp):
            if part not in parts:
                parts.append(part)
        for part in parts:
            if sp.get('only_parts') and part not in sp['only_parts']:
                continue
            s = dict(sp)
            s['base'] = sp['name']
            s['part'] = part
            s['tier'] = tier
            s['name'] = f"{sp['name']}#{part}"
            out.append(s)
    return out


def make_factory(spec, tier=None):
    alpha = alphabet(spec)
    first = [(n, kw) for part, n, kw in alpha if part == spec['part']]
    pre = spec.get('pre_op')          # issued at the first boundary only
    if spec.get('resume'):
        rest = [('resume', {})]
    else:
        # a repeated trigger of the same group, default flow
        rest = [(n, kw) for n, kw in first if kw['flow'] == ['all']]
    budget = spec.get('budget', 1)

    ref = RefGraph(spec['sections'], spec['icp'], spec['fcp'])

    def ops(w):
        k = w.op_count
        if pre is not None:
            if k == 0:
                return [tuple(pre)] if w.iterations == 1 else []
            k -= 1
        cand = first if k == 0 else rest
        if not spec.get('prepwin'):
            # known finding (C28-findings.json): confined to the dedicated
            # `prepwin` entry so that it does not cut the other searches
            cand = [(n, kw) for n, kw in cand
                    if n != 'force_trigger_tasks'
                    or not prep_window_members(w, ref, kw['tasks'])]
        return cand

    def factory():
        outcomes = {t: ['failed'] for t in spec['fail_tasks']}
        return TriggerProfile(
            spec, ops=ops, op_budget=budget, outcomes=outcomes,
            macro=bool(spec.get('macro')),
            monitors=[GroupTrigger, PoolInvariants], jump=())
    return factory


def run(ctx: Ctx) -> Result:
    specs = catalogue(ctx.tier)
    COUNTS.collect(ctx.scratch)
    st = explore_all(
        ctx, [make_factory(s) for s in specs],
        max_states=ctx.pick(4000, 40000), max_seconds=ctx.pick(300, 2400))
    counts = COUNTS.collect(ctx.scratch)
    # (violations cut searches short: the guards only make sense without
    # them; the known finding is confined to its own tiny entry)
    others = [v for v in st.violations if v['signature'] not in (
        'removed-preparing-member-job-still-submitted',
        'member-never-ran:inner:removed-while-jobs-submit-in-flight')]
    if not st.error and not others:
        need = ['member:inner:inactive', 'member:start:live',
                'inner_member_prepared', 'start_member_started_at_once']
        if ctx.tier == 'thorough':
            need += ['trigger_while_paused', 'trigger_with_held_member',
                     'start_member_queued_queue_full', 'member:start:failed']
            need += [f'trigger:size{n}:flow={f}' for n, f in
                     ((3, 'all'), (2, 'new'), (2, 'none'), (2, '2'))]
        missing = [k for k in need if not counts.get(k)]
        if missing:
            raise HarnessError(
                f'vacuous exploration: never observed {missing}')
    return result_from(
        ctx, st, prop='C28',
        bounds={'workflows': sorted({s['base'] for s in specs}),
                'profiles': len(specs),
                'max group size': {s['base']: s['max_subset'] for s in specs},
                'flows': {s['base']: s['flows'] for s in specs},
                'operator commands per execution': {
                    s['base']: s.get('budget', 1) for s in specs}},
        assumptions=ASSUME, min_states=100,
        extra_cov={'observations': counts})


def replay(payload):
    specs = {s['name']: s for s in catalogue(payload.get('tier', 'quick'))}
    return replay_violation(
        payload, lambda pl: make_factory(specs[pl['spec_name']]))
