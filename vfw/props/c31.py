"""C31 Sequential tasks never overlap and run in cycle order (Engine A)."""
from __future__ import annotations

from ..core import Ctx, HarnessError, Result
from ..sched import mon_c04
from ..sched.catalogue import A, E, N, spec_from
from ..sched.mon_c31 import Sequential
from ..sched.monitors import Lifecycle, PoolInvariants, SubmitOnce
from ..sched.profile import Profile
from ..sched.run import explore_all, replay_violation, result_from

LEVEL = 'model_checking'

ASSUME = [
    'bounded catalogue (see bounds): a sequential task on 1-3 recurrences '
    '(Pn, +Pm/Pn, R1), alone or with one upstream/downstream task, runahead '
    'limits P1-P3, integer cycling, cold start and one warm start',
    'outcome alphabet: every instance of the listed tasks may succeed or '
    'fail (no retries); localhost jobs; fused job-step+message events',
    '"the previous instance on its sequences" = the latest earlier point of '
    'the union of the recurrences of the graph sections in which the task '
    'appears (reference computed from the catalogue term)',
    '"succeeded" is judged on the environment: a job of the previous '
    'instance really finished with success',
    'no operator commands (manual triggering may legitimately override the '
    'implicit dependency)',
]


def _rows(tier: str):
    a, b, x = 'a', 'b', 'x'
    solo = [N(a)]
    # (name, sections, fcp, sequential, limit, failing tasks, options/start)
    rows = [
        ('solo-P1-f3-ra1', [('P1', solo)], 3, 'a', 'P1', (a,), None),
        ('solo-P1-f3-ra3', [('P1', solo)], 3, 'a', 'P3', (a,), None),
        ('down-P1-f3-ra2', [('P1', [E(A(a), b)])], 3, 'a', 'P2', (a,), None),
        ('two-P2-P3-f5-ra3', [('P2', solo), ('P3', solo)], 5, 'a', 'P3',
         (a,), None),
        ('two-P2-oP2-f4-ra2', [('P2', solo), ('+P1/P2', solo)], 4, 'a',
         'P2', (a,), None),
        ('r1-oP2-f4-ra2', [('R1', solo), ('+P1/P2', solo)], 4, 'a', 'P2',
         (a,), None),
        ('both-P1-f2-ra1', [('P1', [N(a), N(b)])], 2, 'a, b', 'P1', (a,),
         None),
        ('warm-P1-f4-ra2', [('P1', solo)], 4, 'a', 'P2', (a,), 2),
        ('explicit-prev-P1-f3-ra2', [('R1', [E(A(x), a)]),
                                     ('P1', [E(A(a, -1), a)])], 3, 'a',
         'P2', (a,), None),
        ('up-P1-f3-ra2', [('P1', [E(A(x), a)])], 3, 'a', 'P2', (a,), None),
    ]
    if tier == 'thorough':
        rows += [
            ('solo-P1-f4-ra2', [('P1', solo)], 4, 'a', 'P2', (a,), None),
            ('solo-P2-f5-ra3', [('P2', solo)], 5, 'a', 'P3', (a,), None),
            ('up-down-P1-f2-ra1', [('P1', [E(A(x), a), E(A(a), b)])], 2,
             'a', 'P1', (a,), None),
            ('two-P2-P3-f7-ra3', [('P2', solo), ('P3', solo)], 7, 'a', 'P3',
             (a,), None),
            ('two-P2-P3-f7-ra1', [('P2', solo), ('P3', solo)], 7, 'a', 'P1',
             (a,), None),
            ('two-P2x-P3-f7-ra3', [('P2', [E(A(x), a)]), ('P3', solo)], 7,
             'a', 'P3', (), None),
            ('three-f6-ra3', [('R1', solo), ('+P1/P3', solo),
                              ('+P2/P3', solo)], 6, 'a', 'P3', (a,), None),
            ('r1-P2-f5-ra2', [('R1', [E(A(x), a)]), ('P2', solo)], 5, 'a',
             'P2', (a,), None),
            ('both-P1-f3-ra2', [('P1', [N(a), N(b)])], 3, 'a, b', 'P2',
             (a, b), None),
            ('both-chain-P1-f2-ra1', [('P1', [E(A(a), b)])], 2, 'a, b', 'P1',
             (a, b), None),
            ('warm-two-P2-P3-f7-ra3', [('P2', solo), ('P3', solo)], 7, 'a',
             'P3', (a,), 4),
            ('down-P1-f4-ra3', [('P1', [E(A(a), b)])], 4, 'a', 'P3', (a,),
             None),
            ('par-P1-f3-ra2', [('P1', [N(a), N(b)])], 3, 'a', 'P2', (a, b),
             None),
            ('two-P2-P3-f5-ra3-down', [('P2', [E(A(a), b)]), ('P3', solo)],
             5, 'a', 'P3', (a,), None),
            ('prevdep-P1-f3-ra2', [('P1', [E(A(a, -1), b), N(a)])], 3, 'a',
             'P2', (a,), None),
        ]
    return rows


def catalogue(tier: str):
    out = []
    for name, secs, fcp, seq, limit, fails, start in _rows(tier):
        extra = {}
        if start is not None:
            extra['options'] = {'startcp': str(start)}
            extra['start'] = start
        sp = spec_from(secs, 1, fcp, name=name, special={'sequential': seq},
                       scheduling={'runahead limit': limit}, **extra)
        sp['fail_tasks'] = list(fails)
        out.append(sp)
    return out


def make_factory(spec):
    def factory():
        outcomes = {t: ['succeeded', 'failed'] for t in spec['fail_tasks']}
        return Profile(
            spec, monitors=[Sequential, SubmitOnce, Lifecycle,
                            PoolInvariants],
            outcomes=outcomes, jump=())
    return factory


def run(ctx: Ctx) -> Result:
    specs = catalogue(ctx.tier)
    cdir = ctx.scratch / 'c31-counters'
    cdir.mkdir(parents=True, exist_ok=True)
    mon_c04.COUNTER_DIR = str(cdir)
    st = explore_all(
        ctx, [make_factory(s) for s in specs],
        max_states=ctx.pick(4000, 40000), max_seconds=ctx.pick(600, 3000))
    counts = {k[4:]: v for k, v in mon_c04.read_counts(str(cdir)).items()
              if k.startswith('c31:')}
    if not st.violations and not st.error and not st.capped:
        need = ['submissions-with-previous', 'previous-not-adjacent',
                'previous-before-start-point', 'first-instance',
                'states-with-an-active-instance', 'terminals-with-failure',
                'terminals-all-succeeded-and-complete']
        miss = [k for k in need if not counts.get(k)]
        if miss:
            raise HarnessError(f'vacuous: seam(s) never exercised: {miss}')
        if counts.get('terminals-all-succeeded-but-incomplete'):
            raise HarnessError(
                'an all-success run of a catalogue workflow did not run '
                'every instance (not a C31 verdict, but the catalogue is '
                'supposed to be completable): '
                f'{counts}')
    return result_from(
        ctx, st, prop='C31',
        bounds={'workflows': [s['name'] for s in specs],
                'recurrences per sequential task<=': 3,
                'runahead limits': 'P1..P3',
                'final point<=': ctx.pick(5, 7)},
        assumptions=ASSUME, min_states=100,
        extra_cov={'seam_counters': counts,
                   'seam_counters_note': (
                       'observations summed over every execution, including '
                       're-executed prefixes (vacuity guards, not distinct '
                       'cases)')})


def replay(payload):
    specs = {s['name']: s for s in catalogue('thorough')}
    return replay_violation(
        payload, lambda pl: make_factory(specs[pl['spec_name']]))
