"""C19 Stop-and-restart preserves the workflow state."""
from __future__ import annotations

import os

from ..core import Ctx, HarnessError, Result
from ..sched import catalogue as cat
from ..sched.catalogue import spec_from
from ..sched.monitors import PoolInvariants, SubmitOnce
from ..sched.mon_c19 import (
    COUNTS, RestartGraphFaithful, RestartState, StopProfile)
from ..sched.run import explore_all, replay_violation, result_from

LEVEL = 'model_checking'

STOPS = ('REQUEST_CLEAN', 'REQUEST_NOW', 'REQUEST_NOW_NOW')

ASSUME = [
    'bounded catalogue (see bounds); integer cycling; localhost jobs; '
    'all-success jobs; stop (clean), stop --now and stop --now --now offered '
    'at every main-loop boundary; jobs keep running while the scheduler is '
    'down, their messages are lost and recovered by the restart poll',
    'the "state at the moment of stop" is the in-memory pool when the '
    'scheduler coroutine ends; the restored state is the pool when '
    'Scheduler.start() has returned (before the restart poll), so no '
    'allowance for poll results is needed; prerequisite satisfaction is '
    'compared as true/false per atom; runahead/queued flags, timers and '
    'job summaries are not part of the statement and not compared',
    'a restart is a plain "cylc play" (start-up options such as '
    '--stopcp/--holdcp are not repeated)',
    'commands still running when the scheduler blocks waiting for its '
    'process pool at shutdown complete normally during that wait; '
    'stop --now --now kills a running jobs-submit command, which the '
    'scheduler records as a submission failure: the environment counts that '
    'job as never launched and the terminal oracle takes it as a realised '
    'outcome',
    'after an automatic shutdown the stop point may be forgotten or kept '
    '(judged by C43); with a stop task the run may end after that task '
    '(whether a failed stop task may stop the workflow is C43\'s question)',
    'terminal oracle: GraphFaithful closure over realised outcomes + '
    'SubmitOnce, bounded by the hold point / current stop point; the '
    'second-flow workflow is judged on restored state only',
]


def catalogue(tier: str):
    shapes = dict(cat.basic_shapes())
    P1 = lambda items: [('P1', items)]      # noqa
    bc = ('broadcast', ['1'], ['b'], [{'environment': {'X': '1'}}])
    rows = [
        # name, sections, fcp, extra spec keys, graph-faithful rider?
        ('chain2-f2', P1(shapes['chain2']), 2, {}, True),
        ('prev-f2', P1(shapes['prev']), 2, {}, True),
        ('and-f1', P1(shapes['and']), 1, {}, True),
        # a custom output (message differs from the output name)
        ('custom-f1', P1(shapes['custom']), 1, {}, True),
        # cylc play --holdcp=1
        ('prevb-f2-holdpoint', P1(shapes['prevb']), 2,
         {'options': {'holdcp': '1'}, 'hold': 1}, True),
        # a broadcast to a task that has not run yet
        ('chain2-f1-broadcast', P1(shapes['chain2']), 1,
         {'preamble': [bc]}, True),
        # two settings broadcast and one of them cancelled before the next
        # main-loop iteration (one database flush window)
        ('chain2-f1-broadcast-cancel', P1(shapes['chain2']), 1,
         {'preamble': [('broadcasts', [
             ('set', ['1'], ['b'], [{'environment': {'X': '1'}},
                                    {'environment': {'Y': '2'}}]),
             ('clear', ['1'], ['b'], [{'environment': {'X': '1'}}])])]},
         True),
        # an xtrigger (satisfied once, remembered across the restart)
        ('chain2-f1-xtrigger', P1(shapes['chain2']), 1,
         {'xtriggers': {'x': 'echo(succeed=True)'},
          'graph': {'P1': '@x => a\na => b'}}, True),
        # cylc play --stopcp=1
        ('prev-f2-stopcp1', P1(shapes['prev']), 2,
         {'options': {'stopcp': '1'}, 'stop': 1}, True),
        # cylc stop w//1/a (stop task), twice restarted
        ('chain2-f1-stoptask', P1(shapes['chain2']), 1,
         {'preamble': [('cmd', 'stop', {'mode': None, 'task': '1/a'})],
          'restarts': 2, 'stop_task': ('a', 1)}, True),
        # a second flow (flow numbers, flow counter, merged flows)
        ('chain2-f1-flows', P1(shapes['chain2']), 1,
         {'preamble': [('cmd', 'force_trigger_tasks',
                        {'tasks': ['1/b'], 'flow': ['new']})]}, False),
    ]
    if tier == 'thorough':
        # the small workflows above get a second restart (see make_factory);
        # the wider ones below keep one
        one = {'restarts': 1}
        rows += [
            ('chain2-f2', P1(shapes['chain2']), 2, dict(one), True),
            ('prevb-f2-broadcast', P1(shapes['prevb']), 2,
             {'preamble': [('broadcast', ['2'], ['b'],
                            [{'environment': {'X': '1'}}])], **one}, True),
            ('chain2-f2-holdpoint', P1(shapes['chain2']), 2,
             {'options': {'holdcp': '1'}, 'hold': 1, **one}, True),
            ('chain2-f2-stopcp1', P1(shapes['chain2']), 2,
             {'options': {'stopcp': '1'}, 'stop': 1, **one}, True),
        ]
        rows = rows[1:]     # (chain2-f2 is replaced by its 1-restart twin)
    specs = []
    for name, secs, fcp, extra, gf in rows:
        s = spec_from(secs, 1, fcp, name=name, **extra)
        s['graph_faithful'] = gf
        specs.append(s)
    return specs


def make_factory(spec, tier='quick'):
    def factory():
        mons = [RestartState, PoolInvariants]
        if spec.get('graph_faithful', True):
            mons += [RestartGraphFaithful, SubmitOnce]
        return StopProfile(
            spec, stops=STOPS, max_restarts=spec.get(
                'restarts', 2 if tier == 'thorough' else 1),
            monitors=mons, jump=())
    return factory


NEEDED = [
    'restarts compared',
    'restart after stopped:REQUEST_CLEAN',
    'restart after stopped:REQUEST_NOW',
    'restart after stopped:REQUEST_NOW_NOW',
    'restart after stopped:AUTO',
    'restart after jobs progressed while down',
    'restored task that was waiting',
    'restored task that was preparing',
    'restored task that was submitted',
    'restored task that was running',
    'preparing task submitted after restart',
    'restored held task',
    'restored task with merged flows',
    'restored task with a satisfied xtrigger',
    'restored task with partially satisfied prerequisites',
    'restart with a hold point',
    'restart with a stop point',
    'restart with a stop task',
    'restart with a broadcast',
    'restart with flow counter > 1',
]


def run(ctx: Ctx) -> Result:
    specs = catalogue(ctx.tier)
    only = os.environ.get('VERIF_ONLY')     # development aid (mutant runs)
    if only:
        specs = [s for s in specs if s['name'] in only.split(',')]
    COUNTS.collect(ctx.scratch)
    st = explore_all(
        ctx, [make_factory(s, ctx.tier) for s in specs],
        max_states=ctx.pick(6000, 60000),
        max_seconds=int(os.environ.get(
            'VERIF_MAX_SECONDS', ctx.pick(170, 1700))))
    counts = COUNTS.collect(ctx.scratch)
    if not st.violations and not st.error and not st.capped:
        missing = [k for k in NEEDED if not counts.get(k)]
        if missing and not only:
            raise HarnessError(
                f'vacuous: never observed in the whole exploration: '
                f'{missing}')
    return result_from(
        ctx, st, prop='C19',
        bounds={'workflows': [s['name'] for s in specs],
                'stop modes': list(STOPS),
                'stop offered at': 'every main-loop boundary',
                'restarts per execution': ctx.pick(
                    '1 (2 in the stop-task workflow)',
                    '2 (1 in the wider workflows: chain2-f2*, '
                    'prevb-f2-broadcast)')},
        assumptions=ASSUME, min_states=100,
        extra_cov={'observed': dict(sorted(counts.items()))})


def replay(payload):
    tier = payload.get('tier', 'quick')
    specs = {s['name']: s for t in ('thorough', 'quick', tier)
             for s in catalogue(t)}
    return replay_violation(
        payload, lambda pl: make_factory(
            specs[pl['spec_name']], pl.get('tier', 'quick')))
