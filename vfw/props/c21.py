"""C21 Database writes are atomic and the public database converges.

Engine C, fault enumeration.  The component is a *real*
WorkflowDatabaseManager with its private and public sqlite files under the
scratch directory.  Batches are queued through the real put_* API (stub task
proxies carry only the attributes those methods read).  The only seam is the
`sqlite3` name inside cylc.flow.rundb, replaced by a proxy whose connections
count every row handed to executemany() and fail on demand.

Leg A (atomicity): for every batch of the menu and every position of the
private write (before each row of each statement, and at commit) the write is
failed (sqlite3 error raised) or the process is killed (forked child,
os._exit).  Oracle: the private file, reopened, dumps exactly as before the
batch (rowids included).

Leg B (convergence): every sequence of batches x every pattern of public
write failures (lock at first statement / at commit), followed by one clean
flush.  Oracle: every table of the public file holds the same rows as the
private file.

Leg C (recovery threshold): runs of consecutive public failures around
CylcWorkflowDAO.MAX_TRIES, with the health check the scheduler's main loop
performs after each flush, then one clean flush.  Same oracle as B.
"""
from __future__ import annotations

import itertools
import logging
import os
import shutil
import sqlite3
from pathlib import Path
from types import SimpleNamespace

from ..core import Ctx, HarnessError, Result, Violation, chunks, pmap, \
    scratch_root

LEVEL = 'fault_enumeration'

T0 = '2000-01-01T00:00:00Z'


# --------------------------------------------------------- fault injection

class _Key:
    """Hashable stand-in for task_events_mgr.EventKey."""

    def __init__(self, handler, event, tokens):
        self.handler, self.event, self.tokens = handler, event, tokens


STATE = {
    'pri': {'fault': None, 'count': 0, 'fired': False, 'stmts': []},
    'pub': {'fault': None, 'count': 0, 'fired': False, 'stmts': []},
}
PATHS = {}      # db file path -> role


def arm(role, fault):
    """fault: None | ['row', n, action] | ['commit', action];
    action: 'error' | 'locked' | 'crash'."""
    STATE[role].update(fault=fault, count=0, fired=False, stmts=[])


def _fire(role, action):
    STATE[role]['fired'] = True
    if action == 'crash':
        os._exit(77)
    if action == 'locked':
        raise sqlite3.OperationalError('database is locked')
    raise sqlite3.OperationalError('disk I/O error')


class FaultConn:
    """A sqlite3 connection that fails where told to."""

    def __init__(self, real, role):
        self.__dict__['_real'] = real
        self.__dict__['_role'] = role

    def __getattr__(self, name):
        return getattr(self._real, name)

    def executemany(self, stmt, rows):
        rows = list(rows)
        st = STATE[self._role]
        st['stmts'].append((stmt.split()[0], len(rows)))
        f = st['fault']
        if f and f[0] == 'row' and not st['fired']:
            k = f[1] - st['count']
            if k < len(rows):
                if k > 0:
                    self._real.executemany(stmt, rows[:k])
                st['count'] += k
                _fire(self._role, f[2])
        st['count'] += len(rows)
        return self._real.executemany(stmt, rows)

    def commit(self):
        st = STATE[self._role]
        f = st['fault']
        if f and f[0] == 'commit' and not st['fired']:
            _fire(self._role, f[1])
        return self._real.commit()

    # a connection used as a context manager commits (or rolls back) on
    # exit: keep the seam transparent for code written that way
    def __enter__(self):
        self._real.__enter__()
        return self

    def __exit__(self, exc_type, exc, tb):
        return self._real.__exit__(exc_type, exc, tb)


class _Sqlite3Proxy:
    """Stands in for the sqlite3 module inside cylc.flow.rundb."""

    def __getattr__(self, name):
        return getattr(sqlite3, name)

    @staticmethod
    def connect(path, *a, **kw):
        real = sqlite3.connect(path, *a, **kw)
        role = PATHS.get(os.path.realpath(str(path)))
        if role is None:
            return real
        return FaultConn(real, role)


_CLOCK = [0]


def _fake_now(*a, **kw):
    """Deterministic stand-in for wallclock.get_current_time_string as used
    by workflow_db_mgr (row values must not depend on the wall clock)."""
    _CLOCK[0] += 1
    return f'2000-01-01T00:{_CLOCK[0] // 60 % 60:02d}:{_CLOCK[0] % 60:02d}Z'


def install():
    import cylc.flow.rundb as rundb
    import cylc.flow.workflow_db_mgr as wdm
    wdm.get_current_time_string = _fake_now
    if not isinstance(rundb.sqlite3, _Sqlite3Proxy):
        rundb.sqlite3 = _Sqlite3Proxy()
    from cylc.flow import LOG
    if not any(isinstance(h, logging.NullHandler) for h in LOG.handlers):
        LOG.addHandler(logging.NullHandler())
    LOG.propagate = False


# ------------------------------------------------------------ stub objects

def itask(name, status='waiting', submit_num=1, held=False, flows=(1,),
          updated=T0, prereqs=(), timeout=None, late=False, outputs=None,
          xtrig=None, try_timer=False):
    timer = SimpleNamespace(ctx=None, delays=[1.0], num=1, delay=1.0,
                            timeout=None)
    return SimpleNamespace(
        tdef=SimpleNamespace(name=name),
        point='1',
        flow_nums=set(flows),
        submit_num=submit_num,
        flow_wait=False,
        is_manual_submit=False,
        transient=False,
        is_late=late,
        timeout=timeout,
        poll_timer=None,
        try_timers={'execution-retry': timer} if try_timer else {},
        get_try_num=lambda: 1,
        state=SimpleNamespace(
            status=status, is_held=held, time_updated=updated,
            prerequisites=[dict(prereqs)] if prereqs else [],
            xtriggers=dict(xtrig or {}),
            outputs=SimpleNamespace(
                get_completed_outputs=lambda: dict(outputs or {})),
        ),
    )


def _pool(*tasks):
    return SimpleNamespace(get_tasks=lambda: list(tasks))


def _schd(paused):
    return SimpleNamespace(
        uuid_str='uuid-1', is_paused=paused, stop_clock_time=None,
        stop_task=None,
        pool=SimpleNamespace(stop_task_id=None),
        config=SimpleNamespace(
            cycle_point_dump_format='CCYY', initial_point='1'),
        options=SimpleNamespace(
            fcp='5', startcp=None, stopcp='reload', cycle_point_tz='Z'),
        get_run_mode=lambda: SimpleNamespace(value='live'),
    )


def _events_mgr(n):
    timers = {}
    for i in range(n):
        key = _Key(f'h{i}', 'failed',
                   {'task': 'a', 'cycle': '1', 'job': '01'})
        timers[key] = SimpleNamespace(
            ctx=None, delays=[1.0], num=1, delay=1.0, timeout=None)
    return SimpleNamespace(event_timers_updated=True, _event_timers=timers)


# name -> function(dbm): every one goes through the real put_* API
OPS = {
    'pool[a:running]': lambda d: d.put_task_pool(_pool(
        itask('a', 'running', timeout=99.0))),
    'pool[]': lambda d: d.put_task_pool(_pool()),
    'pool[a:succeeded,b:waiting]': lambda d: d.put_task_pool(_pool(
        itask('a', 'succeeded'),
        itask('b', 'waiting', held=True, try_timer=True,
              prereqs={('1', 'a', 'succeeded'): 'satisfied naturally'},
              xtrig={'x1': True}))),
    'ins_states[a]': lambda d: d.put_insert_task_states(itask('a')),
    'ins_states[b]': lambda d: d.put_insert_task_states(itask('b')),
    'upd_state[a:failed]': lambda d: d.put_update_task_state(
        itask('a', 'failed')),
    'upd_flow_wait[a]': lambda d: d.put_update_task_flow_wait(itask('a')),
    'ins_jobs[a]': lambda d: d.put_insert_task_jobs(itask('a'), {
        'flow_nums': '[1]', 'try_num': 1, 'time_submit': T0,
        'platform_name': 'localhost'}),
    'upd_jobs[a:ran]': lambda d: d.put_update_task_jobs(itask('a'), {
        'run_status': 0, 'time_run': T0, 'time_run_exit': T0}),
    'ins_events[a]': lambda d: d.put_insert_task_events(itask('a'), {
        'time': T0, 'event': 'started', 'message': 'm'}),
    'ins_outputs[a]': lambda d: d.put_insert_task_outputs(itask('a')),
    'upd_outputs[a]': lambda d: d.put_update_task_outputs(itask(
        'a', outputs={'succeeded': 'succeeded'})),
    'late[a]': lambda d: d.put_insert_task_late_flags(itask('a', late=True)),
    'hold{a}': lambda d: d.put_tasks_to_hold({('a', '1')}),
    'hold{}': lambda d: d.put_tasks_to_hold(set()),
    'xtrig[x1]': lambda d: d.put_xtriggers({'x1(a=1)': {'r': 1}}),
    'paused=1': lambda d: d.put_workflow_paused(True),
    'paused=0': lambda d: d.put_workflow_paused(False),
    'params_all': lambda d: d.put_workflow_params(_schd(False)),
    'bcast+': lambda d: d.put_broadcast(
        [('1', 'root', {'script': 'x'})]),
    'bcast-': lambda d: d.put_broadcast(
        [('1', 'root', {'script': 'x'})], is_cancel=True),
    'abs_out': lambda d: d.put_insert_abs_output('1', 'a', 'succeeded'),
    'flow[1]': lambda d: d.put_insert_workflow_flows(
        1, {'start_time': T0, 'description': 'd'}),
    'tvars': lambda d: d.put_workflow_template_vars({'X': 1, 'Y': 'y'}),
    'ev_timers[1]': lambda d: d.put_task_event_timers(_events_mgr(1)),
    'ev_timers[0]': lambda d: d.put_task_event_timers(_events_mgr(0)),
    'rm_flows[a]': lambda d: d.remove_task_from_flows('1', 'a', {1}),
    'inherit': lambda d: d.put_runtime_inheritance(SimpleNamespace(
        cfg={'runtime': {'root': 0, 'a': 0}},
        runtime={'linearized ancestors': {
            'root': ['root'], 'a': ['a', 'root']}})),
}
ALL_OPS = list(OPS)
# committed before every scenario so that updates/deletes have rows to hit
SEED = ['ins_states[a]', 'ins_states[b]', 'ins_jobs[a]', 'ins_outputs[a]',
        'pool[a:running]', 'hold{a}', 'bcast+', 'paused=0', 'ev_timers[1]',
        'xtrig[x1]']
# operations whose order against each other matters (same-table delete /
# insert / update interplay): the alphabet of the convergence legs
CORE = ['pool[a:running]', 'pool[]', 'pool[a:succeeded,b:waiting]',
        'ins_states[a]', 'upd_state[a:failed]', 'hold{a}', 'hold{}',
        'bcast+', 'bcast-']
CORE6 = ['pool[a:running]', 'pool[]', 'ins_states[a]', 'upd_state[a:failed]',
         'hold{a}', 'hold{}']
MID = CORE + ['ins_jobs[a]', 'upd_jobs[a:ran]', 'ins_outputs[a]',
              'upd_outputs[a]', 'ins_events[a]', 'paused=1', 'paused=0',
              'rm_flows[a]']


# -------------------------------------------------------------- component

_ENV = {}


def setup(scratch: Path):
    if _ENV:
        return _ENV
    install()
    from cylc.flow.workflow_db_mgr import WorkflowDatabaseManager
    base = Path(scratch) / 'c21'
    tmpl = base / 'tmpl'
    shutil.rmtree(tmpl, ignore_errors=True)
    (tmpl / 'pri').mkdir(parents=True)
    (tmpl / 'pub').mkdir()
    dbm = WorkflowDatabaseManager(str(tmpl / 'pri'), str(tmpl / 'pub'))
    dbm.on_workflow_start(is_restart=False)     # real fresh-start path
    for name in SEED:
        OPS[name](dbm)
    dbm.process_queued_ops()
    dbm.on_workflow_shutdown()
    if dump(tmpl / 'pri' / 'db', False) != dump(tmpl / 'pub' / 'db', False):
        raise HarnessError('seed batch: public differs from private')
    _ENV.update(base=base, tmpl=tmpl)
    return _ENV


def dump(path, with_rowid=True):
    """{table: [rows]} of one database file (fresh plain connection)."""
    con = sqlite3.connect(str(path))
    try:
        out = {}
        names = [r[0] for r in con.execute(
            "SELECT name FROM sqlite_master WHERE type='table' ORDER BY name")]
        for n in names:
            if with_rowid:
                rows = [list(r) for r in con.execute(
                    f'SELECT rowid, * FROM {n} ORDER BY rowid')]
            else:
                rows = sorted(
                    ([repr(c) for c in r]
                     for r in con.execute(f'SELECT * FROM {n}')))
            out[n] = rows
        return out
    finally:
        con.close()


class Comp:
    def __init__(self, env):
        self.dir = env['base'] / f'w{os.getpid()}'
        for sub in ('pri', 'pub'):
            d = self.dir / sub
            d.mkdir(parents=True, exist_ok=True)
            for f in os.listdir(d):
                os.unlink(d / f)
        shutil.copyfile(env['tmpl'] / 'pri' / 'db', self.dir / 'pri' / 'db')
        self.pri = self.dir / 'pri' / 'db'
        self.pub = self.dir / 'pub' / 'db'
        _CLOCK[0] = 100
        PATHS.clear()
        PATHS[os.path.realpath(self.pri)] = 'pri'
        PATHS[os.path.realpath(self.pub)] = 'pub'
        arm('pri', None)
        arm('pub', None)
        from cylc.flow.workflow_db_mgr import WorkflowDatabaseManager
        self.dbm = WorkflowDatabaseManager(
            str(self.dir / 'pri'), str(self.dir / 'pub'))
        # restart path on the seeded template: copies private to public
        self.dbm.on_workflow_start(is_restart=True)
        self.recoveries = 0

    def queue(self, batch):
        for name in batch:
            OPS[name](self.dbm)

    def kinds(self):
        """{table: 'D'/'I'/'U' string} of what is queued (observation used
        only to classify a violation)."""
        out = {}
        d = self.dbm
        for t, v in d.db_deletes_map.items():
            if v:
                out[t] = out.get(t, '') + 'D'
        for t, v in d.db_inserts_map.items():
            if v:
                out[t] = out.get(t, '') + 'I'
        for t, v in d.db_updates_map.items():
            if v:
                out[t] = out.get(t, '') + 'U'
        return out

    def flush(self, pri_fault=None, pub_fault=None):
        """One main-loop pass: process_workflow_db_queue then
        database_health_check."""
        arm('pri', pri_fault)
        arm('pub', pub_fault)
        self.dbm.process_queued_ops()
        before = self.dbm.pub_dao.n_tries
        self.dbm.recover_pub_from_pri()
        if before and not self.dbm.pub_dao.n_tries and before >= \
                self.dbm.pub_dao.MAX_TRIES:
            self.recoveries += 1

    def close(self):
        arm('pri', None)
        arm('pub', None)
        try:
            self.dbm.on_workflow_shutdown()
        except Exception:
            pass


# ------------------------------------------------------- leg A: atomicity

def count_positions(env, batch):
    """Dry run: number of rows the private write hands to sqlite."""
    c = Comp(env)
    try:
        c.queue(batch)
        c.flush()
        return STATE['pri']['count'], list(STATE['pri']['stmts'])
    finally:
        c.close()


def atomic_case(env, batch, fault):
    """Run one failing private write.  Returns (verdict dict | None, info).
    fault = ['row', n, action] | ['commit', action]."""
    action = fault[-1]
    c = Comp(env)
    try:
        before = dump(c.pri)
        c.queue(batch)
        if action == 'crash':
            c.dbm.pri_dao.close()
            c.dbm.pub_dao.close()
            pid = os.fork()
            if pid == 0:
                try:
                    c.flush(pri_fault=fault)
                except BaseException:
                    os._exit(78)
                os._exit(0)
            _, status = os.waitpid(pid, 0)
            code = os.waitstatus_to_exitcode(status)
            if code != 77:
                raise HarnessError(
                    f'crash child ended with {code} for {batch} {fault}')
        else:
            try:
                c.flush(pri_fault=fault)
            except sqlite3.Error:
                pass
            else:
                raise HarnessError(
                    f'private fault did not surface: {batch} {fault}')
            if not STATE['pri']['fired']:
                raise HarnessError(f'fault never fired: {batch} {fault}')
            # the scheduler dies on this error: shut the managers down
            c.close()
        after = dump(c.pri)
        changed = sorted(t for t in after if after[t] != before.get(t))
        if changed:
            return {'tables': changed,
                    'detail': _first_diff(before, after, changed[0])}
        return None
    finally:
        c.close()


def _first_diff(a, b, table):
    ra, rb = a.get(table, []), b.get(table, [])
    extra = [r for r in rb if r not in ra][:2]
    lost = [r for r in ra if r not in rb][:2]
    return f'{table}: new rows {extra}, lost rows {lost}'


def _pos_class(fault, n_rows):
    if fault[0] == 'commit':
        return 'at-commit'
    return 'before-first-row' if fault[1] == 0 else 'mid-transaction'


def _work_atomic(jobs):
    env = setup(scratch_root())
    out = []
    for batch, action in jobs:
        n, stmts = count_positions(env, batch)
        faults = [['row', i, action] for i in range(n)]
        faults.append(['commit', action])
        bad = []
        for f in faults:
            v = atomic_case(env, batch, f)
            if v:
                bad.append((_atomic_sig(f, n), f, v))
        out.append((batch, action, n, len(stmts), len(faults), bad))
    return out


def _atomic_sig(f, n):
    return (f"private-changed-after-"
            f"{'crash' if f[-1] == 'crash' else 'failed-write'}:"
            f"{_pos_class(f, n)}")


# ----------------------------------------------------- leg B: convergence

PUB_FAULTS = {
    '-': None,
    'L': ['row', 0, 'locked'],      # lock met at the first statement
    'C': ['commit', 'locked'],      # lock met at commit
}


def _compare(c, groups, facts):
    pri = dump(c.pri, False)
    pub = dump(c.pub, False)
    diff = [t for t in pri if pri[t] != pub.get(t)]
    if not diff:
        return None
    t = diff[0]
    stale = [r for r in pub[t] if r not in pri[t]]
    missing = [r for r in pri[t] if r not in pub[t]]
    dup = (not stale and not missing)
    kind = ('duplicate-row' if dup else
            'stale-row' if stale and not missing else
            'missing-row' if missing and not stale else 'different-row')
    return {
        'table': t, 'kind': kind, 'tables': diff,
        # operation kinds on that table of batches the public write ran
        # together (after a failure)
        'merged': [[p.get(t, '') for p in g] for g in groups],
        'detail': f'{t}: public-only rows {stale[:2]}, private-only '
                  f'rows {missing[:2]}'
                  + (' (same rows, different multiplicity)' if dup else ''),
    }


def converge_case(env, batches, pattern):
    """batches: list of op-name lists; pattern: string over '-LC' (one char
    per flush).  Returns (violation | None, facts)."""
    c = Comp(env)
    try:
        pend = []       # table kinds of batches not yet in the public DB
        groups = []     # batches that one public write ran together
        failed = 0
        for batch, ch in zip(batches, pattern):
            c.queue(batch)
            pend.append(c.kinds())
            c.flush(pub_fault=PUB_FAULTS[ch])
            if STATE['pub']['fired']:
                failed += 1
            if c.dbm.pub_dao.n_tries == 0:
                if len(pend) > 1:
                    groups.append(pend)
                pend = []
        c.flush()
        if len(pend) > 1:
            groups.append(pend)
        facts = {'failed': failed, 'recoveries': c.recoveries,
                 'stale_queue_at_recovery': False}
        return _compare(c, groups, facts), facts
    finally:
        c.close()


def _pub_has_queue(dao):
    """Does the public DAO still hold statements to run? (observation used
    only to classify a violation; attribute names differ between versions)"""
    if getattr(dao, 'pending_sql_queue', None):
        return True
    return any(t.delete_queues or t.insert_queue or t.update_queues
               for t in dao.tables.values())


def conv_signature(v, facts):
    """Root-cause class, from what happened in the scenario."""
    if facts['recoveries']:
        return ('public-diverged:after-threshold-recovery:'
                + ('stale-queue-replayed-on-copy'
                   if facts['stale_queue_at_recovery'] else 'queue-empty'))
    if not facts['failed']:
        return f"public-diverged:without-failure:{v['kind']}"
    # did one public write run two or more batches that touch this table?
    merged = any(sum(1 for k in g if k) > 1 for g in v['merged'])
    return ('public-diverged:after-retry:'
            + ('failed-batch-merged-with-later-batches' if merged
               else f"no-merge:{v['kind']}"))


def _work_converge(jobs):
    env = setup(scratch_root())
    out = []
    for batches, pattern in jobs:
        v, facts = converge_case(env, batches, pattern)
        out.append((batches, pattern, facts,
                    (conv_signature(v, facts), v) if v else None))
    return out


# ----------------------------------------------- leg C: recovery threshold

def threshold_case(env, b1, b2, n_fail, when):
    """b1 queued, then n_fail failing flushes (lock at first statement),
    b2 queued at flush number `when` (0-based; may be after the failures),
    then clean flushes."""
    c = Comp(env)
    try:
        pend = []
        groups = []
        stale = False
        c.queue(b1)
        pend.append(c.kinds())
        total = max(n_fail, when + 1)
        for i in range(total):
            if i == when:
                c.queue(b2)
                pend.append(c.kinds())
            rec = c.recoveries
            c.flush(pub_fault=PUB_FAULTS['L'] if i < n_fail else None)
            if c.recoveries > rec:
                # the public file was replaced by a copy of the private one;
                # whatever the public DAO still holds is stale
                stale = stale or _pub_has_queue(c.dbm.pub_dao)
                pend = []
            elif c.dbm.pub_dao.n_tries == 0:
                if len(pend) > 1:
                    groups.append(pend)
                pend = []
        c.flush()
        c.flush()
        if len(pend) > 1:
            groups.append(pend)
        facts = {'failed': n_fail, 'recoveries': c.recoveries,
                 'stale_queue_at_recovery': stale}
        return _compare(c, groups, facts), facts
    finally:
        c.close()


def _work_threshold(jobs):
    env = setup(scratch_root())
    out = []
    for b1, b2, n, when in jobs:
        v, facts = threshold_case(env, b1, b2, n, when)
        out.append((b1, b2, n, when, facts,
                    (conv_signature(v, facts), v) if v else None))
    return out


# --------------------------------------------- real-lock cross validation

def real_lock_check(env):
    """The injected 'database is locked' must behave like a real lock held
    by another connection (same final databases)."""
    n = 0
    for batches in ([['pool[a:running]'], ['pool[]']],
                    [['hold{}'], ['hold{a}']],
                    [['ins_events[a]'], ['hold{}']]):
        finals = []
        for real in (False, True):
            c = Comp(env)
            try:
                c.queue(batches[0])
                if real:
                    locker = sqlite3.connect(str(c.pub))
                    locker.execute('BEGIN EXCLUSIVE')
                    c.flush()
                    locker.rollback()
                    locker.close()
                else:
                    c.flush(pub_fault=PUB_FAULTS['L'])
                if c.dbm.pub_dao.n_tries != 1:
                    raise HarnessError(
                        f'lock (real={real}) did not fail the public write')
                c.queue(batches[1])
                c.flush()
                c.flush()
                finals.append((dump(c.pri, False), dump(c.pub, False)))
            finally:
                c.close()
        if finals[0] != finals[1]:
            raise HarnessError(
                f'injected lock and real lock disagree for {batches}')
        n += 1
    return n


# -------------------------------------------------------------------- run

def run(ctx: Ctx) -> Result:
    env = setup(ctx.scratch)
    q = ctx.quick
    vio = {}

    def note(sig, what, payload):
        ent = vio.setdefault(sig, [0, []])
        ent[0] += 1
        if len(ent[1]) < 3:
            ent[1].append((what, payload))

    # ---- leg A
    pairs_all = [[a, b] for a in ALL_OPS for b in ALL_OPS]
    singles = [[a] for a in ALL_OPS]
    big = [list(ALL_OPS)]
    ajobs = [(b, 'error') for b in singles + pairs_all + big]
    # killing the process costs a fork per case: fewer batches
    ajobs += [(b, 'crash') for b in singles + big]
    if not q:
        ajobs += [([a, b, c], 'error') for a in MID for b in MID for c in MID]
        ajobs += [([a, b], 'crash') for a in MID for b in MID]
    res = pmap(_work_atomic, chunks(ajobs, ctx.workers * 8), ctx.workers)
    a_evals = a_rows = a_multi = a_crash = 0
    for part in res:
        for batch, action, n, n_stmts, n_faults, bad in part:
            a_evals += n_faults
            a_rows += n
            if action == 'crash':
                a_crash += n_faults
            if n_stmts > 1:
                a_multi += n_faults
            for sig, f, v in bad:
                note(sig,
                     f'batch {batch}, private write failed at {f}: private '
                     f'database changed ({v["detail"]})',
                     {'leg': 'A', 'batch': batch, 'fault': f})
    # ---- leg B
    jobs = []
    # single-operation batches: every sequence x every failure pattern
    plan = ([(ALL_OPS, 1), (ALL_OPS, 2), (CORE, 3)] if q else
            [(ALL_OPS, 1), (ALL_OPS, 2), (MID, 3), (CORE6, 4)])
    for alphabet, k in plan:
        for seq in itertools.product(alphabet, repeat=k):
            for pat in itertools.product('-LC', repeat=k):
                jobs.append(([[o] for o in seq], ''.join(pat)))
    # two-operation batches
    pairs = [[a, b] for a in CORE for b in CORE]
    for b1 in pairs:
        for b2 in (pairs if not q else [[x] for x in CORE]):
            for pat in ('L-', 'C-', 'LL', '--'):
                jobs.append(([b1, b2], pat))
    res = pmap(_work_converge, chunks(jobs, ctx.workers * 8), ctx.workers)
    b_evals = b_nontrivial = 0
    for part in res:
        for bt, pat, facts, bad in part:
            b_evals += 1
            if facts['failed']:
                b_nontrivial += 1
            if bad:
                sig, v = bad
                note(sig,
                     f'batches {bt} with public failures {pat!r} then a '
                     f'clean flush: {v["detail"]}',
                     {'leg': 'B', 'batches': bt, 'pattern': pat})
    # ---- leg C
    from cylc.flow.rundb import CylcWorkflowDAO
    mx = CylcWorkflowDAO.MAX_TRIES
    ns = [mx - 1, mx, mx + 1] if q else list(range(1, mx + 3))
    cjobs = []
    calpha = (CORE6 if q else CORE) + ['ins_events[a]']
    for b1 in calpha:
        for b2 in calpha:
            for n in ns:
                for when in sorted({1, n - 1, n, n + 1}):
                    if when >= 0:
                        cjobs.append(([b1], [b2], n, when))
    res = pmap(_work_threshold, chunks(cjobs, ctx.workers * 8), ctx.workers)
    c_evals = c_recovered = 0
    for part in res:
        for b1, b2, n, when, facts, bad in part:
            c_evals += 1
            if facts['recoveries']:
                c_recovered += 1
            if bad:
                sig, v = bad
                note(sig,
                     f'{b1} queued, {n} consecutive public failures, {b2} '
                     f'queued at flush {when}, then clean flushes: '
                     f'{v["detail"]}',
                     {'leg': 'C', 'b1': b1, 'b2': b2, 'n': n, 'when': when})
    if not c_recovered and not vio:
        raise HarnessError('threshold recovery was never reached')
    locks = real_lock_check(env)
    violations = []
    for sig, (count, examples) in sorted(vio.items()):
        for what, payload in examples:
            violations.append(Violation(
                sig, f'{what} [{count} occurrence(s) of this class]',
                payload))
    cov = {
        'evaluations': a_evals + b_evals + c_evals,
        'distinct_nontrivial': a_multi + b_nontrivial + c_recovered,
        'rule': (
            'leg A: one evaluation per (batch, fault position, error|crash);'
            ' non-trivial = the batch has more than one statement. leg B: '
            'one per (batch sequence, public failure pattern); non-trivial ='
            ' at least one injected public failure fired (so something was '
            'being written). leg C: one per (b1, b2, number of consecutive'
            ' failures, flush at which b2 is queued); non-trivial = the '
            'copy-from-private recovery took place'),
        'atomicity': {
            'batches': len(ajobs), 'fault_cases': a_evals,
            'process_kill_cases': a_crash,
            'rows_written_total': a_rows,
            'fault_cases_multi_statement': a_multi,
            'operations': len(ALL_OPS)},
        'convergence': {
            'scenarios': b_evals, 'with_public_failure': b_nontrivial,
            'patterns': 'every string over {ok, lock at first statement, '
                        'lock at commit} of the sequence length'},
        'threshold': {
            'scenarios': c_evals, 'reached_recovery': c_recovered,
            'MAX_TRIES': mx, 'failure_run_lengths': [ns[0], ns[-1]]},
        'real_lock_cross_checks': locks,
        'violation_occurrences': {s: c for s, (c, _) in vio.items()},
        'samples': [
            {'leg': 'A', 'batch': ajobs[40][0], 'faults': 'every row + '
             'commit, error raised'},
            {'leg': 'B', 'batches': jobs[len(jobs) // 2][0],
             'pattern': jobs[len(jobs) // 2][1]},
            {'leg': 'C', 'case': cjobs[len(cjobs) // 3]},
        ],
        'exhaustive': True,
    }
    return Result(cov, violations, assumptions=[
        'faults are injected at the sqlite3 connection used by '
        'CylcWorkflowDAO (error raised / process killed before a row or at '
        'commit); a crash is a process kill, not a power loss (sqlite '
        'journal durability is not under test)',
        'public failures are "database is locked" at the first statement or '
        'at commit; equivalence with a real lock held by another connection '
        'is cross-checked on three scenarios each run',
        'a flush is process_queued_ops followed by recover_pub_from_pri, as '
        'in the scheduler main loop; "eventually" = after one clean flush '
        '(two in the threshold leg)',
        'task proxies / pool / scheduler are stubs carrying only what the '
        'put_* methods read; row values are not judged, only private-before '
        '= private-after and public = private',
        'workflow_db_mgr.get_current_time_string is replaced by a '
        'deterministic counter so that row values (and replays) do not depend'
        ' on the wall clock',
        'public = private compares the rows of every table as multisets '
        '(rowids and row order are not content)',
    ])


def replay(payload):
    env = setup(scratch_root())
    leg = payload['leg']
    if leg == 'A':
        n, _ = count_positions(env, payload['batch'])
        v = atomic_case(env, payload['batch'], payload['fault'])
        if not v:
            return []
        return [Violation(
            _atomic_sig(payload['fault'], n), v['detail'], payload)]
    if leg == 'B':
        v, facts = converge_case(env, payload['batches'], payload['pattern'])
    else:
        v, facts = threshold_case(
            env, payload['b1'], payload['b2'], payload['n'], payload['when'])
    if not v:
        return []
    return [Violation(conv_signature(v, facts), v['detail'], payload)]
