"""C27 Reload preserves task state (Engine A, model checking).

Operator event: swap a variant `flow.cylc` into the run directory, then queue
`reload_workflow`; offered at every main-loop boundary of every reachable
state. Variants: unchanged, +task, +edge onto an existing task, -task, -edge.
"""
from __future__ import annotations

from ..core import Ctx, HarnessError, Result
from ..sched import catalogue as cat
from ..sched.catalogue import spec_from
from ..sched.mon_c27 import COUNTS, ReloadPreserves, ReloadProfile, definitions
from ..sched.monitors import PoolInvariants
from ..sched.run import explore_all, replay_violation, result_from

LEVEL = 'model_checking'

ASSUME = [
    'bounded catalogue of graph shapes (see bounds); integer cycling; '
    'localhost jobs; jobs succeed (failure only where the graph makes it '
    'optional); one flow',
    'reload variants per workflow: unchanged, +task (new task downstream of '
    'the first task), +edge between existing tasks (same-cycle and/or '
    '[-P1]), -task, -edge; [runtime] is the same in every variant; 1 reload '
    'per execution (thorough: 2 on two of the one-cycle workflows), offered at '
    'every main-loop boundary',
    'the reload blocks inside one main-loop iteration while preparing tasks '
    'submit: during that wait the environment completes the pending '
    'jobs-submit commands successfully (its only possible move)',
    'snapshots: before = entry of TaskPool.reload, after = end of the reload '
    'command (status, flows, submit number, held, outputs, prerequisites, '
    'runahead); the queued flag is judged at the end of the same iteration '
    '(the main loop refills the new queue manager after the command) and '
    'only for tasks that are still ready under the new definition',
    'runahead flag judged only when the reload did not drop tasks (the '
    'limit is recomputed from the pool)',
    '"recorded output" = a job of that instance delivered the message '
    '(environment record); atoms whose upstream proxy is in the pool with a '
    'different in-memory record are not judged',
    '"started" = status other than waiting (no retries in the catalogue)',
    'helper commands (hold / resume) only create held and paused states; '
    'their own semantics are C06\'s subject',
]


def catalogue(tier: str):
    shapes = dict(cat.basic_shapes())
    out = []

    def add(name, shape, fcp, **extra):
        sp = spec_from([('P1', shapes[shape])], 1, fcp, name=name)
        sp.update(extra)
        out.append(sp)

    # `reloads`: reloads per execution (thorough); quick is always 1
    add('chain2-f1-hold-a', 'chain2', 1, drop_tasks=['a', 'b'], reloads=2,
        helpers=[('hold', {'tasks': ['1/a']})])
    add('fanout-f1-qlimit1', 'fanout', 1,
        queues={'q': {'limit': 1, 'members': ['a', 'b', 'c']}},
        add_edges=[('b', 0, 'c')] if tier == 'quick'
        else [('b', 0, 'c'), ('c', 0, 'b')],
        drop_tasks=['c'] if tier == 'quick' else ['a', 'c'])
    add('chain2-f1-paused', 'chain2', 1, options={'paused_start': True},
        helpers=[('resume', {})], reloads=2)
    add('prevb-f2-ra0', 'prevb', 2, scheduling={'runahead limit': 'P0'})
    add('custom-f1', 'custom', 1)
    add('chain2-f2-holdcp1', 'chain2', 2, options={'holdcp': '1'})
    # a finished but incomplete task (its job did not emit the required
    # custom output) whose definition is removed by the reload
    add('custom-f1-partial', 'custom', 1, emit='any', drop_tasks=['a'])
    # a task removed and respawned by its other parent: it then carries an
    # unsatisfied prerequisite whose upstream output is in the database
    add('and-f1-remove-c', 'and', 1,
        helpers=[('remove_tasks', {'tasks': ['1/c'], 'flow': []})])
    if tier == 'thorough':
        add('prevb-f2', 'prevb', 2)
        add('chain2-f2', 'chain2', 2)
        add('or-f1', 'or', 1)
        add('and-f1', 'and', 1)
        add('chain3-f1', 'chain3', 1, add_edges=[('a', 0, 'c')])
        add('failopt-f1', 'failopt', 1)
        add('prev-f3', 'prev', 3)
        add('chain2-f1-hold-b', 'chain2', 1,
            helpers=[('hold', {'tasks': ['1/b']})])
    return out


def outcomes_for(spec) -> dict:
    opt = cat.optional_outputs(spec['sections'])
    return {t: ['succeeded', 'failed'] for t, o in opt.items()
            if 'succeeded' in o or 'failed' in o}


def make_factory(spec, tier='quick'):
    def factory():
        return ReloadProfile(
            spec, tier=tier,
            reload_budget=spec.get('reloads', 1) if tier == 'thorough' else 1,
            helpers=spec.get('helpers'),
            helper_budget=1 if spec.get('helpers') else 0,
            monitors=[ReloadPreserves, PoolInvariants],
            outcomes=outcomes_for(spec), emit=spec.get('emit', 'all'),
            jump=())
    return factory


NEED = [
    'reloads judged', 'proxies compared', 'held proxies compared',
    'proxies with outputs compared', 'queued proxies compared',
    'runahead proxies compared', 'kept prerequisite atoms',
    'kept satisfied prerequisite atoms', 'new prerequisite atoms recorded',
    'new prerequisite atoms not recorded', 'orphans dropped', 'orphans kept',
    'submit completed during reload wait',
    'reload variant same', 'reload variant +task', 'reload variant +edge',
    'reload variant -task', 'reload variant -edge',
]


def run(ctx: Ctx) -> Result:
    specs = catalogue(ctx.tier)
    COUNTS.collect(ctx.scratch)
    st = explore_all(
        ctx, [make_factory(s, ctx.tier) for s in specs],
        max_states=ctx.pick(6000, 60000), max_seconds=ctx.pick(110, 2400))
    counts = COUNTS.collect(ctx.scratch)
    if not st.error and not st.violations:
        miss = [k for k in NEED if not counts.get(k)]
        if miss:
            raise HarnessError(
                f'vacuous: never observed {miss}; observed {counts}')
    return result_from(
        ctx, st, prop='C27',
        bounds={'workflows': [s['name'] for s in specs],
                'definitions per workflow': {
                    s['name']: sorted(definitions(s, ctx.tier))
                    for s in specs},
                'reloads per execution': {
                    s['name']: ctx.pick(1, s.get('reloads', 1))
                    for s in specs}},
        assumptions=ASSUME, min_states=200,
        extra_cov={'observed (per-process counters, include replays)':
                   counts})


def replay(payload):
    tier = payload.get('tier', 'quick')
    specs = {s['name']: s for s in catalogue(tier)}
    return replay_violation(
        payload, lambda pl: make_factory(specs[pl['spec_name']], tier))
