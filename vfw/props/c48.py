"""C48 Installed run directories are numbered without reuse; runN tracks the
latest; an install never overwrites an existing run directory.

Engine C (model checking by history exploration): breadth-first exploration
of every history of

    I        cylc install                      (numbered run)
    N<name>  cylc install --run-name=<name>
    U        cylc install --no-run-name
    R<run>   cylc reinstall <wf>/<run>         (every existing run)
    C<run>   cylc clean <wf>/<run>             (every existing run, and runN)

up to a depth bound, starting from an empty ~/cylc-run, executed through the
real ``install_workflow`` / ``reinstall_workflow`` / ``init_clean`` (rsync
included) on a tmpfs cylc-run.  States are deduplicated on (directory tree
without log contents, reference counter, latest run); every transition is
executed on a concrete copy of the state's tree.

Reference model (from the statement, not from the code): a counter ``hw`` that
only grows - the highest run number handed out so far - and ``latest``, the
run directory created by the most recent successful numbered install.
"""
from __future__ import annotations

import asyncio
import hashlib
import io
import logging
import os
import re
import shutil
import stat
import sys
from contextlib import redirect_stdout
from pathlib import Path

from ..core import Ctx, HarnessError, Result, Violation, chunks, pmap

LEVEL = 'model_checking'

WF = 'c48wf'
RUN_RE = re.compile(r'^run(\d+)$')
INSTALL_DIR = '_cylc-install'
RUN_N = 'runN'


# ------------------------------------------------------------------ sandbox

def _src_dir(base: Path) -> Path:
    return base / 'src' / WF


def make_source(base: Path) -> Path:
    src = _src_dir(base)
    if src.exists():
        return src
    (src / 'bin').mkdir(parents=True)
    (src / 'etc' / 'sub').mkdir(parents=True)
    (src / 'flow.cylc').write_text(
        '[scheduling]\n    [[graph]]\n        R1 = a\n'
        '[runtime]\n    [[a]]\n')
    (src / 'bin' / 'tool').write_text('#!/bin/sh\necho tool\n')
    os.chmod(src / 'bin' / 'tool', 0o755)
    (src / 'etc' / 'sub' / 'data').write_text('payload\n')
    return src


def use_home(home: Path) -> Path:
    """Point ~ (and so ~/cylc-run) at a private directory; -> cylc-run."""
    home.mkdir(parents=True, exist_ok=True)
    os.environ['HOME'] = str(home)
    for k in ('CYLC_WORKFLOW_RUN_DIR', 'CYLC_WORKFLOW_ID',
              'CYLC_WORKFLOW_OWNER'):
        os.environ.pop(k, None)
    crd = home / 'cylc-run'
    crd.mkdir(exist_ok=True)
    from cylc.flow.pathutil import get_cylc_run_dir
    if Path(get_cylc_run_dir()) != crd:
        raise HarnessError('cylc-run is not inside the sandbox')
    return crd


def _reset_process_state() -> None:
    """What a fresh `cylc` process would start with (one command = one
    process on the command line)."""
    for name in ('cylc-install', 'cylc-reinstall'):
        lg = logging.getLogger(name)
        for h in list(lg.handlers):
            try:
                h.close()
            except Exception:
                pass
            lg.removeHandler(h)


# ----------------------------------------------------------------- snapshot

def snapshot(root: Path) -> dict:
    """relpath -> (kind, perm, link target | content sha1). lstat only."""
    out = {}
    stack = ['']
    while stack:
        rel = stack.pop()
        path = os.path.join(root, rel) if rel else str(root)
        try:
            names = sorted(os.listdir(path))
        except OSError:
            continue
        for n in names:
            r = f'{rel}/{n}' if rel else n
            p = os.path.join(path, n)
            st = os.lstat(p)
            if stat.S_ISLNK(st.st_mode):
                out[r] = ('l', 0, os.readlink(p))
            elif stat.S_ISDIR(st.st_mode):
                out[r] = ('d', stat.S_IMODE(st.st_mode), '')
                stack.append(r)
            else:
                with open(p, 'rb') as fh:
                    h = hashlib.sha1(fh.read()).hexdigest()
                out[r] = ('f', stat.S_IMODE(st.st_mode), h)
    return out


def tree_facts(snap: dict) -> dict:
    """Statement-level reading of a cylc-run snapshot."""
    f = {'exists': WF in snap, 'base_is_run': False, 'numbered': {},
         'named': [], 'runN': None}
    if not f['exists']:
        return f
    f['base_is_run'] = f'{WF}/flow.cylc' in snap
    for rel, (kind, _m, tgt) in snap.items():
        parts = rel.split('/')
        if len(parts) != 2 or parts[0] != WF:
            continue
        name = parts[1]
        if name == RUN_N:
            f['runN'] = (kind, tgt)
        elif name == INSTALL_DIR:
            continue
        elif kind == 'd' and not f['base_is_run']:
            m = RUN_RE.match(name)
            if m:
                f['numbered'][int(m.group(1))] = name
            else:
                f['named'].append(name)
    return f


def run_dirs(facts: dict) -> list:
    """Relative paths (under cylc-run) of the existing run directories."""
    if not facts['exists']:
        return []
    if facts['base_is_run']:
        return [WF]
    return [f'{WF}/{n}' for n in
            sorted(facts['numbered'].values()) + sorted(facts['named'])]


def abstract_key(snap: dict) -> tuple:
    """Tree without log contents and without file hashes/modes (the source is
    constant, so names + link targets identify the tree)."""
    items = []
    for rel, (kind, _m, tgt) in sorted(snap.items()):
        parts = rel.split('/')
        if 'log' in parts[1:] and parts[-1] != 'log':
            continue
        items.append((rel, kind, tgt if kind == 'l' else ''))
    return tuple(items)


# --------------------------------------------------------------- operations

def op_str(op) -> str:
    return op[0] + (op[1] if len(op) > 1 else '')


def ops_for(facts: dict, names, newest=None) -> list:
    """newest=k: reinstall/clean only the k highest-numbered runs (the
    alphabet of the second search phase, which starts from many runs)."""
    ops = [('I',)] + [('N', n) for n in names] + [('U',)]
    targets = []
    if facts['exists']:
        if facts['base_is_run']:
            targets = ['']
        else:
            nums = sorted(facts['numbered'])
            if newest is not None:
                nums = nums[-newest:]
            targets = (
                [facts['numbered'][k] for k in nums]
                + sorted(facts['named']))
    ops += [('R', t) for t in targets]
    ops += [('C', t) for t in targets]
    if facts['runN'] is not None:
        ops.append(('C', RUN_N))
    return ops


def apply_op(op, src: Path) -> dict:
    """Execute one command through the real code.  -> outcome dict."""
    from cylc.flow.clean import init_clean
    from cylc.flow.install import install_workflow, reinstall_workflow
    from cylc.flow.pathutil import get_workflow_run_dir
    from cylc.flow.scripts.clean import CleanOptions
    from cylc.flow.workflow_files import get_workflow_source_dir

    _reset_process_state()
    out = {'ok': False, 'error': None, 'rundir': None}
    sink = io.StringIO()
    try:
        with redirect_stdout(sink):
            if op[0] == 'I':
                ret = install_workflow(source=src, workflow_name=WF)
                out['rundir'] = str(ret[1])
            elif op[0] == 'N':
                ret = install_workflow(
                    source=src, workflow_name=WF, run_name=op[1])
                out['rundir'] = str(ret[1])
            elif op[0] == 'U':
                ret = install_workflow(
                    source=src, workflow_name=WF, no_run_name=True)
                out['rundir'] = str(ret[1])
            elif op[0] == 'R':
                # as scripts/reinstall.py: reinstall_cli
                id_ = f'{WF}/{op[1]}' if op[1] else WF
                run_dir = Path(get_workflow_run_dir(id_))
                if not run_dir.is_dir():
                    raise FileNotFoundError(id_)
                source, _link = get_workflow_source_dir(run_dir)
                if not source:
                    raise FileNotFoundError('no source link')
                reinstall_workflow(
                    source=Path(source), named_run=id_, rundir=run_dir)
            elif op[0] == 'C':
                id_ = f'{WF}/{op[1]}' if op[1] else WF
                asyncio.run(init_clean(id_, CleanOptions()))
            else:
                raise HarnessError(f'unknown op {op}')
        out['ok'] = True
    except HarnessError:
        raise
    except Exception as exc:
        out['error'] = f'{type(exc).__name__}: {exc}'[:160]
    finally:
        _reset_process_state()
    return out


# ------------------------------------------------------------------- oracle

def new_model() -> dict:
    return {'hw': 0, 'latest': None, 'handed': []}


def judge(op, pre: dict, post: dict, res: dict, model: dict, crd: str):
    """-> (list of (signature, what), new model).

    pre/post: snapshots of cylc-run.  Only the statement is judged.
    """
    bad = []
    model = {'hw': model['hw'], 'latest': model['latest'],
             'handed': list(model['handed'])}
    fpre, fpost = tree_facts(pre), tree_facts(post)
    kind = {'I': 'install', 'N': 'install-run-name', 'U': 'install-no-run-name',
            'R': 'reinstall', 'C': 'clean'}[op[0]]
    name = op_str(op)

    if op[0] in 'INU':
        # (c) an install never overwrites / touches an existing run directory
        for rd in run_dirs(fpre):
            changed = _subtree_diff(pre, post, rd)
            if changed:
                outcome = 'succeeded' if res['ok'] else 'failed'
                bad.append((
                    f'existing-run-dir-modified:by-{kind}:{outcome}',
                    f'{name}: existing run directory {rd} was modified '
                    f'({changed[0][0]} {changed[0][1]}'
                    f'{", ..." if len(changed) > 1 else ""})'))
                break

    if op[0] == 'I':
        new_numbered = sorted(
            set(fpost['numbered']) - set(fpre['numbered']))
        if res['ok']:
            rel = os.path.relpath(res['rundir'], crd)
            base = os.path.basename(rel)
            m = RUN_RE.match(base)
            runN_before = 'present' if fpre['runN'] is not None else 'absent'
            if os.path.dirname(rel) != WF or not m:
                bad.append((
                    'numbered-install:not-a-run-number-dir',
                    f'{name}: installed into {rel}, not {WF}/run<k>'))
            else:
                k = int(m.group(1))
                if f'{rel}/flow.cylc' not in post:
                    bad.append((
                        'numbered-install:reported-dir-not-installed',
                        f'{name}: reported {rel} but nothing is installed '
                        'there'))
                if rel in pre:
                    bad.append((
                        f'numbered-install:into-existing-dir:runN-'
                        f'{runN_before}-before',
                        f'{name}: installed into {rel}, which already '
                        'existed'))
                if fpre['numbered'] and k <= max(fpre['numbered']):
                    bad.append((
                        f'run-number-not-above-existing-runs:runN-'
                        f'{runN_before}-before',
                        f'{name}: handed out run{k} although '
                        f'run{max(fpre["numbered"])} exists (runs present '
                        f'before: {sorted(fpre["numbered"])})'))
                elif k <= model['hw']:
                    bad.append((
                        f'run-number-reused:runN-{runN_before}-before',
                        f'{name}: handed out run{k} again (numbers handed '
                        f'out so far in this history: {model["handed"]}; '
                        f'runs present before: '
                        f'{sorted(fpre["numbered"])})'))
                elif k != model['hw'] + 1:
                    bad.append((
                        f'run-number-gap:runN-{runN_before}-before',
                        f'{name}: handed out run{k}, expected '
                        f'run{model["hw"] + 1}'))
                model['hw'] = max(model['hw'], k)
                model['handed'].append(k)
                model['latest'] = base
        else:
            # a failed install that nevertheless left a new numbered dir has
            # consumed that number
            for k in new_numbered:
                model['hw'] = max(model['hw'], k)
                model['handed'].append(k)

    # (b) runN tracks the most recent run - after every operation
    runN = fpost['runN']
    existing = fpost['numbered']
    latest = model['latest']

    def points_to(n):
        return (runN is not None and runN[0] == 'l'
                and os.path.normpath(runN[1]) == n)

    def describe():
        if runN is None:
            return 'absent'
        if runN[0] != 'l':
            return 'not-a-symlink'
        tgt = os.path.normpath(runN[1])
        if f'{WF}/{tgt}' not in post:
            return 'dangling'
        return 'points-elsewhere'

    if not fpost['exists']:
        pass
    elif latest is not None and latest in existing.values():
        if not points_to(latest):
            bad.append((
                f'runN-not-latest:{describe()}:after-{kind}',
                f'{name}: latest run is {latest} but runN is '
                f'{runN!r}'))
    elif latest is not None:
        # the most recent run was cleaned: runN gone, or on the newest
        # remaining run
        ok = runN is None or (
            existing and points_to(existing[max(existing)]))
        if not ok:
            bad.append((
                f'runN-wrong-after-latest-cleaned:{describe()}:after-{kind}',
                f'{name}: latest run {latest} no longer exists, runN is '
                f'{runN!r}, runs present {sorted(existing)}'))
    else:
        if runN is not None:
            bad.append((
                f'runN-without-numbered-install:{describe()}:after-{kind}',
                f'{name}: no numbered install in this history but runN is '
                f'{runN!r}'))

    # a workflow whose directory is entirely gone starts a new life
    if not fpost['exists']:
        model = new_model()
    return bad, model


def _subtree_diff(pre: dict, post: dict, rd: str) -> list:
    out = []
    pref = rd + '/'
    for rel, val in pre.items():
        if rel == rd or rel.startswith(pref):
            if rel not in post:
                out.append(('removed', rel))
            elif post[rel] != val:
                out.append(('changed', rel))
    for rel in post:
        if rel.startswith(pref) and rel not in pre:
            out.append(('added', rel))
    return sorted(out)


# ----------------------------------------------------------------- explorer

def _restore(saved: Path, crd: Path) -> None:
    dst = crd / WF
    if dst.is_symlink() or dst.exists():
        shutil.rmtree(dst)
    for p in crd.iterdir():     # nothing else may live here
        raise HarnessError(f'stray entry in cylc-run: {p}')
    if (saved / WF).exists():
        shutil.copytree(saved / WF, dst, symlinks=True)


def _save(crd: Path, dest: Path) -> None:
    dest.mkdir(parents=True)
    if (crd / WF).exists():
        shutil.copytree(crd / WF, dest / WF, symlinks=True)


def _model_key(model: dict) -> tuple:
    return (model['hw'], model['latest'])


def _work(job):
    base, items = job
    base = Path(base)
    src = _src_dir(base)
    home = base / f'w{os.getpid()}' / 'home'
    crd = use_home(home)
    sys.setrecursionlimit(2000)
    out = []
    try:
        for jid, sid, model, op in items:
            _restore(base / 'states' / str(sid), crd)
            pre = snapshot(crd)
            res = apply_op(op, src)
            post = snapshot(crd)
            if sorted(k.split('/')[0] for k in post if '/' not in k) not in (
                    [], [WF]):
                raise HarnessError(f'op {op} wrote outside {WF}: {post}')
            bad, model2 = judge(op, pre, post, res, model, str(crd))
            succ = base / 'succ' / str(jid)
            _save(crd, succ)
            out.append({
                'jid': jid, 'sid': sid, 'op': list(op), 'ok': res['ok'],
                'error': res['error'], 'bad': bad, 'model': model2,
                'key': (abstract_key(post), _model_key(model2)),
                'facts': tree_facts(post),
                'changed': pre != post,
            })
    finally:
        shutil.rmtree(base / f'w{os.getpid()}', ignore_errors=True)
    return out


def run(ctx: Ctx) -> Result:
    depth = ctx.pick(6, 10)
    depth2 = ctx.pick(3, 4)     # phase 2 (from twelve runs)
    home_env = os.environ['HOME']
    frontier_phase1 = 0
    names = ctx.pick(['a', 'b'], ['a', 'run2b'])
    base = ctx.scratch / 'c48'
    if base.exists():
        shutil.rmtree(base)
    (base / 'states').mkdir(parents=True)
    (base / 'succ').mkdir()
    make_source(base)
    from cylc.flow.cfgspec.glbl_cfg import glbl_cfg
    glbl_cfg()
    import cylc.flow.clean  # noqa: F401
    import cylc.flow.install  # noqa: F401
    import cylc.flow.scripts.clean  # noqa: F401

    # state 0: empty cylc-run
    (base / 'states' / '0').mkdir()
    empty_facts = tree_facts({})
    states = {((), _model_key(new_model())): 0}
    info = {0: {'model': new_model(), 'facts': empty_facts, 'hist': []}}
    frontier = [0]
    transitions = 0
    vios = []
    stats = {}
    seams = {'install_after_latest_cleaned': 0, 'clean_via_runN': 0,
             'install_refused_existing': 0}
    max_handed = 0
    jid = 0
    per_level = []
    ph = {'newest': None, 'names': names}
    for level in range(depth + 1 + depth2):
        if level == depth:
            # ---- phase 2: start again from a non-initial state (twelve
            # numbered runs, reached through real installs) with a bounded
            # alphabet: two-digit run numbers, runN absent, gaps
            sid = 0
            for _ in range(12):
                r = _work((str(base), [(jid, sid, info[sid]['model'],
                                        ('I',))]))[0]
                os.environ['HOME'] = home_env
                jid += 1
                transitions += 1
                hist = info[sid]['hist'] + ['I']
                for sig, what in r['bad']:
                    vios.append(Violation(
                        sig, f'history {" ".join(hist)}: {what}',
                        {'history': hist, 'names': names}))
                succ = base / 'succ' / str(r['jid'])
                if r['key'] in states:
                    shutil.rmtree(succ, ignore_errors=True)
                    sid = states[r['key']]
                else:
                    sid2 = len(states)
                    states[r['key']] = sid2
                    os.rename(succ, base / 'states' / str(sid2))
                    info[sid2] = {'model': r['model'], 'facts': r['facts'],
                                  'hist': hist}
                    sid = sid2
                max_handed = max(max_handed, r['model']['hw'])
            frontier_phase1 = len(frontier)
            frontier = [sid]
            ph = {'newest': 3, 'names': names[:1]}
            continue
        items = []
        for sid in frontier:
            for op in ops_for(info[sid]['facts'], ph['names'],
                              ph['newest']):
                items.append((jid, sid, info[sid]['model'], op))
                jid += 1
        if not items:
            break
        if len(items) <= 40:
            # small level: not worth forking a pool (inline, same code)
            home0 = os.environ['HOME']
            try:
                parts = [_work((str(base), items))]
            finally:
                os.environ['HOME'] = home0
        else:
            parts = pmap(
                _work,
                [(str(base), c) for c in chunks(items, ctx.workers * 2)],
                ctx.workers)
        results = sorted((r for p in parts for r in p),
                         key=lambda r: r['jid'])
        new_frontier = []
        for r in results:
            transitions += 1
            op = tuple(r['op'])
            hist = info[r['sid']]['hist'] + [op_str(op)]
            st = stats.setdefault(op[0], {'ok': 0, 'failed': 0})
            st['ok' if r['ok'] else 'failed'] += 1
            parent = info[r['sid']]
            if op[0] == 'I' and r['ok'] and parent['model']['latest'] and (
                    parent['model']['latest']
                    not in parent['facts']['numbered'].values()):
                seams['install_after_latest_cleaned'] += 1
            if op == ('C', RUN_N) and r['ok']:
                seams['clean_via_runN'] += 1
            if op[0] in 'INU' and not r['ok'] and not r['changed']:
                seams['install_refused_existing'] += 1
            max_handed = max(max_handed, r['model']['hw'])
            for sig, what in r['bad']:
                vios.append(Violation(
                    sig, f'history {" ".join(hist)}: {what}',
                    {'history': hist, 'names': names}))
            succ = base / 'succ' / str(r['jid'])
            key = r['key']
            if key in states or r['bad']:
                # known state, or a state reached through a violation (its
                # continuations would only repeat the same report)
                shutil.rmtree(succ, ignore_errors=True)
                continue
            sid2 = len(states)
            states[key] = sid2
            os.rename(succ, base / 'states' / str(sid2))
            info[sid2] = {'model': r['model'], 'facts': r['facts'],
                          'hist': hist}
            new_frontier.append(sid2)
        per_level.append({'depth': level + 1, 'transitions': len(items),
                          'new_states': len(new_frontier)})
        frontier = new_frontier
    shutil.rmtree(base, ignore_errors=True)

    if not vios:
        # vacuity guards (violating states are not extended, so these only
        # make sense on a clean run)
        for k in 'INURC':
            if not stats.get(k, {}).get('ok'):
                raise HarnessError(f'operation {k} never succeeded: {stats}')
        if max_handed < 3:
            raise HarnessError('never got beyond run2')
        for k, v in seams.items():
            if not v:
                raise HarnessError(f'seam never exercised: {k}')

    sample_ids = sorted(info)[:: max(1, len(info) // 8)][:8]
    cov = {
        'states': len(states),
        'transitions': transitions,
        'traces_validated_against_impl': transitions,
        'depth': depth,
        'run_names': names,
        'per_level': per_level,
        'operations': stats,
        'highest_run_number_handed_out': max_handed,
        'seams_exercised': seams,
        'phase2': {'start': 'twelve numbered installs (I x 12)',
                   'depth': depth2,
                   'alphabet': 'install forms; reinstall/clean of the 3 '
                               'highest-numbered runs, named runs and runN'},
        'unexplored_frontier_states_at_depth_bound':
            frontier_phase1 + len(frontier),
        'samples': [
            {'history': info[s]['hist'],
             'runs_present': sorted(info[s]['facts']['numbered'].values())
             + sorted(info[s]['facts']['named'])
             + (['<no-run-name>'] if info[s]['facts']['base_is_run'] else []),
             'runN': (info[s]['facts']['runN'] or [None, None])[1],
             'reference_counter': info[s]['model']['hw']}
            for s in sample_ids],
        'exhaustive': True,
    }
    return Result(cov, vios, assumptions=[
        f'phase 2: all histories of length <= {depth2} from the state '
        'reached by twelve numbered installs, with reinstall/clean limited '
        'to the three highest-numbered runs, the named runs and runN, and '
        'one run name; a new run numbered at or below an existing run is a '
        'violation of its own (run-number-not-above-existing-runs)',
        f'all histories of length <= {depth} from an empty cylc-run over '
        f'install, install --run-name in {names}, install --no-run-name, '
        'reinstall <every existing run>, clean <every existing run | runN>; '
        'one workflow, one constant source directory, no symlink-dirs '
        'configuration, local clean only',
        'states are merged when the directory tree (names, types, link '
        'targets; log file contents and names under log/ ignored) and the '
        'reference (counter, latest run) agree; a state first reached '
        'through a violating transition is not extended',
        '"without reusing a number" is judged within one life of the '
        'workflow directory: when clean removes the last run cylc removes '
        '~/cylc-run/<workflow> altogether and the reference counter restarts '
        'at 0 with it',
        '"run1, run2, ..." is read as consecutive: a successful numbered '
        'install must create run<counter+1>',
        'after the most recent run has been cleaned, runN may be absent '
        '(cylc removes the broken link) or point at the newest remaining '
        'run; a dangling or older target is a violation',
        'named and --no-run-name installs must leave runN alone (implied by '
        'runN = most recent numbered run)',
        'a refused install is not judged for being refused, only for having '
        'touched existing run directories or runN; reinstall and clean are '
        'judged for the runN clause only',
        'each operation starts from the logging state of a fresh process '
        '(the harness drops the cylc-install/cylc-reinstall log handlers '
        'between operations, as one CLI command = one process)',
    ])


def replay(payload):
    from ..core import scratch_root
    base = scratch_root() / 'c48-replay'
    if base.exists():
        shutil.rmtree(base)
    base.mkdir(parents=True)
    src = make_source(base)
    crd = use_home(base / 'home')
    model = new_model()
    out = []
    done = []
    try:
        for text in payload['history']:
            op = (text[0], text[1:]) if text[0] in 'NRC' else (text[0],)
            pre = snapshot(crd)
            res = apply_op(op, src)
            post = snapshot(crd)
            bad, model = judge(op, pre, post, res, model, str(crd))
            done.append(text)
            for sig, what in bad:
                out.append(Violation(
                    sig, f'history {" ".join(done)}: {what}', dict(payload)))
    finally:
        shutil.rmtree(base, ignore_errors=True)
    return out
