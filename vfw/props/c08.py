"""C08 Flow numbers propagate, merge and are never reused."""
from __future__ import annotations

from ..core import Ctx, HarnessError, Result
from ..sched.catalogue import A, AND, OR, E, spec_from
from ..sched.mon_c08 import COUNT, FlowProfile, RefFlows
from ..sched.monitors import PoolInvariants
from ..sched.run import explore_all, replay_violation, result_from

LEVEL = 'model_checking'

ASSUME = [
    'bounded catalogue: one-cycle chain (a => b => c), diamond '
    '(a => b & c => d) and OR-diamond graphs; integer cycling; localhost '
    'jobs; every job succeeds',
    'operator alphabet: trigger / set --out / set --pre=all of single '
    'instances with --flow=new | none | N | all (default) and --wait; the '
    'alphabet is partitioned into profiles (see bounds), each profile offers '
    'its commands at every main-loop boundary unless marked early (= before '
    'the first job launch) / after-restart; 1-2 commands per execution in '
    'quick, up to 3 in thorough; in the restart profiles one stop --now --now'
    ' + restart at any boundary between two commands',
    'finished-and-complete = the instance left the pool succeeded with its '
    'outputs complete (real job or forced by `cylc set`) while carrying the '
    'flow; a manual trigger of the instance itself erases that record for the'
    ' triggered flows (the statement exempts manual re-runs)',
    'flow-wait (--wait) and no-flow parents are not required to spawn; only '
    'the flow numbers of what is spawned/merged are judged (C01 judges '
    'whether children are spawned)',
    'the scheduler does not process jobs while it is down (stop --now --now '
    'orphans them; they are polled at restart)',
]

a, b, c, d = 'a', 'b', 'c', 'd'
SHAPES = {
    'chain2': [E(A(a), b)],
    'chain': [E(A(a), b), E(A(b), c)],
    'diamond': [E(A(a), b), E(A(a), c), E(AND(A(b), A(c)), d)],
    'ordiamond': [E(A(a), b), E(A(a), c), E(OR(A(b), A(c)), d)],
}


def trig(task, flow, wait=False):
    kw = {'tasks': [f'1/{task}'],
          'flow': list(flow) if isinstance(flow, list) else [flow]}
    if wait:
        kw['flow_wait'] = True
    return ('force_trigger_tasks', kw)


def setout(task, flow, wait=False):
    kw = {'tasks': [f'1/{task}'], 'flow': [flow] if flow else [],
          'outputs': []}
    if wait:
        kw['flow_wait'] = True
    return ('set', kw)


def setpre(task, flow, wait=False):
    kw = {'tasks': [f'1/{task}'], 'flow': [flow] if flow else [],
          'prerequisites': ['all']}
    if wait:
        kw['flow_wait'] = True
    return ('set', kw)


PAUSED = {'options': {'paused_start': True}}


def rows(tier: str):
    """(name, shape, [ops of command 1, ops of command 2, ...], restarts,
    where each command is offered, extra spec)."""
    q = [
        # new flows: numbers unique across a restart, also after an explicit
        # number. Paused workflow: only triggered tasks run, the original
        # flow waits (small space; nothing of flow 2 is left in the pool)
        ('paused-new-restart-new', 'chain2',
         [[trig(b, 'new'), trig(b, '2')], [trig(b, 'new')]], 1,
         ['any', 'any'], PAUSED),
        # the same in a running workflow
        ('c2-new-restart-new', 'chain2',
         [[trig(b, 'new')], [trig(b, 'new')]], 1,
         ['early', 'after-restart'], {}),
        # a second flow chasing the first one: spawning, merging
        ('chain-new', 'chain', [[trig(a, 'new')]], 0, None, {}),
        ('diamond-new', 'diamond', [[trig(a, 'new')]], 0, None, {}),
        # a flow reaching finished tasks again
        ('chain-rerun', 'chain',
         [[trig(a, '1'), trig(a, 'all'), trig(b, ['1', '2'])]], 0, None, {}),
        # no-flow task absorbed by the flow; flow-wait; cylc set
        ('chain-none', 'chain', [[trig(b, 'none')]], 0, None, {}),
        ('chain-wait', 'chain',
         [[trig(b, '1', True), trig(b, '2', True)]], 0, None, {}),
        ('chain-set', 'chain',
         [[setout(b, 'new'), setpre(c, 'new'), setout(a, '1', True)]], 0,
         None, {}),
    ]
    if tier == 'quick':
        return q
    return q + [
        # three commands: explicit out-of-sequence number, then two new flows
        ('paused-3-new-new', 'chain2',
         [[trig(b, '3')], [trig(b, 'new')], [trig(b, 'new')]], 1, None,
         PAUSED),
        ('chain-3-restart-new', 'chain',
         [[trig(c, '3')], [trig(a, 'new'), setout(b, 'new')]], 1,
         ['early', 'after-restart'], {}),
        ('chain-new-new', 'chain',
         [[trig(a, 'new')], [trig(a, 'new'), trig(c, 'new')]], 0, None, {}),
        ('chain-rerun-2', 'chain',
         [[trig(a, '1')], [trig(b, 'new'), setpre(c, '1')]], 0, None, {}),
        ('chain-none-new', 'chain',
         [[trig(b, 'none')], [trig(a, 'new')]], 0, None, {}),
        ('ordiamond-new', 'ordiamond', [[trig(a, 'new')]], 0, None, {}),
        ('chain-wait-all', 'chain',
         [[trig(b, '1', True)], [trig(a, 'all')]], 0, None, {}),
        ('chain-set-set', 'chain',
         [[setout(a, 'new')], [setout(b, '1', True)]], 0, None, {}),
    ]


def catalogue(tier: str):
    out = []
    for name, shape, op_lists, restarts, whens, extra in rows(tier):
        sp = spec_from([('P1', SHAPES[shape])], 1, 1, name=name, **extra)
        sp['op_lists'] = op_lists
        sp['restarts'] = restarts
        sp['whens'] = whens
        out.append(sp)
    return out


def make_factory(spec, tier='quick'):
    def factory():
        return FlowProfile(
            spec, op_lists=spec['op_lists'], whens=spec['whens'],
            stops=('REQUEST_NOW_NOW',) if spec['restarts'] else (),
            max_restarts=spec['restarts'], stop_after_op=True,
            monitors=[RefFlows, PoolInvariants], jump=())
    return factory


def run(ctx: Ctx) -> Result:
    specs = catalogue(ctx.tier)
    COUNT.clear()
    st = explore_all(
        ctx, [make_factory(s, ctx.tier) for s in specs],
        max_states=ctx.pick(6000, 60000), max_seconds=ctx.pick(1500, 6000))
    seen = COUNT.collect()
    if not st.violations and not st.error:
        for k in ('new-flow-allocations', 'new-flow-allocations-after-restart',
                  'children-spawned', 'children-merged', 'merges',
                  'children-spawned-by-multi-flow-parent',
                  'finished-complete-recorded', 'restarts',
                  'finished-child-not-respawned', 'children-retro-spawned',
                  'submissions-of-previously-finished-instances'):
            if not seen.get(k):
                raise HarnessError(f'vacuous: no {k} in the whole exploration')
    return result_from(
        ctx, st, prop='C08',
        bounds={'workflows': [s['name'] for s in specs],
                'profiles': {
                    s['name']: {
                        'commands': [[f"{n} {' '.join(k['tasks'])} "
                                      f"flow={','.join(k['flow']) or 'all'}"
                                      f"{' wait' if k.get('flow_wait') else ''}"
                                      f"{' pre=all' if k.get('prerequisites') else ''}"
                                      f"{' out' if 'outputs' in k else ''}"
                                      for n, k in ops]
                                     for ops in s['op_lists']],
                        'offered': s['whens'] or 'every boundary',
                        'restarts': s['restarts']}
                    for s in specs},
                'operator commands per execution': ctx.pick('<=2', '<=3'),
                'restarts': '<=1'},
        assumptions=ASSUME, min_states=100,
        extra_cov={'observed (lower bounds, per-process counters)': seen})


def replay(payload):
    specs = {s['name']: s for s in catalogue('thorough')}
    specs.update({s['name']: s for s in catalogue('quick')})
    return replay_violation(
        payload, lambda pl: make_factory(
            specs[pl['spec_name']], pl.get('tier', 'quick')))
