"""C12 Required/optional output classification matches the expression.

Engine B: every and/or completion expression up to a leaf bound over the
variables {succeeded, failed, x, y_2, expired, submit_failed} is pushed through
the real classification functions (get_optional_outputs,
TaskOutputs.iter_required_messages), the real skip-mode output generator
(run_modes.skip.process_outputs on a real TaskProxy) and, crossed with every
graph optionality declaration, the real validation
(WorkflowConfig._check_completion_expression on graph-derived TaskDefs, plus
full WorkflowConfig loads for a cross-section).

Reference: a brute-force truth table over an independently parsed expression
tree.  Nothing here calls cylc's evaluator to decide what is right.
"""
from __future__ import annotations

import functools
import itertools
import re
from pathlib import Path

from ..core import (
    Ctx, HarnessError, Result, Violation, chunks, pmap, scratch_root,
)

LEVEL = 'exploration'

# completion variables the generator draws leaves from
VARS = ('succeeded', 'failed', 'x', 'y_2', 'expired', 'submit_failed')
# every output (trigger -> message) of the tasks we build; custom outputs have
# messages that differ from the trigger and one trigger contains a hyphen
STD_TRIGGERS = (
    'expired', 'submitted', 'submit-failed', 'started', 'succeeded', 'failed')
CUSTOM = {'x': 'msg x', 'y-2': 'msg y two'}
TRIGGERS = STD_TRIGGERS + tuple(CUSTOM)
PRE_EXEC = ('expired', 'submit_failed')


def compvar(trigger: str) -> str:
    return trigger.replace('-', '_')


def message(trigger: str) -> str:
    return CUSTOM.get(trigger, trigger)


COMPVARS = tuple(compvar(t) for t in TRIGGERS)
CV2TRIG = {compvar(t): t for t in TRIGGERS}


# ---------------------------------------------------------------- reference

_TOKEN = re.compile(r'\s*(\(|\)|[A-Za-z_][A-Za-z0-9_]*)')


def parse(text: str):
    """Tiny recursive-descent parser: names, and, or, parentheses.

    Tree: ('v', name) | ('and', (kids...)) | ('or', (kids...)).
    Raises ValueError on anything else.
    """
    toks = []
    pos = 0
    text = text.strip()
    while pos < len(text):
        m = _TOKEN.match(text, pos)
        if not m:
            raise ValueError(f'bad token at {pos}: {text!r}')
        toks.append(m.group(1))
        pos = m.end()
    idx = [0]

    def peek():
        return toks[idx[0]] if idx[0] < len(toks) else None

    def take():
        tok = peek()
        idx[0] += 1
        return tok

    def p_or():
        kids = [p_and()]
        while peek() == 'or':
            take()
            kids.append(p_and())
        return kids[0] if len(kids) == 1 else ('or', tuple(kids))

    def p_and():
        kids = [p_atom()]
        while peek() == 'and':
            take()
            kids.append(p_atom())
        return kids[0] if len(kids) == 1 else ('and', tuple(kids))

    def p_atom():
        tok = take()
        if tok == '(':
            sub = p_or()
            if take() != ')':
                raise ValueError('unbalanced')
            return sub
        if tok is None or tok in (')', 'and', 'or'):
            raise ValueError(f'unexpected {tok}')
        return ('v', tok)

    tree = p_or()
    if peek() is not None:
        raise ValueError('trailing tokens')
    return tree


def ev(tree, env) -> bool:
    kind = tree[0]
    if kind == 'v':
        return env[tree[1]]
    if kind == 'and':
        return all(ev(k, env) for k in tree[1])
    return any(ev(k, env) for k in tree[1])


def leaves(tree) -> frozenset:
    if tree[0] == 'v':
        return frozenset((tree[1],))
    out = frozenset()
    for k in tree[1]:
        out |= leaves(k)
    return out


def render(tree, style: str) -> str:
    """style 'min': only the parentheses precedence needs; 'full': every
    operator group parenthesised (also the outermost); 'tight': minimal with no
    blank next to a parenthesis and doubled blanks elsewhere."""
    def go(t, parent):
        if t[0] == 'v':
            return t[1]
        sep = f' {t[0]} ' if style != 'tight' else f'  {t[0]}  '
        body = sep.join(go(k, t[0]) for k in t[1])
        if style == 'full':
            return f'({body})'
        if parent == 'and' and t[0] == 'or':
            return f'({body})'
        if parent == 'or' and t[0] == 'and' and style == 'min':
            # cylc's own default expressions write "(a and b) or c"
            return f'({body})'
        return body
    return go(tree, None)


def classify(tree):
    """{compvar: 'required' | 'optional' | None} by truth table, and the
    flag "vacuous" (the expression is false with every output present but
    expired/submit_failed absent, so *every* output is vacuously required)."""
    ref = leaves(tree)
    base = {v: v not in PRE_EXEC for v in COMPVARS}
    vacuous = not ev(tree, base)
    out = {}
    for o in COMPVARS:
        if o not in ref:
            out[o] = None
            continue
        env = dict(base)
        env[o] = False
        out[o] = 'optional' if ev(tree, env) else 'required'
    return out, vacuous


def truth_table(tree):
    vs = sorted(leaves(tree))
    bits = 0
    for i, vals in enumerate(itertools.product((False, True), repeat=len(vs))):
        if ev(tree, dict(zip(vs, vals))):
            bits |= 1 << i
    return (tuple(vs), bits)


# -------------------------------------------------------------- enumeration

@functools.lru_cache(None)
def trees(n: int, op: str):
    """Canonical (children as sorted multisets, and/or alternating) trees
    with n leaves and root `op` ('v' = a leaf)."""
    if op == 'v':
        return [('v', v) for v in VARS] if n == 1 else []
    other = 'or' if op == 'and' else 'and'

    def parts(total, maxpart):
        if total == 0:
            yield ()
            return
        for p in range(min(total, maxpart), 0, -1):
            for rest in parts(total - p, p):
                yield (p,) + rest

    out = []
    for part in parts(n, n - 1):
        if len(part) < 2:
            continue
        pools = []
        for size, grp in itertools.groupby(part):
            cnt = len(list(grp))
            cands = trees(size, 'v') if size == 1 else trees(size, other)
            pools.append(list(
                itertools.combinations_with_replacement(cands, cnt)))
        for combo in itertools.product(*pools):
            out.append((op, tuple(k for grp in combo for k in grp)))
    return out


def all_trees(max_leaves: int):
    out = []
    for n in range(1, max_leaves + 1):
        out.extend(trees(n, 'v'))
        out.extend(trees(n, 'and'))
        out.extend(trees(n, 'or'))
    return out


# graph declarations ---------------------------------------------------------

def declarations():
    """Every optionality declaration the graph syntax admits for the six
    outputs: None = not mentioned, 'req' = "a:o => z", 'opt' = "a:o? => z".
    (expired/submit-failed cannot be required; succeeded and failed may only
    both appear when both are optional.)"""
    sf = [(None, None), ('req', None), ('opt', None),
          (None, 'req'), (None, 'opt'), ('opt', 'opt')]
    tri = [None, 'req', 'opt']
    duo = [None, 'opt']
    out = []
    for (s, f), x, y, e, u in itertools.product(sf, tri, tri, duo, duo):
        out.append({
            'succeeded': s, 'failed': f, 'x': x, 'y-2': y,
            'expired': e, 'submit-failed': u})
    return out


def flow_text(tasks):
    """tasks: [(name, decl, completion or None)]"""
    lines = ['r => ' + ' & '.join(n for n, _, _ in tasks)]
    for name, decl, _ in tasks:
        for trig, how in decl.items():
            if how:
                lines.append(
                    f"{name}:{trig}{'?' if how == 'opt' else ''} => z")
    rt = []
    for name, _, comp in tasks:
        if comp is not None:
            rt.append(f'    [[{name}]]\n        completion = {comp}')
    graph = '\n            '.join(lines)
    outs = '\n'.join(
        f'            {t} = {m}' for t, m in CUSTOM.items())
    return (
        '[scheduler]\n'
        '    allow implicit tasks = True\n'
        '[scheduling]\n'
        '    [[graph]]\n'
        f'        R1 = """\n            {graph}\n        """\n'
        '[runtime]\n'
        '    [[root]]\n'
        '        [[[outputs]]]\n'
        f'{outs}\n'
        + '\n'.join(rt) + '\n'
    )


_LOADS = [0]


def load_config(scratch: Path, text: str, tag: str):
    """Full WorkflowConfig load of a generated flow.cylc (the real path a
    workflow definition takes through validation)."""
    import os
    from cylc.flow.config import WorkflowConfig
    from cylc.flow.scheduler_cli import RunOptions
    _LOADS[0] += 1
    d = Path(scratch) / f'c12-{os.getpid()}-{tag}-{_LOADS[0]}'
    d.mkdir(parents=True, exist_ok=True)
    f = d / 'flow.cylc'
    f.write_text(text)
    try:
        return WorkflowConfig(f'c12{tag}', str(f), RunOptions())
    finally:
        import shutil
        shutil.rmtree(d, ignore_errors=True)


def consistency(decl, cls):
    """Unambiguous inconsistencies between a graph declaration and the
    classification of an expression: [(compvar, cell)].

    cell: 'opt/required'   optional in the graph, required by the expression
          'req/optional'   required in the graph, optional in the expression
          'req/unref'      required in the graph, not referenced
    Everything else (not mentioned in the graph; optional + unreferenced;
    ...) is not treated as inconsistent."""
    bad = []
    for trig, how in decl.items():
        c = cls[compvar(trig)]
        if how == 'opt' and c == 'required':
            bad.append((compvar(trig), 'opt/required'))
        elif how == 'req' and c == 'optional':
            bad.append((compvar(trig), 'req/optional'))
        elif how == 'req' and c is None:
            bad.append((compvar(trig), 'req/unref'))
    return bad


# ------------------------------------------------------------------ judging

def kind_of(cv: str) -> str:
    if cv in PRE_EXEC:
        return cv
    if cv in ('succeeded', 'failed'):
        return cv
    if cv in ('submitted', 'started'):
        return 'implied-std'
    return 'custom'


def expr_shape(tree) -> str:
    """Which pre-execution variables the expression mentions (the seam of
    the classification code)."""
    ref = leaves(tree)
    got = [v for v in PRE_EXEC if v in ref]
    return 'expr-has-' + '+'.join(got) if got else 'expr-plain'


NAMES = {False: 'required', True: 'optional', None: None}


def check_classify(text, tree=None):
    """Part 1: get_optional_outputs vs the truth table."""
    from cylc.flow.task_outputs import get_optional_outputs
    tree = tree or parse(text)
    want, vacuous = classify(tree)
    raw = get_optional_outputs(text, TRIGGERS)
    bad = []
    if set(raw) != set(COMPVARS):
        bad.append({
            'mode': 'classify', 'expr': text,
            'sig': 'classify:wrong-key-set',
            'what': f'get_optional_outputs({text!r}) keys {sorted(raw)}'})
        return bad
    for cv in COMPVARS:
        got = raw[cv]
        got = NAMES.get(got, repr(got)) if isinstance(
            got, (bool, type(None))) else repr(got)
        if vacuous and want[cv] is None:
            continue   # every output is vacuously "required": not judged
        if got != want[cv]:
            bad.append({
                'mode': 'classify', 'expr': text, 'output': cv,
                'got': got, 'want': want[cv],
                'sig': (f'classify:{got}-but-{want[cv]}:'
                        f"{'pre-exec' if cv in PRE_EXEC else 'ordinary'}"
                        f'-output:{expr_shape(tree)}'),
                'what': (f'get_optional_outputs({text!r}) classifies {cv} as '
                         f'{got}; truth table says {want[cv]}')})
    return bad


def make_proxy(tdef, expr):
    from cylc.flow.cycling.integer import IntegerPoint
    from cylc.flow.id import Tokens
    from cylc.flow.task_proxy import TaskProxy
    tdef.rtconfig['completion'] = expr
    return TaskProxy(Tokens('~vf/c12'), tdef, IntegerPoint('1'))


def check_required_and_skip(tdef, text, tree=None, default_expr=False):
    """Parts 2+3 on a real TaskProxy whose completion expression is text."""
    from cylc.flow.run_modes.skip import process_outputs
    tree = tree or parse(text)
    want, vacuous = classify(tree)
    itask = make_proxy(tdef, text)
    outs = itask.state.outputs
    bad = []
    try:
        got = list(outs.iter_required_messages())
    except Exception as exc:
        return [{
            'mode': 'required', 'expr': text,
            'sig': f'required-messages:raises-{type(exc).__name__}',
            'what': (f'iter_required_messages() for {text!r} raises '
                     f'{type(exc).__name__}: {exc}')}], 'ok'
    ref = leaves(tree)
    req_msgs = {message(CV2TRIG[cv]) for cv, c in want.items()
                if c == 'required'}
    judged = {message(CV2TRIG[cv]) for cv in COMPVARS
              if not (vacuous and cv not in ref)}
    gset = set(got) & judged
    for kind, msgs in (('missing', req_msgs - gset), ('extra', gset - req_msgs)):
        for m in sorted(msgs):
            cv = next(c for c in COMPVARS if message(CV2TRIG[c]) == m)
            bad.append({
                'mode': 'required', 'expr': text, 'output': cv,
                'sig': (f'required-messages:{kind}:{kind_of(cv)}:'
                        f'{expr_shape(tree)}'),
                'what': (f'iter_required_messages() for {text!r} = '
                         f'{sorted(got)}: {kind} {m!r} (truth table: '
                         f'{sorted(req_msgs)})')})
    unknown = set(got) - {message(t) for t in TRIGGERS}
    if unknown:
        bad.append({
            'mode': 'required', 'expr': text,
            'sig': 'required-messages:not-a-message',
            'what': f'iter_required_messages() yields {sorted(unknown)}'})
    # skip mode, default settings ([skip]outputs unset)
    if vacuous:
        return bad, 'skip-vacuous'
    if want['succeeded'] == 'required' and want['failed'] == 'required':
        return bad, 'skip-unsat'
    for how, rtc in (('none', None), ('rtconfig', tdef.rtconfig)):
        try:
            emitted = set(process_outputs(itask, rtc))
        except Exception as exc:
            bad.append({
                'mode': 'skip', 'expr': text, 'rtconfig': how,
                'default_expr': default_expr,
                'sig': f'skip-default:raises-{type(exc).__name__}',
                'what': (f'skip mode (default) for completion {text!r}: '
                         f'process_outputs raises {type(exc).__name__}: '
                         f'{exc}')})
            continue
        fin = sorted(emitted & {'succeeded', 'failed'})
        missing = sorted(req_msgs - emitted)
        if missing:
            cvs = [next(c for c in COMPVARS if message(CV2TRIG[c]) == m)
                   for m in missing]
            if cvs == ['failed'] and fin == ['succeeded']:
                sig = 'skip-default:failed-required-but-succeeded-emitted'
            else:
                sig = ('skip-default:missing-required:'
                       + '+'.join(sorted({kind_of(c) for c in cvs})))
            bad.append({
                'mode': 'skip', 'expr': text, 'rtconfig': how, 'sig': sig,
                'default_expr': default_expr,
                'what': (f'skip mode (default) for completion {text!r} emits '
                         f'{sorted(emitted)} but required outputs '
                         f'{sorted(req_msgs)}: missing {missing}')})
        elif len(fin) != 1:
            bad.append({
                'mode': 'skip', 'expr': text, 'rtconfig': how,
                'default_expr': default_expr,
                'sig': f'skip-default:finish-outputs={"+".join(fin) or "0"}',
                'what': (f'skip mode (default) for completion {text!r} emits '
                         f'{sorted(emitted)}: not exactly one of '
                         'succeeded/failed')})
    return bad, 'ok'


def direct_check(cfg, name, text) -> bool:
    """True = the real validation accepts."""
    from cylc.flow.exceptions import WorkflowConfigError
    try:
        cfg._check_completion_expression(name, text, False)
    except WorkflowConfigError:
        return False
    return True


def validation_violation(decl, text, bad, mode):
    cv, cell = bad[0]
    return {
        'mode': mode, 'expr': text, 'decl': decl,
        'sig': f'validation-accepts-inconsistent:{cell}:{kind_of(cv)}:{mode}',
        'what': (f'completion = {text!r} accepted ({mode}) although '
                 + '; '.join(f'{c} is {cell.split("/")[0]} in the graph but '
                             f'{cell.split("/")[1]} in the expression'
                             for c, cell in bad)
                 + f' (graph: {fmt_decl(decl)})')}


def swap_pre_exec(text: str) -> str:
    return (text.replace('submit_failed', '\0').replace('expired',
            'submit_failed').replace('\0', 'expired'))


def swap_decl(decl):
    out = dict(decl)
    out['expired'], out['submit-failed'] = (
        decl['submit-failed'], decl['expired'])
    return out


def fmt_decl(decl):
    return ', '.join(
        f"{t}{'?' if h == 'opt' else ''}" for t, h in decl.items() if h
    ) or 'nothing declared'


# ------------------------------------------------------------------ workers

_G = {}   # inherited by forked workers: trees, cfg, decls


def _work_semantic(idx_chunk):
    """Parts 1-3 for a slice of expressions."""
    trs = _G['trees']
    tdef = _G['cfg'].taskdefs['a0']
    bad = []
    n_eval = 0
    funcs = set()
    clsvecs = set()
    counts = {'vacuous': 0, 'skip-unsat': 0, 'skip-vacuous': 0, 'ok': 0}
    for i in idx_chunk:
        tree = trs[i]
        cls, vac = classify(tree)
        counts['vacuous'] += vac
        funcs.add(truth_table(tree))
        clsvecs.add(tuple(cls[c] for c in COMPVARS))
        for style in ('min', 'full', 'tight'):
            text = render(tree, style)
            if style != 'min' and text == render(tree, 'min'):
                continue
            if parse(text) != tree:
                raise HarnessError(f'render/parse round trip: {text}')
            b = check_classify(text, tree)
            n_eval += 1
            if b and len(bad) < 300:
                bad.extend(b[:2])
        text = render(tree, 'min')
        b, st = check_required_and_skip(tdef, text, tree)
        n_eval += 2
        counts[st] += 1
        if b and len(bad) < 300:
            bad.extend(b[:2])
    return bad, n_eval, funcs, clsvecs, counts


def _work_validation(idx_chunk):
    """Part 4 (direct leg): every declaration x a slice of expressions."""
    trs = _G['trees']
    cfg = _G['cfg']
    decls = _G['decls']
    per_cell = _G['per_cell']
    bad = []
    stats = {'accepted': 0, 'rejected': 0, 'inconsistent': 0,
             'rejected_though_no_inconsistency': 0}
    cells = {}
    # first inconsistent expression index per (declaration, cell)
    first_bad = {}
    first_ok = {}
    over = []
    for i in idx_chunk:
        tree = trs[i]
        text = render(tree, 'min')
        cls, _vac = classify(tree)
        text_sw = swap_pre_exec(text)
        for d, decl in enumerate(decls):
            inc = consistency(decl, cls)
            acc = direct_check(cfg, f'a{d}', text)
            stats['accepted' if acc else 'rejected'] += 1
            # the statement treats the two pre-execution outcomes alike:
            # exchanging expired and submit-failed in both the graph
            # declaration and the expression must not change the verdict
            # (each unordered pair of declarations judged once)
            dsw = _G['dswap'][d]
            if d < dsw:
                acc_sw = direct_check(cfg, f'a{dsw}', text_sw)
                stats['symmetry_pairs'] = stats.get('symmetry_pairs', 0) + 1
                if acc_sw != acc and len(bad) < 300:
                    a_d, a_t = (decl, text) if acc else (decls[dsw], text_sw)
                    r_d, r_t = (decls[dsw], text_sw) if acc else (decl, text)
                    bad.append({
                        'sig': 'validation:expired/submit-failed-asymmetry',
                        'expr': a_t, 'decl': a_d,
                        'what': (
                            f'completion = {a_t!r} is accepted with the '
                            f'graph declaring {fmt_decl(a_d)}, but the same '
                            f'with expired and submit-failed exchanged '
                            f'({r_t!r}; graph: {fmt_decl(r_d)}) is '
                            f'rejected')})
            if inc:
                stats['inconsistent'] += 1
                for _cv, cell in inc:
                    cells[cell] = cells.get(cell, 0) + 1
                if len(inc) == 1:
                    lst = first_bad.setdefault((d, inc[0][1]), [])
                    if len(lst) < per_cell:
                        lst.append(i)
                if acc:
                    if len(bad) < 300:
                        bad.append(
                            validation_violation(decl, text, inc, 'direct'))
            elif acc:
                first_ok.setdefault(d, i)
            else:
                stats['rejected_though_no_inconsistency'] += 1
                if len(over) < 3:
                    over.append({'graph': fmt_decl(decl), 'completion': text})
    return bad, stats, cells, first_bad, first_ok, over


def _work_loads(job):
    """Part 4 (full-load leg): single-task flows expected to be rejected."""
    from cylc.flow.exceptions import WorkflowConfigError
    scratch, items = job
    trs = _G['trees']
    decls = _G['decls']
    bad = []
    rejected = 0
    for d, i in items:
        text = render(trs[i], 'min')
        cls, _ = classify(trs[i])
        inc = consistency(decls[d], cls)
        try:
            load_config(scratch, flow_text([('a0', decls[d], text)]), 'r')
        except WorkflowConfigError:
            rejected += 1
            continue
        bad.append(validation_violation(decls[d], text, inc, 'load'))
    return bad, rejected, len(items)


# --------------------------------------------------------------------- run

def run(ctx: Ctx) -> Result:
    from cylc.flow.exceptions import WorkflowConfigError
    n_sem = ctx.pick(5, 6)       # leaves, classification/skip legs
    n_val = ctx.pick(4, 5)       # leaves, validation leg (x 216 declarations)
    per_cell = ctx.pick(1, 4)    # full loads per (declaration, cell)
    trs = all_trees(n_sem)
    n_val_trees = len(all_trees(n_val))   # a prefix of trs (size ordered)
    if all_trees(n_val) != trs[:n_val_trees] and n_val != n_sem:
        # size-ordered enumeration is not a prefix: index separately
        raise HarnessError('enumeration order changed')
    decls = declarations()
    cfg = load_config(
        ctx.scratch,
        flow_text([(f'a{d}', decl, None) for d, decl in enumerate(decls)]),
        'base')
    # the graph must have produced exactly the declared optionality
    for d, decl in enumerate(decls):
        outs = cfg.taskdefs[f'a{d}'].outputs
        for trig, how in decl.items():
            flag = outs[trig][1]
            want = {'req': True, 'opt': False, None: None}[how]
            if flag != want and not (
                    trig == 'succeeded' and how is None and flag is True
                    and decl['failed'] is None):
                raise HarnessError(
                    f'declaration {fmt_decl(decl)} gave {trig}={flag}')
    dswap = [decls.index(swap_decl(decl)) for decl in decls]
    _G.update(trees=trs, cfg=cfg, decls=decls, per_cell=per_cell,
              dswap=dswap)

    nchunk = ctx.workers * 6
    vios = []
    evals = 0

    # parts 1-3
    funcs, clsvecs = set(), set()
    counts = {'vacuous': 0, 'skip-unsat': 0, 'skip-vacuous': 0, 'ok': 0}
    for bad, n, fs, cv, cn in pmap(
            _work_semantic, chunks(range(len(trs)), nchunk), ctx.workers):
        vios.extend(bad)
        evals += n
        funcs |= fs
        clsvecs |= cv
        for k in counts:
            counts[k] += cn[k]

    # part 3 on the default (derived) expression of every declared task
    dflt = {}
    for d, decl in enumerate(decls):
        tdef = cfg.taskdefs[f'a{d}']
        text = tdef.rtconfig['completion']
        dflt.setdefault(text, fmt_decl(decl))
        b, _st = check_required_and_skip(
            tdef, text, parse(text), default_expr=True)
        for v in b:
            v['decl'] = decl
        vios.extend(b[:2])
        evals += 2

    # part 4 direct
    stats = {'accepted': 0, 'rejected': 0, 'inconsistent': 0,
             'rejected_though_no_inconsistency': 0}
    cells = {}
    first_bad, first_ok, over = {}, {}, []
    for bad, st, ce, fb, fo, ov in pmap(
            _work_validation, chunks(range(n_val_trees), nchunk),
            ctx.workers):
        vios.extend(bad)
        for k in st:
            stats[k] = stats.get(k, 0) + st[k]
        for k, v in ce.items():
            cells[k] = cells.get(k, 0) + v
        for k, v in fb.items():
            first_bad[k] = sorted(set(first_bad.get(k, []) + v))[:per_cell]
        for k, v in fo.items():
            first_ok[k] = min(v, first_ok.get(k, v))
        over.extend(ov)
    evals += stats['accepted'] + stats['rejected']
    for cell in ('opt/required', 'req/optional', 'req/unref'):
        if not cells.get(cell):
            raise HarnessError(f'inconsistency cell {cell} never exercised')
    if not stats['accepted'] or not stats['rejected']:
        raise HarnessError(f'validation leg vacuous: {stats}')

    # part 4 full loads: (a) one flow holding, for every declaration, an
    # expression the direct call accepts - the load must agree; (b) a
    # single-task flow for the first inconsistent expression(s) per
    # (declaration, cell) - must be rejected
    tasks = [(f'a{d}', decls[d], render(trs[i], 'min'))
             for d, i in sorted(first_ok.items())]
    try:
        load_config(ctx.scratch, flow_text(tasks), 'ok')
    except WorkflowConfigError as exc:
        raise HarnessError(
            'full load rejects expressions the direct call accepted: '
            f'{exc}') from None
    evals += 1
    items = [(d, i) for (d, _cell), lst in sorted(first_bad.items())
             for i in lst]
    load_rejected = load_total = 0
    for bad, rej, tot in pmap(
            _work_loads,
            [(str(ctx.scratch), c) for c in chunks(items, nchunk)],
            ctx.workers):
        vios.extend(bad)
        load_rejected += rej
        load_total += tot
    evals += load_total

    seen = set()
    violations = []
    vios.sort(key=lambda b: (b['sig'], len(b['expr']), b['expr']))
    for b in vios:
        key = (b['sig'], b['expr'], b.get('rtconfig'),
               fmt_decl(b['decl']) if b.get('decl') else None)
        if key in seen:
            continue
        seen.add(key)
        payload = {k: v for k, v in b.items() if k not in ('what',)}
        violations.append(Violation(b['sig'], b['what'], payload))

    nontriv = sum(1 for vs, _ in funcs if len(vs) >= 2)
    step = max(1, len(trs) // 6)
    cov = {
        'evaluations': evals,
        'distinct_nontrivial': nontriv,
        'rule': (
            'one evaluation = one expression text through one real function '
            '(get_optional_outputs / iter_required_messages+skip '
            'process_outputs on a TaskProxy / _check_completion_expression '
            'for one declaration / one full WorkflowConfig load); '
            'non-trivial = distinct boolean functions (variable set, truth '
            'table) of >= 2 variables among the enumerated expressions'),
        'expressions': len(trs),
        'max_leaves_classification_and_skip': n_sem,
        'max_leaves_validation': n_val,
        'expressions_validation': n_val_trees,
        'variables': list(VARS),
        'outputs': {t: message(t) for t in TRIGGERS},
        'distinct_boolean_functions': len(funcs),
        'distinct_classification_vectors': len(clsvecs),
        'vacuous_expressions': counts['vacuous'],
        'skip_judged': counts['ok'],
        'skip_not_judged_vacuous': counts['skip-vacuous'],
        'skip_not_judged_succeeded_and_failed_both_required':
            counts['skip-unsat'],
        'graph_declarations': len(decls),
        'default_expressions_distinct': len(dflt),
        'validation_direct': stats,
        'validation_inconsistency_cells': cells,
        'validation_full_loads_expected_rejected': load_total,
        'validation_full_loads_rejected': load_rejected,
        'validation_full_load_batch_accepted_tasks': len(tasks),
        'samples': (
            [{'completion': render(trs[i], 'min'),
              'classification': {
                  k: v for k, v in classify(trs[i])[0].items() if v}}
             for i in range(step - 1, len(trs), step)][:6]
            + [{'default_completion': t, 'graph': g}
               for t, g in list(dflt.items())[:: max(1, len(dflt) // 4)][:4]]
            + [{'rejected_though_no_unambiguous_inconsistency': o}
               for o in over[:2]]),
        'exhaustive': True,
    }
    return Result(cov, violations, assumptions=[
        'expressions: names/and/or/parentheses only (the whitelisted '
        'syntax), canonical up to commutativity, three textual renderings; '
        'decided up to the leaf bound only',
        'the expression is monotone, so "false whenever that output alone is '
        'missing" is evaluated at the single assignment where every other '
        'output is present and expired/submit_failed are absent',
        'when the expression is false even with every output present '
        '(expired/submit_failed absent) every output is vacuously required: '
        'unreferenced outputs are then not judged',
        'validation is judged in the stated direction only (accepted => no '
        'unambiguous inconsistency: optional-in-graph/required-in-expression,'
        ' required-in-graph/optional or unreferenced in expression); '
        'rejections of consistent pairs are counted, not judged; "declared in'
        ' the graph" is what the graph text says (an output not mentioned is '
        'unconstrained, including the implicit succeeded-required default)',
        'the exhaustive validation leg calls the real '
        'WorkflowConfig._check_completion_expression on TaskDefs produced by '
        'a real graph parse; full WorkflowConfig loads are run for a '
        'cross-section (every declaration: one accepted expression in a '
        'batch, and the first inconsistent expression(s) per inconsistency '
        'kind in single-task flows)',
        'skip mode: default settings only ([skip]outputs unset), real '
        'process_outputs on a real TaskProxy; expressions that require both '
        'succeeded and failed, or that no executed job can satisfy (false '
        'with every output present and expired/submit_failed absent), are '
        'not judged',
        'family triggers, suicide triggers and Cylc 7 compatibility mode are '
        'out of scope',
    ])


# ------------------------------------------------------------------ replay

def replay(payload):
    from cylc.flow.exceptions import WorkflowConfigError
    mode = payload['mode']
    text = payload['expr']
    tree = parse(text)
    scratch = scratch_root()
    out = []
    if mode == 'classify':
        out = check_classify(text, tree)
    elif mode in ('required', 'skip'):
        decl = payload.get('decl') or declarations()[0]
        if payload.get('default_expr'):
            cfg = load_config(scratch, flow_text([('a0', decl, None)]), 'rp')
            tdef = cfg.taskdefs['a0']
            text = tdef.rtconfig['completion']
            tree = parse(text)
        else:
            cfg = load_config(
                scratch, flow_text([('a0', declarations()[0], None)]), 'rp')
            tdef = cfg.taskdefs['a0']
        out, _ = check_required_and_skip(
            tdef, text, tree, payload.get('default_expr', False))
    elif mode in ('direct', 'load'):
        decl = payload['decl']
        cls, _ = classify(tree)
        inc = consistency(decl, cls)
        if not inc:
            return []
        if mode == 'direct':
            cfg = load_config(scratch, flow_text([('a0', decl, None)]), 'rp')
            acc = direct_check(cfg, 'a0', text)
        else:
            try:
                load_config(scratch, flow_text([('a0', decl, text)]), 'rp')
                acc = True
            except WorkflowConfigError:
                acc = False
        if acc:
            out = [validation_violation(decl, text, inc, mode)]
    return [
        Violation(b['sig'], b['what'],
                  {k: v for k, v in b.items() if k != 'what'})
        for b in out if b['sig'] == payload['sig']
    ] or [
        Violation(b['sig'], b['what'],
                  {k: v for k, v in b.items() if k != 'what'})
        for b in out
    ]
