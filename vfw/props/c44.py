"""C44 Private workflow files are created owner-only, whatever the umask.

Engine C (fault enumeration): every process umask (all 512) x every kind of
left-over state a start-up may meet in the service directory.  Each case sets
the umask in a forked worker process and then executes the real start-up
steps that create the private files, in the scheduler's order:

    workflow_files.register            (creates .service under the umask)
    pathutil.make_workflow_run_tree    (log/, share/, work/ under the umask)
    network.authentication.key_housekeeping   (remove + create ZMQ keys)
    WorkflowDatabaseManager.on_workflow_start(is_restart)

``is_restart`` is derived exactly as ``Scheduler.__init__`` does (private DB
path is a regular file).  The oracle is the statement: after start-up
completed, ``st_mode & 0o077 == 0`` for the private DB and for every
``*.key_secret`` file (server and client private keys).
"""
from __future__ import annotations

import json
import os
import shutil
import stat
import traceback
from pathlib import Path

from ..core import Ctx, HarnessError, Result, Violation, chunks, pmap

LEVEL = 'fault_enumeration'

# left-over state in .service before this start-up
#   fresh    nothing there (first start)
#   dbdir    a directory sits at the private DB path (handled explicitly by
#            on_workflow_start)
#   leftNNN  DB and the key files of a previous run exist with mode NNN
#            (0600 = normal restart; 0640/0666 = run dir restored/copied
#            without preserving modes)
SCENARIOS = ['fresh', 'dbdir', 'left600', 'left640', 'left666']
SCENARIOS_THOROUGH = SCENARIOS + ['left604', 'left644', 'left660', 'left777']
PRIVATE_KEYS = ('server.key_secret', 'client.key_secret')
DB = 'db'


def _wf_name(umask: int, scen: str) -> str:
    return f'c44/u{umask:03o}-{scen}'


def _prepare(run_dir: Path, scen: str) -> None:
    """Harness-side set-up, done under a plain 022 umask."""
    os.umask(0o022)
    if run_dir.exists():
        shutil.rmtree(run_dir)
    run_dir.mkdir(parents=True)
    (run_dir / 'flow.cylc').write_text(
        '[scheduling]\n    [[graph]]\n        R1 = a\n'
        '[runtime]\n    [[a]]\n')
    srv = run_dir / '.service'
    if scen == 'fresh':
        return
    srv.mkdir()
    if scen == 'dbdir':
        (srv / DB).mkdir()
        (srv / DB / 'junk').write_text('x')
        return
    mode = int(scen[4:], 8)
    # a real private DB from a previous run
    from cylc.flow.rundb import CylcWorkflowDAO
    dao = CylcWorkflowDAO(str(srv / DB), create_tables=True)
    dao.close()
    os.chmod(srv / DB, mode)
    (srv / 'client_public_keys').mkdir()
    for name in PRIVATE_KEYS + ('server.key',
                                'client_public_keys/client_localhost.key'):
        p = srv / name
        p.write_text('stale key material\n')
        os.chmod(p, mode)


def _startup(wf: str, umask: int) -> dict:
    """The real start-up steps, under the given umask.  Runs in the child."""
    from cylc.flow import workflow_files
    from cylc.flow.network.authentication import key_housekeeping
    from cylc.flow.pathutil import (
        get_workflow_run_dir, make_workflow_run_tree)
    from cylc.flow.workflow_db_mgr import WorkflowDatabaseManager

    run_dir = get_workflow_run_dir(wf)
    out = {'completed': False, 'error': None, 'is_restart': None}
    os.umask(umask)
    # control: what an unprotected open() gives under this umask
    ctl = os.path.join(run_dir, 'control-file')
    try:
        with open(ctl, 'w'):
            pass
        out['control_mode'] = stat.S_IMODE(os.stat(ctl).st_mode)
    except OSError:
        out['control_mode'] = None
    mgr = None
    try:
        # Scheduler.__init__
        mgr = WorkflowDatabaseManager(
            pri_d=workflow_files.get_workflow_srv_dir(wf),
            pub_d=os.path.join(run_dir, 'log'))
        is_restart = Path(mgr.pri_path).is_file()
        out['is_restart'] = is_restart
        # Scheduler.install
        workflow_files.register(wf, source=run_dir)
        make_workflow_run_tree(wf)
        key_housekeeping(wf, platform='localhost')
        # Scheduler.configure
        mgr.on_workflow_start(is_restart)
        out['completed'] = True
    except Exception as exc:   # start-up failure is tolerated, not judged
        out['error'] = f'{type(exc).__name__}: {exc}'[:200]
    finally:
        try:
            if mgr is not None:
                mgr.on_workflow_shutdown()
        except Exception:
            pass
    out['umask_after'] = os.umask(0o022)
    return out


def _observe(run_dir: Path) -> dict:
    """Modes of the private files (harness side, os.stat only)."""
    srv = run_dir / '.service'
    files = {}
    names = [DB]
    try:
        names += sorted(
            n for n in os.listdir(srv) if n.endswith('.key_secret'))
    except OSError:
        pass
    for name in list(PRIVATE_KEYS) + names:
        if name in files:
            continue
        try:
            st = os.stat(srv / name)
        except OSError:
            files[name] = None
            continue
        files[name] = {
            'mode': stat.S_IMODE(st.st_mode),
            'reg': stat.S_ISREG(st.st_mode),
            'size': st.st_size,
        }
    return files


def _case_body(umask: int, scen: str) -> dict:
    wf = _wf_name(umask, scen)
    run_dir = Path(os.environ['HOME'], 'cylc-run', wf)
    for k in ('CYLC_WORKFLOW_RUN_DIR', 'CYLC_WORKFLOW_ID',
              'CYLC_WORKFLOW_OWNER'):
        os.environ.pop(k, None)
    try:
        _prepare(run_dir, scen)
        res = _startup(wf, umask)
        res['files'] = _observe(run_dir)
    finally:
        os.umask(0o022)
        # the case may have made things unreadable: repair, then remove
        _force_rmtree(run_dir)
    res['umask'] = umask
    res['scenario'] = scen
    return res


def run_case(umask: int, scen: str, fork: bool = False) -> dict:
    """One case; returns the observation.

    The pool workers are forked children already and the only process state
    a case changes is the umask (set at the start of every case, reset after
    it), so cases run in-process there.  fork=True gives the case a child of
    its own (used by replay and by the isolation cross-check in run()).
    """
    if not fork:
        return _case_body(umask, scen)
    r, w = os.pipe()
    pid = os.fork()
    if pid == 0:
        code = 0
        try:
            os.close(r)
            blob = json.dumps(_case_body(umask, scen)).encode()
        except BaseException:
            blob = json.dumps({'harness_error': traceback.format_exc()}
                              ).encode()
            code = 3
        try:
            with os.fdopen(w, 'wb') as fh:
                fh.write(blob)
        finally:
            os._exit(code)
    os.close(w)
    with os.fdopen(r, 'rb') as fh:
        data = fh.read()
    os.waitpid(pid, 0)
    if not data:
        raise HarnessError(f'child for umask {umask:03o}/{scen} died')
    res = json.loads(data)
    if 'harness_error' in res:
        raise HarnessError(res['harness_error'])
    return res


def _force_rmtree(path: Path) -> None:
    if not path.exists():
        return
    for root, dirs, _files in os.walk(path):
        for d in dirs:
            try:
                os.chmod(os.path.join(root, d), 0o700)
            except OSError:
                pass
    try:
        os.chmod(path, 0o700)
    except OSError:
        pass
    shutil.rmtree(path, ignore_errors=True)


def judge(res: dict):
    """-> list of (signature, what) for one completed case."""
    bad = []
    if not res['completed']:
        return bad
    scen = res['scenario']
    umask = res['umask']
    left = int(scen[4:], 8) if scen.startswith('left') else None
    for name, info in sorted(res['files'].items()):
        kind = 'db' if name == DB else name
        if info is None:
            if name == DB or name in PRIVATE_KEYS:
                bad.append((
                    f'missing:{kind}',
                    f'umask {umask:03o}, {scen}: start-up completed '
                    f'but .service/{name} does not exist'))
            continue
        if info['mode'] & 0o077:
            # where the loose mode comes from (root-cause class)
            if left is not None and info['mode'] == left:
                source = 'kept-leftover-mode'
            elif info['mode'] == 0o666 & ~umask:
                source = 'plain-umask-default'
            elif info['mode'] == 0o644 & ~umask:
                source = 'plain-umask-default-0644'   # sqlite's create mode
            else:
                source = 'other'
            bad.append((
                f'group-other-access:{kind}:{source}',
                f'umask {umask:03o}, {scen}: .service/{name} has '
                f'mode {info["mode"]:04o} after start-up (group/other bits '
                f'{info["mode"] & 0o077:03o})'))
    return bad


def _work(cases):
    # warm imports and the global config once per worker
    _warm()
    return [run_case(u, s) for u, s in cases]


def _work_forked(cases):
    _warm()
    return [run_case(u, s, fork=True) for u, s in cases]


def _warm():
    """Import everything the children need once, before forking them."""
    import zmq.auth  # noqa: F401
    import cylc.flow.network.authentication  # noqa: F401
    import cylc.flow.platforms  # noqa: F401
    import cylc.flow.rundb  # noqa: F401
    import cylc.flow.workflow_db_mgr  # noqa: F401
    import cylc.flow.workflow_files  # noqa: F401
    from cylc.flow.cfgspec.glbl_cfg import glbl_cfg
    glbl_cfg()


def run(ctx: Ctx) -> Result:
    umasks = list(range(0o1000))      # all 512, both tiers
    scens = ctx.pick(SCENARIOS, SCENARIOS_THOROUGH)
    cases = [(u, s) for s in scens for u in umasks]
    (Path(os.environ['HOME']) / 'cylc-run' / 'c44').mkdir(
        parents=True, exist_ok=True)
    out = pmap(_work, chunks(cases, max(1, ctx.workers) * 4), ctx.workers)
    results = [r for part in out for r in part]
    if len(results) != len(cases):
        raise HarnessError('lost cases')
    # isolation cross-check: a slice re-run with one forked child per case
    # must observe exactly the same thing as the in-process run
    by_case = {(r['umask'], r['scenario']): r for r in results}
    xcheck = [(u, s) for s in scens
              for u in ctx.pick((0o022, 0o077, 0o777),
                                (0o000, 0o002, 0o022, 0o027, 0o077, 0o277,
                                 0o400, 0o777))]
    for part in pmap(_work_forked, chunks(xcheck, ctx.workers), ctx.workers):
        for r in part:
            if r != by_case[(r['umask'], r['scenario'])]:
                raise HarnessError(
                    f'in-process and forked-child runs disagree: {r} vs '
                    f'{by_case[(r["umask"], r["scenario"])]}')

    vios = []
    completed = failed = nontriv = restarts = 0
    modes_seen = set()
    ctl_modes = set()
    errors = {}
    for res in results:
        if res['completed']:
            completed += 1
            restarts += bool(res['is_restart'])
            ctl = res.get('control_mode')
            ctl_modes.add(ctl)
            # the protection is load-bearing when an unprotected file under
            # this umask is group/other accessible, or a loose file was
            # already there
            if (ctl is not None and ctl & 0o077) or (
                    res['scenario'].startswith('left')
                    and int(res['scenario'][4:], 8) & 0o077):
                nontriv += 1
            for name, info in res['files'].items():
                if info:
                    modes_seen.add((name, info['mode']))
        else:
            failed += 1
            key = (res['error'] or '').split(':')[0]
            errors[key] = errors.get(key, 0) + 1
        if res['umask_after'] != res['umask']:
            # not part of the statement; a harness sanity note only
            pass
        for sig, what in judge(res):
            vios.append(Violation(
                sig, what,
                {'umask': res['umask'], 'scenario': res['scenario']}))
    if completed == 0:
        raise HarnessError('no start-up completed: nothing was judged')
    if nontriv < 2 or len(ctl_modes) < 8:
        raise HarnessError(
            'umask never took effect in the children (control file modes '
            f'{sorted(ctl_modes, key=str)})')
    by_scen = {}
    for res in results:
        d = by_scen.setdefault(res['scenario'], {'completed': 0, 'failed': 0})
        d['completed' if res['completed'] else 'failed'] += 1
    if not all(d['completed'] for d in by_scen.values()):
        raise HarnessError(f'a scenario never completed: {by_scen}')
    if restarts == 0:
        raise HarnessError('the restart seam was never exercised')
    samples = []
    for res in results[:: max(1, len(results) // 10)][:10]:
        samples.append({
            'umask': f'{res["umask"]:03o}', 'scenario': res['scenario'],
            'completed': res['completed'], 'is_restart': res['is_restart'],
            'unprotected_open_mode': (
                None if res.get('control_mode') is None
                else f'{res["control_mode"]:04o}'),
            'private_file_modes': {
                n: (None if i is None else f'{i["mode"]:04o}')
                for n, i in res['files'].items()},
        })
    cov = {
        'evaluations': len(results),
        'distinct_nontrivial': nontriv,
        'rule': (
            'one evaluation = one (umask, left-over scenario) start-up in a '
            'forked worker through register, make_workflow_run_tree, '
            'key_housekeeping, on_workflow_start; non-trivial = start-up '
            'completed and either a control file opened without protection '
            'under that umask is group/other accessible or loose-mode files '
            'from a previous run were present (so the chmod/umask guard is '
            'what keeps the file private)'),
        'umasks': len({u for u, _ in cases}),
        'cases_rerun_in_own_forked_child_identical': len(xcheck),
        'cases_by_scenario': {
            s: sum(1 for _, x in cases if x == s) for s in scens},
        'scenarios': scens,
        'startups_completed': completed,
        'startups_failed_not_judged': failed,
        'failure_kinds': errors,
        'restart_startups': restarts,
        'by_scenario': by_scen,
        'distinct_private_file_modes_observed': sorted(
            f'{n}:{m:04o}' for n, m in modes_seen),
        'distinct_unprotected_modes_observed': len(ctl_modes),
        'samples': samples,
        'exhaustive': True,
    }
    return Result(cov, vios, assumptions=[
        'judged at the end of start-up (statement: "once start-up '
        'completes"); the window between sqlite creating the DB file and the '
        'chmod inside on_workflow_start is not judged',
        'start-ups that fail (e.g. umask removes the owner bits and the '
        'process is not root) are counted and not judged',
        'start-up is the sequence register, make_workflow_run_tree, '
        'key_housekeeping, on_workflow_start(is_restart) called in the '
        'scheduler\'s order with is_restart derived as Scheduler.__init__ '
        'does; the rest of Scheduler start-up (config load, server start) '
        'does not touch these files and is not run here',
        'the harness ran as uid %d; for uid 0 owner-masking umasks do not '
        'make start-up fail' % os.getuid(),
        'access by group/other is read off the permission bits of the file '
        'itself (st_mode & 0o077); ACLs and directory permissions are out of '
        'scope',
    ])


def replay(payload):
    _warm()
    (Path(os.environ['HOME']) / 'cylc-run' / 'c44').mkdir(
        parents=True, exist_ok=True)
    res = run_case(int(payload['umask']), payload['scenario'], fork=True)
    return [
        Violation(sig, what, dict(payload)) for sig, what in judge(res)]
