"""C43 Stop point, stop task and stop modes behave as documented."""
from __future__ import annotations

import os

from ..core import Ctx, HarnessError, Result
from ..sched import catalogue as cat
from ..sched.catalogue import spec_from
from ..sched.monitors import PoolInvariants, SubmitOnce
from ..sched.mon_c19 import StopProfile
from ..sched.mon_c43 import COUNTS, StopSemantics
from ..sched.run import explore_all, replay_violation, result_from

LEVEL = 'model_checking'

ASSUME = [
    'bounded catalogue (see bounds); integer cycling; localhost jobs; jobs '
    'succeed except in the workflows that list failing tasks',
    'stop <point> / stop <task> (one per execution) and stop / stop --now '
    '(--now --now in thorough) offered at every main-loop boundary, then '
    'restart (a plain "cylc play"); jobs keep running while the scheduler '
    'is down',
    'stop points come from --stopcp or the stop command (the flow.cylc '
    '"stop after cycle point", which is re-read at every start, is not '
    'used); no manual triggering, so the "unless manually triggered" '
    'exception is never needed',
    'a task beyond the stop point whose job submission was already under '
    'way (preparing) when the stop point was set may still be submitted',
    '"shuts down once nothing at or before it remains": judged as no '
    'automatic shutdown before the reference closure bounded by the stop '
    'point is complete (safety) and no idle/stalled end state once it is '
    '(liveness); waiting for active jobs beyond the stop point is allowed',
    'a stop request processed after the scheduler has already decided to '
    'shut down by itself (while it waits for its process pool) is not '
    'judged; a stop task set after that task succeeded is not judged',
    'commands still running when the scheduler blocks waiting for its '
    'process pool at shutdown complete normally during that wait',
    'a stall caused by an incomplete task beyond the stop point (recorded '
    'finding) is judged in the workflow prev-f2:stop-point-1:fail only',
]


def catalogue(tier: str):
    shapes = dict(cat.basic_shapes())
    P1 = lambda items: [('P1', items)]      # noqa
    cp = lambda p: ('stop', {'mode': None, 'cycle_point': str(p)})   # noqa
    task = lambda t: ('stop', {'mode': None, 'task': t})             # noqa
    rows = [
        # name, sections, fcp, operator commands, extra spec, failing tasks
        # (the only workflow in which a stall on an incomplete task beyond
        # the stop point is judged: a recorded finding)
        ('prev-f2:stop-point-1:fail', P1(shapes['prev']), 2, [cp(1)],
         {'judge_stall_beyond_stop_point': True, 'restarts': 0,
          'stops': ()}, ('a',)),
        ('prev-f2:stop-point-1', P1(shapes['prev']), 2, [cp(1)], {}, ()),
        ('prev-f3:stopcp-option-2', P1(shapes['prev']), 3, [],
         {'options': {'stopcp': '2'}, 'stop': 2}, ()),
        ('chain2-f1:stop-task-a', P1(shapes['chain2']), 1, [task('1/a')],
         {}, ('a',)),
        ('prev-f2:stop-task-1a', P1(shapes['prev']), 2, [task('1/a')],
         {}, ()),
        # the stop task may fail; no other stop request, no restart
        ('chain2-f1:stop-task-a:alone', P1(shapes['chain2']), 1,
         [task('1/a')], {'stops': (), 'restarts': 0}, ('a',)),
        ('chain2-f2:stopcp-option-1', P1(shapes['chain2']), 2, [],
         {'options': {'stopcp': '1'}, 'stop': 1}, ()),
        # a commanded stop point must replace the --stopcp option for good,
        # also across a reload (which re-reads the start-up options)
        ('prev-f3:stopcp-option-2:stop-1:reload', P1(shapes['prev']), 3, [],
         {'options': {'stopcp': '2'}, 'stop': 2, 'stops': (), 'restarts': 0,
          'op_sequence': [cp(1), ('reload_workflow', {})]}, ()),
    ]
    if tier == 'thorough':
        # the workflows above get a second restart and stop --now --now;
        # the ones below keep one restart
        one = {'restarts': 1}
        rows += [
            ('chain2-f2:stop-point-1', P1(shapes['chain2']), 2, [cp(1)],
             dict(one), ()),
            ('prev-f3:stop-point-1-2', P1(shapes['prev']), 3,
             [cp(1), cp(2)], dict(one), ()),
            ('chain2-f2:stop-task-1b', P1(shapes['chain2']), 2,
             [task('1/b')], dict(one), ()),
        ]
    specs = []
    for name, secs, fcp, ops, extra, fails in rows:
        s = spec_from(secs, 1, fcp, name=name, **extra)
        s['ops'] = ops
        s['fail_tasks'] = list(fails)
        specs.append(s)
    return specs


def stops_for(tier):
    if tier == 'thorough':
        return ('REQUEST_CLEAN', 'REQUEST_NOW', 'REQUEST_NOW_NOW')
    return ('REQUEST_CLEAN', 'REQUEST_NOW')


def make_factory(spec, tier='quick'):
    ops_list = list(spec['ops'])
    seq = spec.get('op_sequence')
    if seq and any(o[0] == 'reload_workflow' for o in seq):
        # the reload waits (inside one iteration) for preparing tasks to
        # submit: let the pending fake jobs-submit commands complete
        from ..sched.mon_c27 import install_reload_seam
        install_reload_seam()

    def ops(w):
        if seq:
            return [seq[w.op_count]] if w.op_count < len(seq) else []
        return ops_list

    def factory():
        outcomes = {t: ['succeeded', 'failed'] for t in spec['fail_tasks']}
        return StopProfile(
            spec, ops=ops, op_budget=len(seq) if seq else 1,
            stops=spec.get('stops', stops_for(tier)),
            max_restarts=spec.get(
                'restarts', 2 if tier == 'thorough' else 1),
            monitors=[StopSemantics, SubmitOnce, PoolInvariants],
            outcomes=outcomes, jump=())
    return factory


NEEDED = [
    'stop point commands processed',
    'stop task commands processed',
    'submissions judged against a stop point',
    'automatic shutdowns judged',
    'shutdowns at a stop point before the final point',
    'shutdowns after the stop task succeeded',
    'clean stops judged',
    'stop --now judged',
    'stop --now with jobs left running',
    'restarts judged',
    'restarts after the stop point was reached',
    'restarts with a stop point to restore',
    'stopcp rows judged',
    'stopcp persisted at a requested stop',
]


def run(ctx: Ctx) -> Result:
    specs = catalogue(ctx.tier)
    only = os.environ.get('VERIF_ONLY')     # development aid (mutant runs)
    if only:
        specs = [s for s in specs if s['name'] in only.split(',')]
    COUNTS.collect(ctx.scratch)
    st = explore_all(
        ctx, [make_factory(s, ctx.tier) for s in specs],
        max_states=ctx.pick(6000, 60000),
        max_seconds=int(os.environ.get(
            'VERIF_MAX_SECONDS', ctx.pick(110, 1500))))
    counts = COUNTS.collect(ctx.scratch)
    if not st.violations and not st.error and not st.capped:
        missing = [k for k in NEEDED if not counts.get(k)]
        if missing and not only:
            raise HarnessError(
                f'vacuous: never observed in the whole exploration: '
                f'{missing}')
    return result_from(
        ctx, st, prop='C43',
        bounds={'workflows': [s['name'] for s in specs],
                'stop modes': list(stops_for(ctx.tier)),
                'stop requests offered at': 'every main-loop boundary',
                'stop <point>/<task> commands per execution': 1,
                'restarts per execution': ctx.pick(
                    1, '2 (1 in chain2-f2:stop-point-1, chain2-f2:'
                    'stop-task-1b, prev-f3:stop-point-1-2)')},
        assumptions=ASSUME, min_states=100,
        extra_cov={'observed': dict(sorted(counts.items()))})


def replay(payload):
    tier = payload.get('tier', 'quick')
    specs = {s['name']: s for t in ('thorough', 'quick', tier)
             for s in catalogue(t)}
    return replay_violation(
        payload, lambda pl: make_factory(
            specs[pl['spec_name']], pl.get('tier', 'quick')))
