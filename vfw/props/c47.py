"""C47 Platform and host selection avoids unreachable hosts; a platform name
resolves to the last-defined platform whose pattern fully matches.

Engine B (bounded exhaustive enumeration), three exhaustively enumerated
parts, all through the real ``global.cylc`` parse path
(``glbl_cfg(reload=True)`` on generated files under the scratch dir):

A  name resolution: every ordered sequence of <= L distinct platform headings
   from a heading alphabet (literal, regex, alternation, unquoted comma list,
   quoted comma list, ``{m,n}`` quantifier quoted and unquoted) x every lookup
   name of a small universe; a slice additionally split into a site file and
   a user file.  Reference: a hand-written matcher over the *structure* of the
   heading (never ``re``), "last definition whose pattern fully matches wins".
B  host selection: every host list x both selection methods x every bad-host
   subset x every choice of the ``random`` method (``random.choice`` is
   replaced by an enumerating chooser).
C  group selection: every assignment of host lists to the member platforms x
   every ordered member list x both methods x every bad-host subset x every
   random choice, composed with the host selection of the chosen platform.
"""
from __future__ import annotations

import itertools
import os
import random
import shutil
from pathlib import Path

from ..core import (
    Ctx, HarnessError, Result, Violation, chunks, pmap, scratch_root,
)

LEVEL = 'exploration'

MAX_KEPT = 12     # violations kept per signature per worker


# ===================================================================== model
# A heading is written in the harness's own notation (not regex syntax):
#   heading := item (' , ' item)*        comma separated list
#   item    := branch (' | ' branch)*    alternation
#   branch  := piece (' ' piece)*
#   piece   := cls[':'quant]   cls in {literal char, '.', 'D' (digit),
#              'K' (one of 1,2)}; quant in {'*','+','?','m-n','n'}
# render() produces the cylc heading text; matches() is the reference
# matcher (plain backtracking over pieces).

def parse_heading(spec, quoted=False, sep=', '):
    items = []
    for item in spec.split(' , '):
        branches = []
        for br in item.split(' | '):
            pieces = []
            for tok in br.split():
                cls, _, q = tok.partition(':')
                pieces.append((cls, q))
            branches.append(pieces)
        items.append(branches)
    return {'spec': spec, 'quoted': quoted, 'sep': sep, 'items': items}


def _q_range(q):
    if q == '':
        return 1, 1
    if q == '*':
        return 0, None
    if q == '+':
        return 1, None
    if q == '?':
        return 0, 1
    if '-' in q:
        lo, hi = q.split('-')
        return int(lo), int(hi)
    return int(q), int(q)


def _cls_has(cls, ch):
    if cls == '.':
        return True
    if cls == 'D':
        return ch in '0123456789'
    if cls == 'K':
        return ch in '12'
    return ch == cls


def branch_matches(pieces, s):
    def go(i, pos):
        if i == len(pieces):
            return pos == len(s)
        cls, q = pieces[i]
        lo, hi = _q_range(q)
        n = 0
        p = pos
        while True:
            if n >= lo and go(i + 1, p):
                return True
            if hi is not None and n >= hi:
                return False
            if p < len(s) and _cls_has(cls, s[p]):
                p += 1
                n += 1
            else:
                return False
    return go(0, 0)


def item_matches(item, s):
    return any(branch_matches(b, s) for b in item)


def _render_piece(piece):
    cls, q = piece
    c = {'.': '.', 'D': r'\d', 'K': '[12]'}.get(cls, cls)
    if q in ('', '*', '+', '?'):
        return c + q
    if '-' in q:
        lo, hi = q.split('-')
        return c + '{%s,%s}' % (lo, hi)
    return c + '{%s}' % q


def render_item(item):
    return '|'.join(''.join(_render_piece(p) for p in b) for b in item)


def render(h):
    text = h['sep'].join(render_item(i) for i in h['items'])
    return f'"{text}"' if h['quoted'] else text


def heading_kind(h):
    """Syntactic class of a heading (used in violation signatures)."""
    pieces = [p for it in h['items'] for b in it for p in b]
    plain = all(q == '' and cls not in ('.', 'D', 'K') for cls, q in pieces)
    if len(h['items']) > 1:
        base = 'comma-list'
    elif plain and all(len(it) == 1 for it in h['items']):
        base = 'literal'
    else:
        base = 'regex'
    if any('-' in q for _, q in pieces):
        base += '+quantifier-comma'
    return base + (':quoted' if h['quoted'] else ':unquoted')


def entries_of(headings):
    """The platforms a config defines, in definition order.

    An unquoted comma list defines one platform per item (documented
    "[a, b]" == "[a]" + "[b]"); a quoted heading is one platform whose
    pattern is the whole (comma separated) text.
    Returns (entries, reopened): entries = [(declared text, items, index of
    the heading)], reopened = some declared text occurs twice.
    """
    out = []
    for idx, h in enumerate(headings):
        if h['quoted'] or len(h['items']) == 1:
            out.append((render(h).strip('"'), h['items'], idx))
        else:
            for it in h['items']:
                out.append((render_item(it), [it], idx))
    names = [e[0] for e in out]
    return out, len(set(names)) != len(names)


def resolve(entries, name):
    """Index (into entries) of the last definition fully matching name."""
    hit = None
    n = 0
    for i, (_, items, _) in enumerate(entries):
        if any(item_matches(it, name) for it in items):
            hit = i
            n += 1
    return hit, n


# ================================================================== alphabet

def heading_alphabet(ctx: Ctx):
    H = [
        parse_heading('a'),
        parse_heading('a b'),
        parse_heading('a .:*'),
        parse_heading('a | b'),
        parse_heading('b K:?'),
        parse_heading('b D'),
        parse_heading('a , b 1'),
        parse_heading('a b , b', quoted=True, sep=' , '),
        parse_heading('a:1-2', quoted=True),
        parse_heading('a:1-2'),
        parse_heading('.:* 1'),
        parse_heading('b:1-2 , a 1', quoted=True),
    ]
    if not ctx.quick:
        H += [
            parse_heading('a b | a'),
            parse_heading('a:+ b:?'),
            parse_heading('a a , a b , b', sep=','),
            parse_heading('b:2-3 , a a'),
            parse_heading('b b , 1', quoted=True, sep=' ,'),
            parse_heading('1 .:*'),
            parse_heading('a:2', quoted=True),
        ]
    return H


def lookup_names():
    names = []
    for n in (1, 2, 3):
        names += [''.join(t) for t in itertools.product('ab1', repeat=n)]
    return names + ['c', 'localhost', None]


def has_hosts(hidx):
    return hidx % 2 == 0


def platform_block(h, hidx, indent='    '):
    lines = [f'{indent}[[{render(h)}]]',
             f'{indent}    install target = T{hidx}']
    if has_hosts(hidx):
        lines.append(f'{indent}    hosts = hA{hidx}')
    return lines


def config_text(hs):
    lines = ['[platforms]']
    for h, hidx in hs:
        lines += platform_block(h, hidx)
    return '\n'.join(lines) + '\n'


# =============================================================== environment

class Chooser:
    """Stand-in for random.choice: follows a prescribed index prefix, then
    index 0, recording (index, arity) so all alternatives can be visited."""

    def __init__(self):
        self.prefix = []
        self.trace = []
        self.max_arity = 0

    def __call__(self, seq):
        i = len(self.trace)
        idx = self.prefix[i] if i < len(self.prefix) else 0
        n = len(seq)
        self.max_arity = max(self.max_arity, n)
        self.trace.append((idx, n))
        return seq[idx]


CH = Chooser()
_installed = False


def install_chooser():
    """Replace random.choice (module attribute and the reference captured
    in cylc.flow.platforms.HOST_SELECTION_METHODS)."""
    global _installed
    if _installed:
        return
    orig = random.choice
    random.choice = CH
    import cylc.flow.platforms as P
    for k, v in list(P.HOST_SELECTION_METHODS.items()):
        if v == orig:
            P.HOST_SELECTION_METHODS[k] = CH
    _installed = True


def explore(fn):
    """Run fn under every vector of chooser indices (DFS).  Yields
    (choices, result of fn)."""
    stack = [[]]
    while stack:
        prefix = stack.pop()
        CH.prefix = prefix
        CH.trace = []
        out = fn()
        trace = list(CH.trace)
        yield [t[0] for t in trace], out
        for i in range(len(prefix), len(trace)):
            for alt in range(1, trace[i][1]):
                stack.append([t[0] for t in trace[:i]] + [alt])
    CH.prefix = []
    CH.trace = []


def run_with_choices(fn, choices):
    CH.prefix = list(choices)
    CH.trace = []
    try:
        return fn()
    finally:
        CH.prefix = []
        CH.trace = []


class Env:
    """Per-process config directories + loader (real parse path)."""

    def __init__(self, root: Path):
        self.root = Path(root) / f'c47-{os.getpid()}'
        self.conf = self.root / 'conf'
        self.site = self.root / 'site'
        self.user = self.root / 'home' / '.cylc' / 'flow'
        for d in (self.conf, self.site / 'flow', self.user):
            d.mkdir(parents=True, exist_ok=True)
        install_chooser()

    def load(self, files):
        """files: {'conf': text} or {'site': text, 'user': text}.
        Returns None or the exception raised by the loader."""
        from cylc.flow.cfgspec.glbl_cfg import glbl_cfg
        from cylc.flow.cfgspec.globalcfg import GlobalConfig
        for p in (self.conf / 'global.cylc',
                  self.site / 'flow' / 'global.cylc',
                  self.user / 'global.cylc'):
            if p.exists():
                p.unlink()
        if 'conf' in files:
            (self.conf / 'global.cylc').write_text(files['conf'])
            os.environ['CYLC_CONF_PATH'] = str(self.conf)
            os.environ.pop('CYLC_SITE_CONF_PATH', None)
        else:
            (self.site / 'flow' / 'global.cylc').write_text(files['site'])
            (self.user / 'global.cylc').write_text(files['user'])
            os.environ.pop('CYLC_CONF_PATH', None)
            os.environ['CYLC_SITE_CONF_PATH'] = str(self.site)
            GlobalConfig.USER_CONF_PATH = str(self.user)
        try:
            glbl_cfg(reload=True)
        except Exception as exc:   # config rejected by cylc
            return exc
        return None

    def close(self):
        shutil.rmtree(self.root, ignore_errors=True)


_ENV = None


def env(root) -> Env:
    global _ENV
    if _ENV is None or not _ENV.root.exists() or \
            _ENV.root.name != f'c47-{os.getpid()}':
        _ENV = Env(root)
    return _ENV


# =================================================================== part A

def a_expect(headings, hidxs, name):
    """Reference outcome of looking up `name`."""
    entries, reopened = entries_of(headings)
    if name is None or name == 'localhost':
        return {'kind': 'localhost'}, 0, reopened
    hit, nmatch = resolve(entries, name)
    if hit is None:
        return {'kind': 'lookup-error'}, 0, reopened
    pos = entries[hit][2]
    hidx = hidxs[pos]
    return {
        'kind': 'platform',
        'marker': f'T{hidx}',
        'hosts': [f'hA{hidx}'] if has_hosts(hidx) else [name],
        'heading': render(headings[pos]),
        'heading_kind': heading_kind(headings[pos]),
    }, nmatch, reopened


def a_observe(name):
    from cylc.flow.exceptions import PlatformLookupError
    from cylc.flow.platforms import platform_from_name
    try:
        p = platform_from_name(name)
    except PlatformLookupError as exc:
        if 'cannot be defined using a regular expression' in str(exc):
            return {'kind': 'rejected'}
        return {'kind': 'lookup-error'}
    except Exception as exc:
        return {'kind': 'exception', 'type': type(exc).__name__,
                'msg': str(exc)[:200]}
    return {'kind': 'platform', 'marker': p['install target'],
            'hosts': list(p['hosts']), 'name': p['name']}


def a_verdict(expect, obs, name):
    """None or (signature, description)."""
    if obs['kind'] == 'rejected':
        return None
    if expect['kind'] == 'localhost':
        if (obs['kind'] == 'platform' and obs['name'] == 'localhost'
                and obs['hosts'] == ['localhost']):
            return None
        return ('resolve:localhost-default-lost',
                f'lookup {name!r} gave {obs}, expected the built-in '
                'localhost platform')
    if expect['kind'] == 'lookup-error':
        if obs['kind'] == 'lookup-error':
            return None
        return ('resolve:resolved-without-full-match',
                f'lookup {name!r} matches no defined pattern but gave {obs}')
    hk = expect['heading_kind']
    if hk.endswith('+quantifier-comma:unquoted') and (
            obs['kind'] != 'platform' or obs['marker'] != expect['marker']):
        # one root cause whatever is returned instead: the heading never
        # became a platform of its own
        return ('resolve:unquoted-heading-with-quantifier-comma-not-matched',
                f'lookup {name!r} should resolve to [[{expect["heading"]}]] '
                f'(last definition fully matching) but gave {obs}')
    if obs['kind'] != 'platform':
        return (f'resolve:{obs["kind"]}:expected={hk}',
                f'lookup {name!r} should resolve to [[{expect["heading"]}]] '
                f'(last definition fully matching) but gave {obs}')
    if obs['marker'] != expect['marker']:
        return (f'resolve:other-definition:expected={hk}',
                f'lookup {name!r} should resolve to [[{expect["heading"]}]] '
                f'({expect["marker"]}, the last definition fully matching) '
                f'but resolved to the platform with install target '
                f'{obs["marker"]}')
    if obs['name'] != name:
        return (f'resolve:wrong-name:expected={hk}',
                f'lookup {name!r} returned platform name {obs["name"]!r}')
    if obs['hosts'] != expect['hosts']:
        return (f'resolve:wrong-hosts:expected={hk}',
                f'lookup {name!r} returned hosts {obs["hosts"]}, expected '
                f'{expect["hosts"]}')
    return None


def a_files(H, hidxs, split):
    hs = [(H[i], i) for i in hidxs]
    if not split:
        return {'conf': config_text(hs)}
    return {'site': config_text(hs[:split]), 'user': config_text(hs[split:])}


def a_work(job):
    root, tier_quick, cfgs = job
    ctx = Ctx('C47', 'quick' if tier_quick else 'thorough', 0, 1, Path(root))
    H = heading_alphabet(ctx)
    names = lookup_names()
    e = env(root)
    st = {'configs': 0, 'configs_rejected': 0, 'configs_reopened': 0,
          'lookups': 0, 'lookups_rejected': 0, 'lookups_not_judged': 0,
          'collisions': 0, 'exp_error': 0, 'exp_platform': 0,
          'split_configs': 0}
    kinds_won = {}
    vio = {}
    vio_n = {}
    for hidxs, split in cfgs:
        files = a_files(H, hidxs, split)
        heads = [H[i] for i in hidxs]
        st['configs'] += 1
        if split:
            st['split_configs'] += 1
        exc = e.load(files)
        if exc is not None:
            st['configs_rejected'] += 1
            continue
        _, reopened = entries_of(heads)
        if reopened:
            st['configs_reopened'] += 1
        for name in names:
            expect, nmatch, _ = a_expect(heads, hidxs, name)
            obs = a_observe(name)
            st['lookups'] += 1
            if obs['kind'] == 'rejected':
                st['lookups_rejected'] += 1
                continue
            if reopened:
                st['lookups_not_judged'] += 1
                continue
            if nmatch >= 2:
                st['collisions'] += 1
            if expect['kind'] == 'platform':
                st['exp_platform'] += 1
                k = expect['heading_kind']
                kinds_won[k] = kinds_won.get(k, 0) + 1
            elif expect['kind'] == 'lookup-error':
                st['exp_error'] += 1
            v = a_verdict(expect, obs, name)
            if v:
                sig, what = v
                vio_n[sig] = vio_n.get(sig, 0) + 1
                if len(vio.setdefault(sig, [])) < MAX_KEPT:
                    vio[sig].append({
                        'part': 'A', 'files': files, 'name': name,
                        'expect': expect, 'what': what,
                        'headings': [render(h) for h in heads]})
    e.close()
    return st, kinds_won, vio, vio_n


def a_configs(ctx: Ctx):
    H = heading_alphabet(ctx)
    n = len(H)
    L = 3
    out = []
    for ln in range(1, L + 1):
        for perm in itertools.permutations(range(n), ln):
            out.append((list(perm), 0))
    if not ctx.quick:
        # length 4 over the first 12 headings
        for perm in itertools.permutations(range(12), 4):
            out.append((list(perm), 0))
    # site/user split slice: every split point of every config of length 2
    # (thorough: and of length 3 over the first 12 headings)
    for perm in itertools.permutations(range(n), 2):
        out.append((list(perm), 1))
    if not ctx.quick:
        for perm in itertools.permutations(range(12), 3):
            out.append((list(perm), 1))
            out.append((list(perm), 2))
    return out


# =================================================================== part B

def b_catalogue(ctx: Ctx):
    U = ['x', 'y', 'xx'] if ctx.quick else ['x', 'y', 'xx', 'z']
    maxlen = 3 if ctx.quick else 4
    lists = []
    for ln in range(1, maxlen + 1):
        lists += [list(p) for p in itertools.permutations(U, ln)]
    lists += [['x', 'y', 'x'], ['y', 'y']]
    bad_universe = U + ['q']
    return lists, bad_universe


def b_config(lists):
    lines = ['[platforms]']
    plats = []
    for i, hosts in enumerate(lists):
        for j, method in enumerate(('definition order', 'random')):
            name = f'hb{i}m{j}'
            lines += [
                f'    [[{name}]]',
                f'        hosts = {", ".join(hosts)}',
                '        job runner = slurm',
                '        [[[selection]]]',
                f'            method = {method}',
            ]
            plats.append((name, hosts, method))
    return '\n'.join(lines) + '\n', plats


def subsets(items):
    for r in range(len(items) + 1):
        for c in itertools.combinations(items, r):
            yield list(c)


def host_observe(platform, bad):
    from cylc.flow.exceptions import NoHostsError
    from cylc.flow.platforms import get_host_from_platform
    try:
        h = get_host_from_platform(platform, None if bad is None else set(bad))
    except NoHostsError:
        return {'kind': 'no-hosts'}
    except Exception as exc:
        return {'kind': 'exception', 'type': type(exc).__name__,
                'msg': str(exc)[:200]}
    return {'kind': 'host', 'host': h}


def host_verdict(hosts, bad, obs, method):
    badset = set(bad or ())
    good = [h for h in hosts if h not in badset]
    tag = f'method={method}'
    if good:
        if obs['kind'] == 'host':
            if obs['host'] in badset:
                return (f'host-selection:returned-unreachable-host:{tag}',
                        f'hosts {hosts}, unreachable {sorted(badset)}: '
                        f'returned {obs["host"]!r} although {good} remain')
            if obs['host'] not in hosts:
                return (f'host-selection:returned-foreign-host:{tag}',
                        f'hosts {hosts}: returned {obs["host"]!r}')
            return None
        return (f'host-selection:{obs["kind"]}-while-host-remains:{tag}',
                f'hosts {hosts}, unreachable {sorted(badset)}: {obs} '
                f'although {good} remain')
    if obs['kind'] == 'no-hosts':
        return None
    return (f'host-selection:no-error-when-none-remain:{tag}',
            f'hosts {hosts}, unreachable {sorted(badset)}: {obs}, expected '
            'NoHostsError')


def b_work(job):
    root, conf, plats, bad_universe = job
    from cylc.flow.platforms import platform_from_name
    e = env(root)
    exc = e.load({'conf': conf})
    if exc is not None:
        raise HarnessError(f'part B config rejected: {exc!r}')
    st = {'evals': 0, 'nontrivial': 0, 'no_hosts': 0, 'leaves': 0}
    vio, vio_n = {}, {}
    outcomes = set()
    CH.max_arity = 0
    for name, hosts, method in plats:
        platform = platform_from_name(name)
        if list(platform['hosts']) != hosts or \
                platform['selection']['method'] != method:
            raise HarnessError(f'part B platform {name} not as written')
        bads = [None] + list(subsets(bad_universe))
        for bad in bads:
            st['evals'] += 1
            bs = set(bad or ())
            if any(h in bs for h in hosts) and any(h not in bs for h in hosts):
                st['nontrivial'] += 1
            if all(h in bs for h in hosts):
                st['no_hosts'] += 1
            for choices, obs in explore(
                    lambda: host_observe(platform, bad)):
                st['leaves'] += 1
                outcomes.add((name, obs.get('host')))
                v = host_verdict(hosts, bad, obs, method)
                if v:
                    sig, what = v
                    vio_n[sig] = vio_n.get(sig, 0) + 1
                    if len(vio.setdefault(sig, [])) < MAX_KEPT:
                        vio[sig].append({
                            'part': 'B', 'files': {'conf': conf},
                            'platform': name, 'hosts': hosts,
                            'method': method, 'bad': bad,
                            'choices': choices, 'what': what})
    st['max_arity'] = CH.max_arity
    st['outcomes'] = len(outcomes)
    e.close()
    return st, vio, vio_n


# =================================================================== part C

C_MEMBERS = ['pa', 'pb', 'p1', 'n']


def c_catalogue(ctx: Ctx):
    if ctx.quick:
        opts = [['x'], ['x', 'y'], ['y', 'z'], ['z']]
        maxm = 2
    else:
        opts = [['x'], ['x', 'y'], ['y', 'z'], ['z'], ['y'],
                ['x', 'y', 'z']]
        maxm = 3
    assigns = list(itertools.product(range(len(opts)), repeat=3))
    groups = []
    for ln in range(1, maxm + 1):
        for members in itertools.permutations(C_MEMBERS, ln):
            for method in ('definition order', 'random'):
                groups.append((list(members), method))
    return opts, assigns, groups


def c_group_heading(i):
    """(heading text, lookup name): every 4th group has a regex name."""
    if i % 4 == 3:
        return f'k{i}\\d', f'k{i}7'
    return f'g{i}', f'g{i}'


def c_config(opts, assign, groups):
    ha, hb, hp = (opts[i] for i in assign)
    lines = [
        '[platforms]',
        '    [[pa]]',
        f'        hosts = {", ".join(ha)}',
        '        job runner = slurm',
        '        [[[selection]]]',
        '            method = definition order',
        '    [[pb]]',
        f'        hosts = {", ".join(hb)}',
        '        job runner = slurm',
        '    [[p\\d]]',
        f'        hosts = {", ".join(hp)}',
        '        job runner = slurm',
        '    [[n]]',
        '[platform groups]',
    ]
    for i, (members, method) in enumerate(groups):
        head, _ = c_group_heading(i)
        lines += [
            f'    [[{head}]]',
            f'        platforms = {", ".join(members)}',
            '        [[[selection]]]',
            f'            method = {method}',
        ]
    hosts = {'pa': ha, 'pb': hb, 'p1': hp, 'n': ['n']}
    return '\n'.join(lines) + '\n', hosts


def c_observe(gname, bad):
    from cylc.flow.exceptions import NoPlatformsError
    from cylc.flow.platforms import get_platform
    b = None if bad is None else set(bad)
    try:
        p = get_platform(gname, bad_hosts=b)
    except NoPlatformsError:
        return {'kind': 'no-platforms'}
    except Exception as exc:
        return {'kind': 'exception', 'type': type(exc).__name__,
                'msg': str(exc)[:200]}
    obs = {'kind': 'platform', 'name': p['name'], 'hosts': list(p['hosts']),
           'method': p['selection']['method']}
    obs['host'] = host_observe(p, bad)
    return obs


def c_verdict(members, hosts, gmethod, bad, obs):
    badset = set(bad or ())
    viable = [m for m in members if set(hosts[m]) - badset]
    tag = f'method={gmethod}'
    if not viable:
        if obs['kind'] == 'no-platforms':
            return None
        return (f'group-selection:no-error-when-none-remain:{tag}',
                f'group {members}, hosts {hosts}, unreachable '
                f'{sorted(badset)}: {obs}, expected NoPlatformsError')
    if obs['kind'] != 'platform':
        return (f'group-selection:{obs["kind"]}-while-platform-remains:{tag}',
                f'group {members}, unreachable {sorted(badset)}: {obs} '
                f'although {viable} have reachable hosts')
    if obs['name'] not in members:
        return (f'group-selection:selected-non-member:{tag}',
                f'group {members}: selected {obs["name"]!r}')
    if obs['name'] not in viable:
        return (f'group-selection:selected-unreachable-platform:{tag}',
                f'group {members}, unreachable {sorted(badset)}: selected '
                f'{obs["name"]!r} (hosts {hosts[obs["name"]]}) although '
                f'{viable} have reachable hosts')
    if obs['hosts'] != hosts[obs['name']]:
        return ('group-selection:member-resolved-to-other-definition',
                f'member {obs["name"]!r} has hosts {obs["hosts"]}, expected '
                f'{hosts[obs["name"]]}')
    return host_verdict(obs['hosts'], bad, obs['host'], obs['method'])


def c_work(job):
    root, tier_quick, assign_chunk = job
    ctx = Ctx('C47', 'quick' if tier_quick else 'thorough', 0, 1, Path(root))
    opts, _, groups = c_catalogue(ctx)
    e = env(root)
    bads = [None] + list(subsets(['x', 'y', 'z', 'n']))
    st = {'evals': 0, 'nontrivial': 0, 'no_platforms': 0, 'leaves': 0,
          'configs': 0}
    vio, vio_n = {}, {}
    selected = set()
    CH.max_arity = 0
    for assign in assign_chunk:
        conf, hosts = c_config(opts, assign, groups)
        exc = e.load({'conf': conf})
        if exc is not None:
            raise HarnessError(f'part C config rejected: {exc!r}\n{conf}')
        st['configs'] += 1
        for gi, (members, gmethod) in enumerate(groups):
            _, gname = c_group_heading(gi)
            for bad in bads:
                st['evals'] += 1
                bs = set(bad or ())
                dead = [m for m in members if not set(hosts[m]) - bs]
                if dead and len(dead) < len(members):
                    st['nontrivial'] += 1
                if len(dead) == len(members):
                    st['no_platforms'] += 1
                for choices, obs in explore(lambda: c_observe(gname, bad)):
                    st['leaves'] += 1
                    if obs['kind'] == 'platform':
                        selected.add(obs.get('name'))
                    v = c_verdict(members, hosts, gmethod, bad, obs)
                    if v:
                        sig, what = v
                        vio_n[sig] = vio_n.get(sig, 0) + 1
                        if len(vio.setdefault(sig, [])) < MAX_KEPT:
                            vio[sig].append({
                                'part': 'C', 'files': {'conf': conf},
                                'group': gname, 'members': members,
                                'hosts': hosts, 'method': gmethod,
                                'bad': bad, 'choices': choices,
                                'what': what})
    st['max_arity'] = CH.max_arity
    st['selected'] = sorted(x for x in selected if x)
    e.close()
    return st, vio, vio_n


# ====================================================================== run

def _merge(dst, src):
    for k, v in src.items():
        if isinstance(v, int) and not isinstance(v, bool):
            dst[k] = dst.get(k, 0) + v


def run(ctx: Ctx) -> Result:
    root = str(ctx.scratch)
    nchunks = max(1, ctx.workers * 4)
    allvio, allvio_n = {}, {}

    def take(vio, vio_n):
        for s, lst in vio.items():
            cur = allvio.setdefault(s, [])
            cur.extend(lst[:max(0, MAX_KEPT - len(cur))])
        for s, n in vio_n.items():
            allvio_n[s] = allvio_n.get(s, 0) + n

    # ---- A
    cfgs = a_configs(ctx)
    a_st, kinds = {}, {}
    for st, kw, vio, vio_n in pmap(
            a_work, [(root, ctx.quick, c) for c in chunks(cfgs, nchunks)],
            ctx.workers):
        _merge(a_st, st)
        _merge(kinds, kw)
        take(vio, vio_n)
    # ---- B
    lists, bad_universe = b_catalogue(ctx)
    b_st = {}
    b_arity = 0
    bjobs = []
    for ch in chunks(lists, nchunks):
        conf, plats = b_config(ch)
        bjobs.append((root, conf, plats, bad_universe))
    for st, vio, vio_n in pmap(b_work, bjobs, ctx.workers):
        b_arity = max(b_arity, st.pop('max_arity'))
        _merge(b_st, st)
        take(vio, vio_n)
    # ---- C
    opts, assigns, groups = c_catalogue(ctx)
    c_st = {}
    c_arity = 0
    c_sel = set()
    for st, vio, vio_n in pmap(
            c_work, [(root, ctx.quick, c) for c in chunks(assigns, nchunks)],
            ctx.workers):
        c_arity = max(c_arity, st.pop('max_arity'))
        c_sel.update(st.pop('selected'))
        _merge(c_st, st)
        take(vio, vio_n)

    # ---- non-vacuity (seams exercised)
    judged = a_st['lookups'] - a_st['lookups_rejected'] \
        - a_st['lookups_not_judged']
    if not (a_st['collisions'] > 0 and a_st['exp_error'] > 0
            and a_st['exp_platform'] > 0 and a_st['split_configs'] > 0
            and len(kinds) >= 5):
        raise HarnessError(f'part A vacuous: {a_st} {kinds}')
    if a_st['configs_rejected'] > 0:
        raise HarnessError(
            f'{a_st["configs_rejected"]} generated configs rejected by the '
            'loader (the alphabet is meant to be loadable)')
    if b_arity < 2 or c_arity < 2:
        raise HarnessError(
            'the enumerating chooser was never offered a real choice '
            f'(B arity {b_arity}, C arity {c_arity}): random seam not '
            'exercised')
    if not (b_st['no_hosts'] > 0 and b_st['nontrivial'] > 0
            and c_st['no_platforms'] > 0 and c_st['nontrivial'] > 0
            and (allvio or c_sel >= set(C_MEMBERS))):
        raise HarnessError(f'parts B/C vacuous: {b_st} {c_st} {c_sel}')

    vios = []
    for sig in sorted(allvio):
        for p in allvio[sig]:
            what = p.pop('what')
            vios.append(Violation(
                sig, f'{what} [{allvio_n[sig]} case(s) in total]', p))

    H = heading_alphabet(ctx)
    cov = {
        'evaluations': judged + b_st['leaves'] + c_st['leaves'],
        'distinct_nontrivial': (
            a_st['collisions'] + b_st['nontrivial'] + c_st['nontrivial']),
        'rule': (
            'A: one evaluation = one (generated global.cylc, lookup name) '
            'resolved by the real platform_from_name after a real '
            'glbl_cfg(reload=True); non-trivial = at least two definitions '
            'fully match the name (precedence decides). B: one evaluation = '
            'one (host list, method, unreachable set, random choice vector); '
            'non-trivial = the platform has both reachable and unreachable '
            'hosts. C: one evaluation = one (host assignment, group member '
            'list, method, unreachable set, choice vector); non-trivial = '
            'some member is wholly unreachable while another is not'),
        'A_heading_alphabet': [render(h) for h in H],
        'A_lookup_names': len(lookup_names()),
        'A_configs': a_st['configs'],
        'A_configs_site_user_split': a_st['split_configs'],
        'A_configs_reopened_heading_not_judged': a_st['configs_reopened'],
        'A_lookups_judged': judged,
        'A_lookups_precedence_decides': a_st['collisions'],
        'A_lookups_expect_error': a_st['exp_error'],
        'A_winning_heading_kinds': kinds,
        'B_host_lists': len(lists),
        'B_cases': b_st['evals'],
        'B_choice_leaves': b_st['leaves'],
        'B_distinct_outcomes': b_st['outcomes'],
        'B_cases_expecting_NoHostsError': b_st['no_hosts'],
        'B_max_choice_arity': b_arity,
        'C_configs': c_st['configs'],
        'C_groups_per_config': len(groups),
        'C_cases': c_st['evals'],
        'C_choice_leaves': c_st['leaves'],
        'C_cases_expecting_NoPlatformsError': c_st['no_platforms'],
        'C_max_choice_arity': c_arity,
        'violating_cases_by_signature': allvio_n,
        'samples': [
            {'part': 'A', 'global.cylc headings in order':
                [render(H[i]) for i in (2, 8, 3)],
             'lookup': 'a', 'reference': 'a|b (last full match)'},
            {'part': 'A', 'site': render(H[2]), 'user': render(H[0]),
             'lookup': 'a', 'reference': 'user definition wins'},
            {'part': 'B', 'hosts': ['x', 'y', 'xx'], 'method': 'random',
             'unreachable': ['x'], 'choices explored': [0, 1],
             'reference': 'y or xx, never x'},
            {'part': 'C', 'group': ['pa', 'p1'], 'hosts':
                {'pa': ['x'], 'p1': ['y', 'z']}, 'unreachable': ['x'],
             'reference': 'p1 with host y or z'},
        ],
        'exhaustive': True,
    }
    return Result(cov, vios, assumptions=[
        'decided up to the stated alphabets and sizes only; nothing sampled '
        '(all random.choice outcomes are enumerated through a replacement '
        'chooser installed on random.choice and on the reference captured '
        'in HOST_SELECTION_METHODS)',
        'pattern languages are restricted to literals, ".", "\\d", "[12]", '
        '"*", "+", "?", "{n}", "{m,n}", "|" and comma lists; the reference '
        'matcher is hand written over the heading structure',
        'an unquoted comma list "[[a, b]]" defines the platforms a and b in '
        'that order; a quoted heading is one platform whose comma separated '
        'items are alternatives',
        'configurations in which the same name is declared twice (a '
        're-opened section, which parsec merges into the first occurrence) '
        'are executed but not judged: "last-defined" is ambiguous there',
        'only the statement is judged for selection: the returned host/'
        'platform is reachable whenever one exists and the error is raised '
        'only when none remains; which reachable one is chosen (definition '
        'order vs random) is not judged',
        'group names do not overlap each other or platform names; nested '
        'groups, unknown members, subshell/Cylc 7 settings are out of scope',
        'the built-in localhost platform is only looked up, never redefined',
    ])


# =================================================================== replay

def replay(payload):
    e = env(scratch_root())
    try:
        exc = e.load(payload['files'])
        if exc is not None:
            raise HarnessError(f'replay config rejected: {exc!r}')
        part = payload['part']
        if part == 'A':
            obs = a_observe(payload['name'])
            v = a_verdict(payload['expect'], obs, payload['name'])
        elif part == 'B':
            from cylc.flow.platforms import platform_from_name
            platform = platform_from_name(payload['platform'])
            obs = run_with_choices(
                lambda: host_observe(platform, payload['bad']),
                payload['choices'])
            v = host_verdict(
                payload['hosts'], payload['bad'], obs, payload['method'])
        else:
            obs = run_with_choices(
                lambda: c_observe(payload['group'], payload['bad']),
                payload['choices'])
            v = c_verdict(
                payload['members'], payload['hosts'], payload['method'],
                payload['bad'], obs)
    finally:
        e.close()
    if v:
        return [Violation(v[0], v[1], payload)]
    return []
