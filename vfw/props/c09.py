"""C09 Task status transitions follow the lifecycle; outputs are monotone."""
from __future__ import annotations

from ..core import Ctx, HarnessError, Result
from ..sched.mon_c09 import LifecycleStrict
from ..core import Violation
from ..sched.mon_c10 import (
    MsgProfile, collect_counters, collect_examples, reset_counters)
from ..sched.run import explore_all, replay_violation, result_from

LEVEL = 'model_checking'

ASSUME = [
    'bounded catalogue (see bounds): 1-2 tasks, 0-1 execution retries, 0-1 '
    'submission retries, one cycle point, integer cycling, localhost jobs; '
    'no operator command changes a task (the only command is the '
    'state-neutral `poll_tasks`)',
    'message-delivery deviations as for C10 (held / lost / duplicated / '
    'stale messages, job started before jobs-submit returned, poll result '
    'read early and delivered late, extra polls, two messages batched in '
    'one main-loop iteration), budget per execution as in bounds',
    'forward moves that skip a stage are accepted (a later message may '
    'overtake an earlier one); any move backwards, sideways '
    '(succeeded <-> failed) or out of submit-failed/expired is a violation, '
    'and a return to waiting must be justified by a really failed job with a '
    'configured retry left (environment ground truth)',
    'status changes of proxies that are not in the pool are counted, not '
    'judged (the statement is about tasks in the pool); clock-expiry is '
    "C32's subject: the expired row of the table is not exercised here",
    'the implied-outputs clause is evaluated after every top-level '
    'process_message call and at every main-loop boundary; monotonicity at '
    'every status change, output completion, message and boundary',
]


def catalogue(tier: str):
    """(name, graph, tasks, failing, submit-failing, emit, budget)"""
    RE = {'retries': {'exec': 1}}
    RS = {'retries': {'sub': 1}}
    O1 = {'outputs': {'x': 'msg-x'}}
    rows = [
        ('one', 'a', {}, ('a',), (), 'all', 2),
        ('one-retry', 'a', {'a': RE}, ('a',), (), 'all', 1),
        ('sub-retry', 'a', {'a': RS}, (), ('a',), 'all', 1),
        ('custom1', 'a:x', {'a': dict(O1)}, ('a',), (), 'all', 1),
    ]
    if tier == 'thorough':
        rows += [
            ('custom', 'a:x => b', {'a': dict(O1)}, ('a',), (), 'all', 1),
            ('custom1-b2', 'a:x', {'a': dict(O1)}, ('a',), (), 'all', 2),
            ('one-retry-b2', 'a', {'a': RE}, ('a',), (), 'all', 2),
            ('sub-retry-b2', 'a', {'a': RS}, ('a',), ('a',), 'all', 2),
            ('both-retries', 'a',
             {'a': {'retries': {'exec': 1, 'sub': 1}}}, ('a',), ('a',),
             'all', 1),
            ('subfail-opt', 'a:submit-fail? => b\na? => c', {}, (), ('a',),
             'all', 1),
            ('custom1-retry', 'a:x', {'a': {**O1, **RE}}, ('a',), (),
             'any', 1),
            ('chain-fail', 'a => b', {}, ('a', 'b'), (), 'all', 1),
        ]
    specs = []
    for name, graph, tasks, fails, subf, emit, budget in rows:
        specs.append({
            'name': name, 'icp': 1, 'fcp': 1, 'graph': {'R1': graph},
            'tasks': tasks, 'fail_tasks': list(fails),
            'subfail_tasks': list(subf), 'emit': emit, 'budget': budget,
        })
    return specs


# Known defect (see proposed_fixes/C09-findings.json): the exploration goes
# on behind these signatures; each one observed is still reported as a
# violation of C09 (the CLI matches it against known_findings.json).
TOLERATE = (
    'illegal-transition:failed->running:on-polled-started:stale-poll-result',
    'illegal-transition:succeeded->running:on-polled-started:'
    'stale-poll-result',
)


def make_factory(spec, tolerate=TOLERATE):
    def factory():
        outcomes = {t: ['succeeded', 'failed'] for t in spec['fail_tasks']}
        return MsgProfile(
            spec, budget=spec['budget'], outcomes=outcomes,
            emit=spec['emit'], submit_fail=tuple(spec['subfail_tasks']),
            monitors=[lambda: LifecycleStrict(tolerate)])
    return factory


NEED = ('tr:waiting->preparing', 'tr:preparing->submitted',
        'tr:submitted->running', 'tr:running->succeeded',
        'tr:running->failed', 'tr:running->waiting', 'retry:exec',
        'retry:sub', 'tr:preparing->submit-failed',
        'implied-by-later-message', 'implied-checked', 'dev:hold',
        'dev:lose', 'dev:dup', 'dev:early', 'dev:snap', 'dev:pollcmd',
        'dev:burst')


def run(ctx: Ctx) -> Result:
    specs = catalogue(ctx.tier)
    reset_counters()
    st = explore_all(
        ctx, [make_factory(s) for s in specs],
        max_states=ctx.pick(30000, 400000),
        max_seconds=ctx.pick(900, 3000))
    cnt = collect_counters()
    if not st.violations and not st.error:
        missing = [k for k in NEED if not cnt.get(k)]
        if missing:
            raise HarnessError(
                f'vacuous: never observed {missing} (counters {cnt})')
    res = _result(ctx, st, specs, cnt)
    for ex in collect_examples():
        res.violations.append(Violation(
            ex['signature'],
            f"[{ex['spec_name']}] {ex['what']} (after {len(ex['events'])} "
            f"events; {cnt.get('tolerated:' + ex['signature'], 0)} "
            'observations, exploration continued)',
            {'prop': 'C09', 'spec_name': ex['spec_name'],
             'events': ex['events'], 'terminal': None, 'flow': ex['flow'],
             'signature': ex['signature'], 'tier': ctx.tier}))
    return res


def _result(ctx, st, specs, cnt) -> Result:
    return result_from(
        ctx, st, prop='C09',
        bounds={'workflows': {s['name']: {
                    'graph': s['graph']['R1'], 'deviation budget':
                    s['budget'], 'failing': s['fail_tasks'],
                    'submit-failing': s['subfail_tasks'],
                    'retries': {t: v.get('retries') for t, v in
                                s['tasks'].items() if v.get('retries')}}
                    for s in specs}},
        assumptions=ASSUME, min_states=200,
        extra_cov={'observations': cnt})


def replay(payload):
    specs = {s['name']: s for s in catalogue('thorough')}
    specs.update({s['name']: s for s in catalogue('quick')})
    return replay_violation(
        payload, lambda pl: make_factory(specs[pl['spec_name']], ()))
