"""C06 Held tasks never submit; holds persist and apply to future
instances."""
from __future__ import annotations

from ..core import Ctx, HarnessError, Result
from ..sched import catalogue as cat
from ..sched.catalogue import A, E, N, spec_from
from ..sched.monitors import Holds, PoolInvariants
from ..sched.profile import OpProfile
from ..sched.run import explore_all, replay_violation, result_from

LEVEL = 'model_checking'

ASSUME = [
    'bounded catalogue; integer cycling; localhost jobs; all-success jobs',
    'operator alphabet: hold / release of every instance in bounds (active '
    'or not yet spawned), set_hold_point, release_hold_point, trigger; '
    'budget 1 (quick) / 2 (thorough) commands per execution, offered at '
    'every main-loop boundary; one stop --now --now + restart',
    'reference held set built from the statement (see Holds monitor)',
]


def catalogue(tier: str):
    shapes = dict(cat.basic_shapes())
    # (name, sections, fcp, first-command subset)
    rows = [('chain2-f1', [('P1', shapes['chain2'])], 1, 'hold'),
            ('chain2-f2-hp', [('P1', shapes['chain2'])], 2, 'hp')]
    # two commands: hold of an instance that is not in the pool yet, then
    # `release --all` (release_hold_point), then stop + restart
    rows += [('chain2-f2-hold-future+release-all',
              [('P1', shapes['chain2'])], 2, 'future')]
    # a hold point configured in flow.cylc, moved by command, then restart
    rows += [('chain2-f2-hpcfg2', [('P1', shapes['chain2'])], 2, 'hp')]
    if tier == 'thorough':
        rows += [('chain2-f2', [('P1', shapes['chain2'])], 2, 'all'),
                 ('prev-f3', [('P1', shapes['prev'])], 3, 'all')]
    out = []
    for name, secs, fcp, sub in rows:
        extra = {}
        if name.endswith('-hpcfg2'):
            extra = {'scheduling': {'hold after cycle point': 2}, 'hold': 2}
        sp = spec_from(secs, 1, fcp, name=name, **extra)
        sp['first'] = sub
        out.append(sp)
    return out


def instances(spec):
    from ..sched.catalogue import RefGraph
    ref = RefGraph(spec['sections'], spec['icp'], spec['fcp'])
    return sorted(f'{p}/{t}' for t in ref.tasks for p in ref.points[t])


def first_cmds(spec):
    insts = instances(spec)
    holds = [('hold', {'tasks': [i]}) for i in insts]
    hp = [('set_hold_point', {'point': '1'})]
    future = [('hold', {'tasks': [i]}) for i in insts
              if not i.startswith('1/')][:1]
    return {'hold': holds, 'hp': hp, 'all': holds + hp,
            'future': future}[spec['first']]


def make_factory(spec, tier='quick', variant=0):
    """One profile per *first* operator command (the search is partitioned
    by it so that the partitions run on separate cores)."""
    insts = instances(spec)
    first = first_cmds(spec)

    def ops(w):
        if w.op_count == 0:
            return first
        if spec['first'] == 'future':
            return [('release_hold_point', {})]
        out = [('release', {'tasks': [i]}) for i in insts]
        out += [('release_hold_point', {})]
        out += [('force_trigger_tasks', {'tasks': [i], 'flow': ['all']})
                for i in insts[:2]]
        return out

    def factory():
        p = OpProfile(
            # (the configured-hold-point entry keeps one command: whether a
            # released hold point comes back from flow.cylc at a restart is
            # not decided by the statement)
            spec, ops=ops, op_budget=1 if spec['name'].endswith('-hpcfg2')
            else 2 if (
                tier == 'thorough' or spec['first'] == 'future') else 1,
            stops=('REQUEST_NOW_NOW',), max_restarts=1, stop_after_op=True,
            monitors=[Holds, PoolInvariants], jump=())
        return p
    return factory


def factories(tier):
    out = []
    for s in catalogue(tier):
        out.append(make_factory(s, tier))
    return out


def run(ctx: Ctx) -> Result:
    specs = catalogue(ctx.tier)
    st = explore_all(
        ctx, factories(ctx.tier),
        max_states=ctx.pick(4000, 40000), max_seconds=ctx.pick(240, 1500))
    return result_from(
        ctx, st, prop='C06',
        bounds={'workflows': [s['name'] for s in specs],
                'operator commands per execution': ctx.pick(1, 2),
                'restarts': 1},
        assumptions=ASSUME, min_states=100)


def replay(payload):
    specs = {s['name']: s for s in catalogue('thorough')}
    name, _, var = payload['spec_name'].partition('#')
    return replay_violation(
        payload, lambda pl: make_factory(
            specs[name], pl.get('tier', 'quick'), int(var or 0)))
