"""C46 Warm starts and start tasks run only what follows the start
(Engine A, model checking of the real Scheduler)."""
from __future__ import annotations

from ..core import Ctx, HarnessError, Result
from ..sched import catalogue as cat
from ..sched.catalogue import (
    A, AND, OR, E, N, RefGraph, atoms, spec_from)
from ..sched.mon_c46 import C46Profile, RefStart, StartRuns
from ..sched.monitors import CycleBounds
from ..sched.run import explore_all, replay_violation, result_from

LEVEL = 'model_checking'

ASSUME = [
    'bounded catalogue (see bounds); integer cycling; localhost jobs; '
    'all-success jobs',
    'START = --start-cycle-point, or the cycle point of the earliest '
    '--start-task (as documented for `cylc play`); only *offset* '
    'dependencies can refer to instances before START',
    'start tasks: "the instances they lead to" = graph children of outputs '
    'really completed whose trigger expression is true (dependencies before '
    'START counted as satisfied) plus the later parentless instances of a '
    'task already reached (parentless tasks spawn their own successor); '
    'catalogue restricted to tasks that, once parented at a point, stay '
    'parented at later points',
    'manual exemption: `cylc trigger` (in the running flow, no --flow=new) '
    'of single pre-start instances (budget '
    '1 command per execution, offered at every main-loop boundary); what a '
    'manually triggered pre-start instance leads to before START must not '
    'run',
    'liveness (every instance that follows from the start ran) is not '
    'demanded for instances at cycle points after an instance that was '
    'spawned with a dependency no start task leads to: it legitimately '
    'holds the runahead window (operator-caused stall)',
    'start tasks whose own trigger refers beyond the final cycle point '
    '(future trigger at the final cycle) are excluded: the scheduler refuses'
    ' to spawn them',
    'no restart, no reload',
]


def TRIG(i):
    return ('force_trigger_tasks', {'tasks': [i], 'flow': []})


SH = dict(cat.basic_shapes())
MULTI = [('P2', [E(A('a'), 'b')]),
         ('+P1/P2', [E(A('a', -1), 'c')])]
FEED = [('R1', [E(A('s'), 'a')]), ('P1', [E(A('a', -1), 'a')])]
BACK2 = [('P1', [E(A('a', -2), 'b'), N('a')])]
ORPREV = [('P1', [E(OR(A('a', -1), A('c')), 'a')])]
ANDPREV = [('P1', [E(AND(A('a', -1), A('c')), 'a')])]
ENDS = [('R1', [E(A('s'), 'a')]),
        ('P1', [E(A('a', -1), 'a')]),
        ('R1/$', [E(A('a'), 'z')])]


def P1(shape):
    return [('P1', SH[shape])]


# name -> (sections, fcp quick, fcp thorough, extra, thorough: trigger
#          profile?, thorough: number of start-task pairs)
RA0 = {'scheduling': {'runahead limit': 'P0'}}
BASES = {
    'chain2': (P1('chain2'), 2, 2, {}, True, 4),
    'prev': (P1('prev'), 3, 4, {}, True, 0),
    'prevb': (P1('prevb'), 2, 3, RA0, True, 2),
    'future': (P1('future'), 2, 3, {}, True, 2),
    'feed': (FEED, 3, 3, {}, True, 2),
    'multi': (MULTI, 3, 4, {}, False, 2),
    'back2': (BACK2, 4, 4, RA0, False, 2),
    'prev2': (P1('prev2'), 3, 3, {}, True, 2),
    'and': (P1('and'), None, 2, {}, False, 2),
    'or': (P1('or'), None, 2, {}, False, 2),
    'chain3': (P1('chain3'), None, 2, {}, False, 2),
    'orprev': (ORPREV, None, 3, RA0, False, 2),
    'andprev': (ANDPREV, None, 3, {}, False, 2),
    'ends': (ENDS, None, 3, {}, True, 2),
}
# quick: (base, warm start points, start-task selections, trigger?)
QUICK = [
    ('chain2', (2,), 'singles+pairs', True, 2),
    ('prev', (2, 3), 'singles', False, 0),
    ('prevb', (2,), 'singles', False, 0),
    ('future', (2,), (), False, 0),
    ('feed', (2,), (), False, 0),
    ('multi', (2,), (), False, 0),
    ('back2', (3,), (), False, 0),
    ('prev2', (2,), (), False, 0),
]


def _supported(secs, fcp, options) -> bool:
    """Inside the reference sub-language (see RefStart._chain)?"""
    ref = RefStart({'sections': secs, 'icp': 1, 'fcp': fcp,
                    'options': options})
    for t, p in (ref.seeds or ()):
        # a start task with a dependency beyond the final point is refused
        # by the scheduler (it could never run in any flow): not judged
        if any(p + a[2] > fcp for e in ref.exprs(t, p) for a in atoms(e)):
            return False
    for t in ref.tasks:
        pts = sorted(q for q in ref.points[t] if q >= ref.start)
        flags = [ref.parentless(t, q) for q in pts]
        if any(b and not a for a, b in zip(flags, flags[1:])):
            return False
    return True


def rows(tier):
    R = []

    def add(name, secs, fcp, extra, *, startcp=None, starttask=None,
            ops=()):
        opts = {}
        if startcp is not None:
            opts['startcp'] = str(startcp)
        if starttask is not None:
            opts['starttask'] = list(starttask)
        if not _supported(secs, fcp, opts):
            return
        R.append(dict(name=name, secs=secs, fcp=fcp, options=opts,
                      ops=list(ops), extra=extra))

    def instances(secs, fcp):
        ref = RefGraph(secs, 1, fcp)
        return sorted((p, t) for t in ref.tasks for p in ref.points[t])

    if tier == 'quick':
        plan = [(b, BASES[b][1], w, sel, trig, npairs)
                for b, w, sel, trig, npairs in QUICK]
    else:
        plan = [(b, v[2], tuple(range(2, v[2] + 1)), 'singles+pairs', v[4],
                 v[5]) for b, v in BASES.items()]
    for base, fcp, warm, sel, trig, npairs in plan:
        secs, extra = BASES[base][0], BASES[base][3]
        insts = instances(secs, fcp)
        for w in warm:
            add(f'{base}-f{fcp}-w{w}', secs, fcp, extra, startcp=w)
            if trig and w == 2:
                pre = [f'{p}/{t}' for p, t in insts if p < w]
                add(f'{base}-f{fcp}-w{w}-trig', secs, fcp, extra, startcp=w,
                    ops=[TRIG(i) for i in pre])
        if sel:
            for p, t in insts:
                add(f'{base}-f{fcp}-t{p}{t}', secs, fcp, extra,
                    starttask=[f'{p}/{t}'])
        if sel == 'singles+pairs':
            # pairs at different cycle points (START = the earlier one)
            pairs = [(x, y) for x in insts for y in insts
                     if x[0] < y[0] and x[1] != y[1]]
            # spread the selection over the list (fixed order)
            step = max(1, len(pairs) // max(1, npairs))
            pairs = pairs[step - 1::step][:npairs]
            for (p1, t1), (p2, t2) in pairs:
                add(f'{base}-f{fcp}-t{p1}{t1}+{p2}{t2}', secs, fcp, extra,
                    starttask=[f'{p1}/{t1}', f'{p2}/{t2}'])
    return R


def catalogue(tier: str):
    out = []
    for r in rows(tier):
        sp = spec_from(r['secs'], 1, r['fcp'], name=r['name'],
                       options=r['options'], **r['extra'])
        sp['ops'] = r['ops']
        out.append(sp)
    return out


def make_factory(spec):
    ops = list(spec['ops'])

    def factory():
        return C46Profile(
            spec, ops=lambda w: ops, op_budget=1 if ops else 0,
            monitors=[StartRuns, CycleBounds], jump=())
    return factory


NEED = ('+warm', '+start-tasks', '+pre-start-dep', '+manual-pre-start')


def run(ctx: Ctx) -> Result:
    specs = catalogue(ctx.tier)
    st = explore_all(
        ctx, [make_factory(s) for s in specs],
        max_states=ctx.pick(6000, 60000), max_seconds=ctx.pick(115, 2400))
    if not st.error and not st.violations:
        for flag in NEED:
            if not any(flag in k for k in st.terminals):
                raise HarnessError(
                    f'vacuous: no terminal state carries {flag!r} '
                    f'(terminals: {sorted(st.terminals)})')
    return result_from(
        ctx, st, prop='C46',
        bounds={'workflows': [s['name'] for s in specs],
                'naming': '<graph>-f<FCP>-w<start point>[-trig] | '
                          '<graph>-f<FCP>-t<start task>[+<start task>]',
                'operator commands per execution': 1},
        assumptions=ASSUME, min_states=200)


def replay(payload):
    specs = {s['name']: s for s in catalogue('thorough')}
    specs.update({s['name']: s for s in catalogue('quick')})
    return replay_violation(
        payload, lambda pl: make_factory(specs[pl['spec_name']]))
