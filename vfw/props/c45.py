"""C45 Absolute-trigger outputs (foo[^], foo[2]) satisfy every current and
future dependent instance, including instances spawned after a restart
(Engine A, model checking of the real Scheduler)."""
from __future__ import annotations

from ..core import Ctx, HarnessError, Result
from ..sched.mon_c45 import AbsTriggers, C45Profile
from ..sched.run import explore_all, replay_violation, result_from

LEVEL = 'model_checking'

ASSUME = [
    'bounded catalogue of absolute-trigger graphs written as graph text '
    '(see bounds); integer cycling; localhost jobs; all-success jobs',
    'the reference is a hand-written table per workflow: the absolute '
    'outputs and, for each, the dependent task and its cycle points',
    'one `stop --now --now` at any main-loop boundary followed by a restart '
    '(jobs do not progress while the scheduler is down)',
    'the invariant is evaluated at main-loop boundaries at which the '
    'scheduler has consumed every delivered job message',
    'no reload, no flows other than the original, no warm start',
]


def spec(name, fcp, graph, abs_, tasks=None, **extra):
    s = {'name': name, 'icp': 1, 'fcp': fcp, 'graph': graph,
         'tasks': tasks or {}, 'abs': abs_}
    s.update(extra)
    return s


def absout(task, point, dependents, output='succeeded', message=None):
    return {'task': task, 'point': point, 'output': output,
            'message': message or output, 'dependents': dependents}


def pts(fcp, first=1):
    return list(range(first, fcp + 1))


RA0 = {'runahead limit': 'P0'}
RA1 = {'runahead limit': 'P1'}


def catalogue(tier: str):
    C = []
    # R1 start-up task feeding every cycle through s[^]
    C.append(spec(
        'r1-init-f2-ra0', 2, {'R1': 's', 'P1': 's[^] => b'},
        [absout('s', 1, {'b': pts(2)})], scheduling=RA0))
    # dependents that also have an ordinary parent: spawned on demand
    C.append(spec(
        'r1-and-seq-f2', 2, {'R1': 's => a', 'P1': 's[^] & a => b'},
        [absout('s', 1, {'b': pts(2)})], scheduling=RA0))
    # cycling parent, initial-point-relative and absolute offsets
    C.append(spec(
        'foo-2-seq-f2', 2, {'P1': 'foo[2] => bar\nfoo[-P1] => foo'},
        [absout('foo', 2, {'bar': pts(2)})]))
    # two different outputs of one absolute parent instance
    C.append(spec(
        'r1-two-outputs-f2', 2,
        {'R1': 's',
         'P1': 'a[-P1] => a\ns[^]:start & a => e\ns[^] & a => l'},
        [absout('s', 1, {'e': pts(2)}, output='started'),
         absout('s', 1, {'l': pts(2)})], scheduling=RA0))
    if tier == 'thorough':
        C.append(spec(
            'foo-init-f2', 2, {'P1': 'foo[^] => bar\nfoo'},
            [absout('foo', 1, {'bar': pts(2)})], scheduling=RA0))
        C.append(spec(
            'r1-and-f2', 2, {'R1': 's', 'P1': 's[^] & a => b'},
            [absout('s', 1, {'b': pts(2)})], scheduling=RA0))
        C.append(spec(
            'r1-init-f3', 3, {'R1': 's', 'P1': 's[^] => b'},
            [absout('s', 1, {'b': pts(3)})], scheduling=RA1))
        C.append(spec(
            'r1-init-f3-ra0', 3, {'R1': 's', 'P1': 's[^] => b'},
            [absout('s', 1, {'b': pts(3)})], scheduling=RA0))
        C.append(spec(
            'r1-custom-f2', 2, {'R1': 's', 'P1': 's[^]:x => b'},
            [absout('s', 1, {'b': pts(2)}, output='x', message='msg-x')],
            tasks={'s': {'outputs': {'x': 'msg-x'}}}, scheduling=RA0))
        C.append(spec(
            'r1-and-f3', 3, {'R1': 's', 'P1': 's[^] & a => b'},
            [absout('s', 1, {'b': pts(3)})], scheduling=RA0))
        C.append(spec(
            'r1-two-f2', 2, {'R1': 's & t', 'P1': 's[^] & t[^] => b'},
            [absout('s', 1, {'b': pts(2)}), absout('t', 1, {'b': pts(2)})],
            scheduling=RA0))
        C.append(spec(
            'foo-init-f3', 3, {'P1': 'foo[^] => bar\nfoo'},
            [absout('foo', 1, {'bar': pts(3)})], scheduling=RA0))
        C.append(spec(
            'foo-2-p2-f3', 3, {'P1': 'foo', '+P1/P1': 'foo[2] => bar'},
            [absout('foo', 2, {'bar': pts(3, 2)})], scheduling=RA0))
        C.append(spec(
            'r1-start-f2', 2, {'R1': 's', 'P1': 's[^]:start => b'},
            [absout('s', 1, {'b': pts(2)}, output='started')],
            scheduling=RA0))
    return C


def make_factory(spec):
    def factory():
        return C45Profile(
            spec, stops=('REQUEST_NOW_NOW',), max_restarts=1,
            monitors=[AbsTriggers], jump=())
    return factory


NEED = ('+restart-dependent-in-pool', '+restart-dependent-not-spawned',
        '+restart-before-abs-output', '+late-spawn',
        '+late-spawn-after-restart')


def run(ctx: Ctx) -> Result:
    specs = catalogue(ctx.tier)
    st = explore_all(
        ctx, [make_factory(s) for s in specs],
        max_states=ctx.pick(6000, 60000), max_seconds=ctx.pick(115, 2400))
    if not st.error and not st.violations:
        for flag in NEED:
            if not any((k + '+').count(flag + '+') for k in st.terminals):
                raise HarnessError(
                    f'vacuous: no terminal state carries {flag!r} '
                    f'(terminals: {sorted(st.terminals)})')
    return result_from(
        ctx, st, prop='C45',
        bounds={'workflows': {s['name']: s['graph'] for s in specs},
                'restarts': 1},
        assumptions=ASSUME, min_states=200)


def replay(payload):
    specs = {s['name']: s for s in catalogue('thorough')}
    return replay_violation(
        payload, lambda pl: make_factory(specs[pl['spec_name']]))
