"""C36 Configuration processing is idempotent.

Engine B.  Workflow configuration sources are assembled from every
combination of up to N "atoms" (quoted values, multi-line strings, comments,
backslash continuations, %include files, Jinja2 constructs, repeated
sections/keys, file-level transforms) dropped into the slots of a valid
flow.cylc skeleton.  Each source is parsed by the real
`fileparse.parse(src, output_fname=p1)`; then the processed file p1 that cylc
wrote is parsed again.  The two nested dictionaries must be equal (keys,
order, values).  When they are not, both files are loaded through the real
`RawWorkflowConfig` (upgrade + validation against the workflow spec) and the
validated configurations are compared: a difference that survives is a
violation (a difference in comment text only is counted, not reported).
"""
from __future__ import annotations

import itertools
import os
from pathlib import Path

from ..core import Ctx, HarnessError, Result, Violation, chunks, pmap

LEVEL = 'exploration'

SLOTS = ('TOP', 'META', 'GRAPH', 'GRAPHSEC', 'FOO', 'ENV', 'RUNTIME', 'END')

SKELETON = '''\
{TOP}[meta]
    title = base title
{META}[scheduling]
    [[graph]]
        R1 = """
            foo => bar
{GRAPH}        """
{GRAPHSEC}[runtime]
    [[foo]]
        script = echo base
{FOO}        [[[environment]]]
            BASE = 1
{ENV}            LAST = end of environment
    [[bar]]
        script = echo bar
{RUNTIME}{END}'''

BS = '\\'


def A(name, feature, jinja=False, files=None, transform=None, **slots):
    for s in slots:
        assert s in SLOTS, s
    return {
        'name': name, 'feature': feature, 'jinja': jinja,
        'files': files or {}, 'transform': transform,
        'slots': {s: (v if isinstance(v, list) else [v])
                  for s, v in slots.items()},
    }


def catalogue():
    e = ' ' * 12      # environment item indent
    f = ' ' * 8       # [[foo]] item indent
    m = ' ' * 4       # [meta] item indent
    return [
        # ---- quoting
        A('Q1', 'quote', META=m + 'description = "dq # not a comment = [x]"'
          '  # real comment'),
        A('Q2', 'quote', META=m + "URL = 'sq # h = [y]'"),
        A('Q3', 'quote', ENV=e + 'Q3 = unquoted value # comment'),
        A('Q4', 'quote', ENV=e + '''Q4 = "a, b, 'c # d', e"  # list-like'''),
        # ---- multi-line strings
        A('M1', 'multiline', FOO=[
            f + 'pre-script = """', 'echo a', '', '      indented # hash',
            '[not a section]', 'x = y', f + '"""']),
        A('M2', 'multiline', FOO=[
            f + "post-script = '''", f + 'echo "x" ' + BS,
            f + '    continued', f + "'''  # trailing comment"]),
        A('M3', 'multiline',
          FOO=f + 'env-script = """single line triple"""  # c'),
        A('M4', 'multiline', META=[
            m + 'custom = """', '  line1', '  # looks like a comment ' + BS
            + ' ', '  line3', m + '"""']),
        # ---- comments
        A('C1', 'comment', META=m + '# plain comment'),
        A('C2', 'comment', ENV=[e + '# comment continued ' + BS,
                                e + 'C2 = swallowed by the comment']),
        A('C3', 'comment', META=m + '# see C:' + BS + 'dir' + BS + '  '),
        A('C4', 'comment', ENV=e + 'C4 = 1 # inline c:' + BS + 'tmp' + BS
          + ' '),
        A('C5', 'comment', FOO=[f + '#[[[not a section]]]', '',
                                f + '   # indented comment = x']),
        # ---- backslash continuation
        A('K1', 'continuation', ENV=[e + 'K1 = a ' + BS, e + '     b']),
        A('K2', 'continuation',
          ENV=[e + 'K2 = a ' + BS, e + '  b ' + BS, e + '  c  # done']),
        A('K3', 'continuation',
          ENV=[e + 'K3 = a ' + BS, e + '  b ' + BS + '  ']),
        A('K4', 'continuation',
          GRAPH=[e + 'foo & ' + BS, e + '    bar']),
        A('K5', 'continuation', FOO=[f + 'platform = ' + BS, 'localhost']),
        A('K6', 'continuation', ENV=e + 'K6 = a ' + BS + BS),
        A('K7', 'continuation',
          ENV=[e + 'K7 = a ' + BS, e + '# then a comment line']),
        # ---- include files
        A('I1', 'include', ENV=e + '%include inc/i1.cylc',
          files={'inc/i1.cylc': e + 'I1 = included # c\n'}),
        A('I2', 'include', ENV='%include "inc/i2.cylc"',
          files={'inc/i2.cylc': e + 'I2 = outer\n%include inc/i2b.cylc\n'
                 + e + 'I2c = after\n',
                 'inc/i2b.cylc': e + 'I2b = nested\n'}),
        A('I3', 'include', RUNTIME="    %include 'inc/i3.cylc'",
          files={'inc/i3.cylc': '    [[inc_ns]]\n        script = true'}),
        A('I4', 'include', ENV=['%include inc/i4.cylc', e + '   tail'],
          files={'inc/i4.cylc': e + 'I4 = head ' + BS + '\n'}),
        A('I5', 'include', ENV='%include inc/i5.cylc',
          files={'inc/i5.cylc': e + '# c:' + BS + 'inc' + BS + ' \n'
                 + e + 'I5 = x\n'}),
        A('I6', 'include', jinja=True, ENV='%include inc/i6.cylc',
          files={'inc/i6.cylc': e + 'I6 = {{ 1 + 1 }}\n'}),
        # ---- Jinja2
        A('J1', 'jinja2', jinja=True, TOP="{% set V = 'val # x' %}",
          ENV=e + 'J1 = {{ V }}'),
        A('J2', 'jinja2', jinja=True, RUNTIME=[
            '{% for i in range(2) %}', '    [[t{{ i }}]]',
            '        script = echo {{ i }}', '{% endfor %}']),
        A('J3', 'jinja2', jinja=True,
          ENV=e + '{% if true %}J3 = yes{% else %}J3 = no{% endif %}'),
        A('J4', 'jinja2', jinja=True,
          ENV=e + 'J4 = {% raw %}{{ literal }} {% x %}{% endraw %}'),
        A('J5', 'jinja2', jinja=True,
          ENV=[e + "J5 = a {{ '" + BS + BS + "' }}", e + '  b']),
        A('J6', 'jinja2', jinja=True,
          META=['{# jinja comment #}', m + 'J6 = {{ CYLC_VERSION }}']),
        A('J7', 'jinja2', jinja=True,
          ENV=e + "# c:" + BS + "j" + BS + "{{ ' ' }}"),
        A('J8', 'jinja2', jinja=True, ENV=[
            '{%- if true -%}', e + 'J8 = ws control', '{%- endif %}']),
        A('J9', 'jinja2', jinja=True, FOO=[
            f + 'exit-script = """', '{% for w in ["a", "b"] %}',
            'echo {{ w }} ' + BS, '{% endfor %}', ' done', f + '"""']),
        # expression values holding characters that some line splitters
        # (str.splitlines, universal-newline file reading) take for line
        # boundaries and others do not
        A('J10', 'jinja2', jinja=True, FOO=[
            f + "err-script = '''",
            'echo {{ ["p", "q"] | join("' + BS + 'r") }}',
            ' {{ "x' + BS + 'x0cy" }}', f + "'''"]),
        A('J11', 'jinja2', jinja=True,
          ENV=[e + "J11 = '''a{{ \"" + BS + "u2028\" }}b",
               e + "  {{ \"c" + BS + "x1cd\" }}'''"]),
        # ---- repeated sections / keys, nesting
        A('S1', 'repeat', RUNTIME=[
            '    [[foo]]', '        [[[environment]]]',
            e + 'BASE = 2', e + 'S1 = again']),
        A('S2', 'repeat', GRAPHSEC=' ' * 8 + 'R1 = bar => foo'),
        A('S3', 'repeat', RUNTIME=[
            '    [[deep]]', '        [[[directives]]]', e + '-l = x=1',
            '        [[[outputs]]]', e + 'o = out put',
            '    [[deep2]]', '        inherit = deep']),
        # ---- odd characters
        A('U1', 'chars', ENV=e + 'U1 = café ☃ # ünï'),
        A('U2', 'chars', ENV=e + 'U2 = a\tb = c [d] % e'),
        # ---- whole-file transforms
        A('W1', 'transform', transform='crlf'),
        A('W2', 'transform', transform='tabs'),
        A('W3', 'transform', transform='no-final-newline'),
    ]


def render(atoms):
    """-> {relative path: text}; flow.cylc is the source."""
    slots = {s: [] for s in SLOTS}
    files = {}
    jinja = False
    transforms = []
    for a in atoms:
        for s, lines in a['slots'].items():
            slots[s].extend(lines)
        files.update(a['files'])
        jinja = jinja or a['jinja']
        if a['transform']:
            transforms.append(a['transform'])
    text = SKELETON.format(**{
        s: ''.join(ln + '\n' for ln in slots[s]) for s in SLOTS})
    if jinja:
        text = '#!jinja2\n' + text
    for t in transforms:
        if t == 'crlf':
            text = text.replace('\n', '\r\n')
        elif t == 'tabs':
            text = '\n'.join(
                _tab(ln) for ln in text.split('\n'))
        elif t == 'no-final-newline':
            text = text.rstrip('\n')
    files = dict(files)
    files['flow.cylc'] = text
    return files


def _tab(line):
    body = line.lstrip(' ')
    n = len(line) - len(body)
    return '\t' * (n // 4) + ' ' * (n % 4) + body


# ------------------------------------------------------------------ judging

def plain(cfg):
    """Nested dict -> nested [key, value] lists (order matters)."""
    return [[k, plain(v)] if hasattr(v, 'items') else [k, _v(v)]
            for k, v in cfg.items()]


def _v(v):
    return list(v) if isinstance(v, list) else v


def write_files(wdir: Path, files):
    for rel, text in files.items():
        p = wdir / rel
        p.parent.mkdir(parents=True, exist_ok=True)
        with open(p, 'w', newline='') as fh:
            fh.write(text)


def validated(path):
    """The configuration as cylc sees it (upgraded + validated, sparse)."""
    from cylc.flow.cfgspec.workflow import RawWorkflowConfig
    try:
        cfg = RawWorkflowConfig(str(path), None, {}, None)
    except Exception as exc:
        return f'EXC {type(exc).__name__}: {str(exc).splitlines()[0][:80]}'
    return plain(cfg.sparse)


def first_diff(a, b, path=()):
    """Path of the first difference between two plain() structures."""
    if not (isinstance(a, list) and isinstance(b, list)):
        return path
    ka = [x[0] for x in a if isinstance(x, list) and len(x) == 2]
    kb = [x[0] for x in b if isinstance(x, list) and len(x) == 2]
    if len(ka) != len(a) or len(kb) != len(b):
        return path     # a list value
    for k in ka:
        if k not in kb:
            return path + (k, 'lost')
    for k in kb:
        if k not in ka:
            return path + (k, 'added')
    if ka != kb:
        return path + ('order',)
    for (k, va), (_, vb) in zip(a, b):
        if va != vb:
            if isinstance(va, list) and isinstance(vb, list) and va and (
                    isinstance(va[0], list)):
                return first_diff(va, vb, path + (k,))
            return path + (k, 'changed')
    return path


def cause_of(p1_text):
    """Why would a second pass read the processed file differently?"""
    import re
    lines = p1_text.split('\n')
    if lines and lines[-1] == '':
        lines = lines[:-1]
    for ln in lines[:-1]:
        if ln.endswith('\\'):
            return ('processed-line-ends-in-backslash:'
                    + ('after-hash' if '#' in ln else 'no-hash'))
    if lines and re.match(r'^#![jJ]inja2', lines[0]):
        return 'processed-file-starts-with-jinja2-shebang'
    if any(re.match(r'\s*%include\s', ln) for ln in lines):
        return 'include-directive-left-in-processed-file'
    if any('\r' in ln for ln in lines):
        return 'carriage-return-in-processed-line'
    return None


def evaluate(files, wdir: Path):
    """Returns (status, info). status: rejected | same | comment-only |
    source-invalid | violation."""
    from cylc.flow.parsec.fileparse import parse
    write_files(wdir, files)
    (wdir / 'log').mkdir(exist_ok=True)
    src = wdir / 'flow.cylc'
    p1 = wdir / 'log' / 'p1.cylc'
    p2 = wdir / 'log' / 'p2.cylc'
    for p in (p1, p2):
        if p.exists():
            p.unlink()
    cwd = os.getcwd()
    try:
        try:
            c1 = plain(parse(str(src), str(p1)))
        except Exception as exc:
            return 'rejected', {'exc': type(exc).__name__}
        finally:
            os.chdir(cwd)
        p1_text = p1.read_text()
        info = {'processed_differs_from_source':
                p1_text != files['flow.cylc'], 'p1': p1_text}
        try:
            c2 = plain(parse(str(p1), str(p2)))
            exc2 = None
        except Exception as exc:
            c2 = None
            exc2 = f'{type(exc).__name__}: {str(exc).splitlines()[0][:80]}'
        finally:
            os.chdir(cwd)
        info['fixpoint'] = (exc2 is None and p2.read_text() == p1_text)
        if exc2 is None and c1 == c2:
            return 'same', info
        # the raw dictionaries differ: compare what cylc makes of them
        v1 = validated(src)
        os.chdir(cwd)
        if isinstance(v1, str):
            info['source_validation'] = v1
            return 'source-invalid', info
        v2 = validated(p1)
        os.chdir(cwd)
        if v1 == v2:
            return 'comment-only', info
        cause = cause_of(p1_text)
        if isinstance(v2, str):
            effect = 'processed-file-rejected'
            where = ()
        else:
            where = first_diff(v1, v2)
            effect = 'config-differs'
        info.update({
            'cause': cause, 'effect': effect,
            'where': list(where),
            'pass2_error': exc2 if exc2 else (
                v2 if isinstance(v2, str) else None),
        })
        return 'violation', info
    finally:
        os.chdir(cwd)


def signature(info):
    if info.get('cause'):
        return info['cause']
    w = info.get('where') or []
    return f"{info['effect']}:{'/'.join(map(str, w[-2:]))}"


def describe(atoms, info):
    where = '/'.join(map(str, info.get('where') or [])) or '-'
    return (f"atoms {'+'.join(atoms)}: parsing the processed file gives a "
            f"different configuration ({info['effect']} at {where}"
            f"{'; ' + info['pass2_error'] if info.get('pass2_error') else ''}"
            f"); cause: {info.get('cause')}")


# ---------------------------------------------------------------------- run

def combos(cat, maxn, reverse_too):
    idx = range(len(cat))
    for n in range(0, maxn + 1):
        for c in itertools.combinations(idx, n):
            # at most one whole-file transform of each kind: all are distinct
            yield (c, False)
            if reverse_too and n == 2:
                yield (c, True)


_EP_CACHE: dict = {}


def cache_entry_points():
    """The installed-package scan for plugin entry points costs ~7 ms per
    parse and dominates everything; memoise it (the same plugins still
    run on every parse)."""
    import cylc.flow.plugins as plugins
    if getattr(plugins.iter_entry_points, '_vf_cached', False):
        return
    real = plugins.iter_entry_points

    def cached(name):
        if name not in _EP_CACHE:
            _EP_CACHE[name] = list(real(name))
        return iter(_EP_CACHE[name])
    cached._vf_cached = True
    plugins.iter_entry_points = cached


def _work(job):
    import logging
    logging.getLogger('cylc').setLevel(logging.CRITICAL)
    cache_entry_points()
    cases, scratch = job
    cat = catalogue()
    wdir = Path(scratch) / f'c36-{os.getpid()}'
    wdir.mkdir(parents=True, exist_ok=True)
    counts = {}
    feats = {}
    bad = []
    nontriv = 0
    nofix = 0
    for combo, rev in cases:
        atoms = [cat[i] for i in combo]
        if rev:
            atoms = atoms[::-1]
        files = render(atoms)
        st, info = evaluate(files, wdir)
        counts[st] = counts.get(st, 0) + 1
        if st != 'rejected':
            if info['processed_differs_from_source']:
                nontriv += 1
            if not info['fixpoint']:
                nofix += 1
            for a in atoms:
                feats[a['feature']] = feats.get(a['feature'], 0) + 1
        if st == 'violation' and len(bad) < 400:
            names = [a['name'] for a in atoms]
            info = dict(info)
            info.pop('p1', None)
            bad.append({'atoms': names, 'files': files, 'info': info})
    import shutil
    shutil.rmtree(wdir, ignore_errors=True)
    return counts, feats, bad, nontriv, nofix


def run(ctx: Ctx) -> Result:
    cat = catalogue()
    maxn = ctx.pick(3, 4)
    cases = list(combos(cat, maxn, reverse_too=not ctx.quick))
    if ctx.seed:
        # optional extra slice: one more size class on a rotating stride
        extra = itertools.combinations(range(len(cat)), maxn + 1)
        cases += [(c, False) for i, c in enumerate(extra)
                  if i % 499 == ctx.seed % 499]
    jobs = [(c, str(ctx.scratch)) for c in chunks(cases, ctx.workers * 8)]
    res = pmap(_work, jobs, ctx.workers)
    counts = {}
    feats = {}
    bad = []
    nontriv = nofix = 0
    for c, f, b, n, nf in res:
        for k, v in c.items():
            counts[k] = counts.get(k, 0) + v
        for k, v in f.items():
            feats[k] = feats.get(k, 0) + v
        bad.extend(b)
        nontriv += n
        nofix += nf
    for need in ('quote', 'multiline', 'comment', 'continuation', 'include',
                 'jinja2', 'repeat', 'transform'):
        if not feats.get(need):
            raise HarnessError(f'feature {need} never reached the oracle')
    if counts.get('source-invalid', 0) > len(cases) // 20:
        raise HarnessError(
            f"too many generated sources are invalid: {counts}")
    bad.sort(key=lambda b: (len(b['atoms']), b['atoms']))
    vios = [
        Violation(signature(b['info']), describe(b['atoms'], b['info']),
                  {'atoms': b['atoms'], 'files': b['files'],
                   'signature': signature(b['info'])})
        for b in bad]
    samples = []
    for combo, rev in cases[:: max(1, len(cases) // 4)][:4]:
        atoms = [cat[i] for i in combo]
        samples.append({
            'atoms': [a['name'] for a in atoms],
            'source_first_lines': render(atoms)['flow.cylc'][:300]})
    cov = {
        'evaluations': len(cases),
        'distinct_nontrivial': nontriv,
        'rule': (
            'every combination of <= max_atoms atoms of the catalogue (each '
            'a distinct source text); non-trivial = accepted sources whose '
            'processed file differs from the source text (an include was '
            'inlined, Jinja2 rendered, a continuation joined or whitespace '
            'stripped)'),
        'atoms': len(cat),
        'max_atoms': maxn,
        'accepted_and_identical': counts.get('same', 0),
        'accepted_differing_in_comment_text_only':
            counts.get('comment-only', 0),
        'rejected_by_cylc_not_judged': counts.get('rejected', 0),
        'source_fails_validation_not_judged':
            counts.get('source-invalid', 0),
        'violating_sources': counts.get('violation', 0),
        'processed_file_not_a_fixpoint': nofix,
        'sources_per_feature': feats,
        'samples': samples,
        'exhaustive': True,
    }
    return Result(cov, vios, assumptions=[
        'sources are the skeleton flow.cylc plus combinations of catalogue '
        'atoms; each atom is one concrete variant of a feature (see '
        'catalogue() in vfw/props/c36.py)',
        '"the same configuration" = equal nested dictionaries from '
        'fileparse.parse; when those differ, the upgraded+validated sparse '
        'configurations (RawWorkflowConfig) are compared and only a '
        'difference there is reported (comment text is not configuration)',
        'sources that cylc rejects on the first pass are not judged',
        'the processed file is written next to the source under log/, and '
        'parsed with no template variables (templating is already applied)',
        'not covered: template variables from the command line / database, '
        'third-party pre_configure plugins (the plugin entry-point scan is '
        'memoised by the harness), EmPy, a second #!jinja2 line, Jinja2 '
        'include/import of other template files',
    ])


def replay(payload):
    import logging
    import tempfile
    from ..core import scratch_root
    logging.getLogger('cylc').setLevel(logging.CRITICAL)
    cache_entry_points()
    wdir = Path(tempfile.mkdtemp(dir=scratch_root()))
    st, info = evaluate(payload['files'], wdir)
    if st != 'violation':
        return []
    info.pop('p1', None)
    return [Violation(signature(info), describe(payload['atoms'], info),
                      dict(payload, signature=signature(info)))]
