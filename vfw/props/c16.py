"""C16 Integer recurrences denote the clipped arithmetic progression.

Engine B: exhaustive enumeration of every supported recurrence form over a
bounded integer box, against a reference built with range()-style arithmetic
from the *form's documented meaning* (never from cylc's parsed state).
"""
from __future__ import annotations

import itertools

from ..core import Ctx, Result, Violation, chunks, pmap

LEVEL = 'exploration'

HORIZON = 40   # reference window upper bound for unbounded sequences


# ---------------------------------------------------------------- reference

def rel(expr, ctx):
    """Absolute int for '5', '+P2', '-P1' relative to ctx (may be None)."""
    if expr[0] in '+-' and expr[1] == 'P':
        if ctx is None:
            raise LookupError
        return ctx + int(expr[0] + expr[2:])
    return int(expr)


def ref_points(term, icp, fcp):
    """Sorted list of ints: the recurrence's progression clipped to
    [icp, fcp] (fcp None = unbounded, cut at HORIZON), before exclusions.

    Returns None when the term is not meaningful (e.g. needs a final point
    that is absent, or a non-integer step) - such terms are not judged.
    """
    kind = term['kind']
    hi = fcp if fcp is not None else HORIZON
    lo = icp
    pts = None
    if kind == 'Rn/START/END':
        n = term['n']
        s = rel(term['start'], icp)
        e = rel(term['end'], fcp)
        if n == 1:
            pts = [s]
        else:
            if (e - s) % (n - 1) or e - s <= 0:
                return None
            k = (e - s) // (n - 1)
            pts = [s + i * k for i in range(n)]
    elif kind in ('START/Pk', 'Pk'):
        s = rel(term['start'], icp) if kind == 'START/Pk' else icp
        k = term['k']
        pts = list(range(s, hi + 1, k))
        # a start before ICP: progression continues from there
    elif kind in ('Pk/END', 'R/Pk/END'):
        e = rel(term['end'], fcp)
        k = term['k']
        pts = sorted(range(e, lo - 1, -k))
    elif kind == 'R1/START':
        pts = [rel(term['start'], icp)]
    elif kind in ('Rn/START/Pk', 'Rn//Pk'):
        s = rel(term['start'], icp) if kind == 'Rn/START/Pk' else icp
        pts = [s + i * term['k'] for i in range(term['n'])]
    elif kind in ('Rn/Pk/END', 'Rn/Pk'):
        if kind == 'Rn/Pk':
            if fcp is None:
                raise LookupError
            e = fcp
        else:
            e = rel(term['end'], fcp)
        pts = sorted(e - i * term['k'] for i in range(term['n']))
    elif kind == 'R1':
        pts = [icp]
    elif kind == 'R1//END':
        pts = [rel(term['end'], fcp)]
    else:
        raise ValueError(kind)
    return [p for p in pts if lo <= p <= hi]


def render(term):
    kind = term['kind']
    f = {
        'Rn/START/END': 'R{n}/{start}/{end}',
        'START/Pk': '{start}/P{k}',
        'Pk': 'P{k}',
        'Pk/END': 'P{k}/{end}',
        'R/Pk/END': 'R/P{k}/{end}',
        'R1/START': 'R1/{start}',
        'Rn/START/Pk': 'R{n}/{start}/P{k}',
        'Rn//Pk': 'R{n}//P{k}',
        'Rn/Pk/END': 'R{n}/P{k}/{end}',
        'Rn/Pk': 'R{n}/P{k}',
        'R1': 'R1',
        'R1//END': 'R1//{end}',
    }[kind]
    s = f.format(**term)
    if term.get('excl'):
        s += '!' + term['excl']
    return s


def ref_exclusions(excl, base):
    """Set of excluded ints, given the un-excluded clipped progression."""
    if not excl:
        return set()
    out = set()
    items = excl.strip('()').split(',')
    for it in items:
        if '/' in it or it.startswith('P'):
            # exclusion sequence: START/Pk (absolute) or Pk anchored at the
            # first point of the main sequence
            if not base:
                continue
            if '/' in it:
                s, k = it.split('/')
                s, k = int(s), int(k[1:])
            else:
                s, k = base[0], int(it[1:])
            # clipped to the main sequence's extent
            out.update(p for p in range(s, base[-1] + 1, k) if p >= base[0])
        else:
            out.add(int(it))
    return out


# -------------------------------------------------------------- enumeration

def terms(ctx: Ctx):
    q = ctx.quick
    abs_pts = list(range(-1, 9)) if q else list(range(-2, 13))
    rel_start = ['+P0', '+P1', '+P3', '-P1'] if q else [
        '+P0', '+P1', '+P2', '+P3', '+P5', '-P1', '-P2']
    rel_end = ['-P0', '-P1', '-P3', '+P1'] if q else [
        '-P0', '-P1', '-P2', '-P3', '-P5', '+P1', '+P2']
    starts = [str(p) for p in abs_pts] + rel_start
    ends = [str(p) for p in abs_pts] + rel_end
    ks = [1, 2, 3] if q else [1, 2, 3, 4, 5]
    ns = [1, 2, 3] if q else [1, 2, 3, 4, 5]
    excls = [None, '3', '(2,4)', 'P2', '2/P3'] if q else [
        None, '1', '3', '6', '(2,4)', '(1,3,5)', 'P2', 'P3', '2/P2', '1/P3',
        '(3,P2)']
    out = []

    def add(**kw):
        out.append(kw)
    for e in excls:
        for n, s, en in itertools.product(ns, starts, ends):
            add(kind='Rn/START/END', n=n, start=s, end=en, excl=e)
        for s, k in itertools.product(starts, ks):
            add(kind='START/Pk', start=s, k=k, excl=e)
        for k in ks:
            add(kind='Pk', k=k, excl=e)
            for n in ns:
                add(kind='Rn//Pk', n=n, k=k, excl=e)
                add(kind='Rn/Pk', n=n, k=k, excl=e)
        for k, en in itertools.product(ks, ends):
            add(kind='Pk/END', k=k, end=en, excl=e)
            add(kind='R/Pk/END', k=k, end=en, excl=e)
            for n in ns:
                add(kind='Rn/Pk/END', n=n, k=k, end=en, excl=e)
        for s in starts:
            add(kind='R1/START', start=s, excl=e)
            for n, k in itertools.product(ns, ks):
                add(kind='Rn/START/Pk', n=n, start=s, k=k, excl=e)
        add(kind='R1', excl=e)
        for en in ends:
            add(kind='R1//END', end=en, excl=e)
    return out


def contexts(ctx: Ctx):
    if ctx.quick:
        return [(1, None), (1, 6), (1, 9), (3, 8), (0, 7)]
    icps = [0, 1, 2, 3, 4]
    fcps = [None, 5, 6, 7, 8, 9, 10, 12]
    return list(itertools.product(icps, fcps))


# ------------------------------------------------------------------- check

def judge(term, icp, fcp, qlo, qhi):
    """Return (status, [violation dicts]). status in ok/rejected/skipped."""
    from cylc.flow.cycling.integer import IntegerPoint, IntegerSequence
    text = render(term)
    try:
        base = ref_points(term, icp, fcp)
    except LookupError:
        return 'skipped', []
    if base is None:
        return 'skipped', []
    ex = ref_exclusions(term.get('excl'), base)
    pts = [p for p in base if p not in ex]
    bounded = fcp is not None or term['kind'] in (
        'Rn/START/END', 'R1/START', 'Rn/START/Pk', 'Rn//Pk', 'Rn/Pk/END',
        'R1', 'R1//END', 'Pk/END', 'R/Pk/END')
    if not bounded and base and (not pts or pts[-1] < HORIZON - 16):
        # unbounded sequence whose whole tail is excluded: degenerate
        return 'skipped', []
    try:
        seq = IntegerSequence(
            text, str(icp), None if fcp is None else str(fcp))
    except Exception as exc:
        if pts and not term.get('excl'):
            # a supported form with a non-empty meaning must be accepted
            return 'rejected', [{
                'text': text, 'icp': icp, 'fcp': fcp, 'method': 'construct',
                'arg': None, 'got': f'EXC {type(exc).__name__}',
                'want': pts[:6], 'kind': term['kind'], 'excl': False}]
        return 'rejected', []
    S = set(pts)
    win_hi = HORIZON - 8 if not bounded else qhi
    bad = []

    def val(x):
        return None if x is None else int(x)

    def rec(method, arg, got, want):
        bad.append({
            'text': text, 'icp': icp, 'fcp': fcp, 'method': method,
            'arg': arg, 'got': got, 'want': want, 'kind': term['kind'],
            'excl': bool(term.get('excl')),
            'oneoff_outside': (
                method == 'is_valid' and got is True and not base
                and single is not None and arg == single
                and (arg < icp or (fcp is not None and arg > fcp))),
        })
    single = _single_point(term, icp, fcp)
    oneoff = len(base) <= 1
    for p in range(qlo, min(qhi, win_hi) + 1):
        P = IntegerPoint(p)
        try:
            got = bool(seq.is_valid(P))
        except Exception as exc:
            got = f'EXC {type(exc).__name__}'
        if got != (p in S):
            rec('is_valid', p, got, p in S)
        if not pts:
            continue
        # next: smallest member > p.  Judged for p >= first-1 (below that
        # the documented answer is "None if out of bounds").
        if p >= base[0] - 1:
            want = min((x for x in pts if x > p), default=None)
            try:
                got = val(seq.get_next_point(P))
            except Exception as exc:
                got = f'EXC {type(exc).__name__}'
            if got != want:
                rec('get_next_point', p, got, want)
        # first: smallest member >= p (all p)
        want = min((x for x in pts if x >= p), default=None)
        try:
            got = val(seq.get_first_point(P))
        except Exception as exc:
            got = f'EXC {type(exc).__name__}'
        if got != want:
            rec('get_first_point', p, got, want)
        if not oneoff:
            # prev: largest member < p; judged for on-progression p within
            # bounds+1step (its only use: previous instance of a task)
            if base[0] <= p <= base[-1] + 1:
                want = max((x for x in pts if x < p), default=None)
                try:
                    got = val(seq.get_prev_point(P))
                except Exception as exc:
                    got = f'EXC {type(exc).__name__}'
                if got != want:
                    rec('get_prev_point', p, got, want)
            if base[0] <= p <= base[-1] + 1:
                want = max((x for x in pts if x < p), default=None)
                try:
                    got = val(seq.get_nearest_prev_point(P))
                except Exception as exc:
                    got = f'EXC {type(exc).__name__}'
                if got != want:
                    rec('get_nearest_prev_point', p, got, want)
    if not pts and term.get('excl'):
        # everything excluded: degenerate, only membership is judged
        return 'empty', bad
    if True:
        want = pts[0] if pts else None
        try:
            got = val(seq.get_start_point())
        except Exception as exc:
            got = f'EXC {type(exc).__name__}'
        if base and got != want:
            rec('get_start_point', None, got, want)
    if bounded and base:
        want = pts[-1] if pts else None
        try:
            got = val(seq.get_stop_point())
        except Exception as exc:
            got = f'EXC {type(exc).__name__}'
        if got != want:
            rec('get_stop_point', None, got, want)
    return ('ok' if pts else 'empty'), bad


def _single_point(term, icp, fcp):
    """The point of a one-off recurrence before clipping, else None."""
    k = term['kind']
    try:
        if k in ('R1/START',) or (
                k in ('Rn/START/END', 'Rn/START/Pk') and term['n'] == 1):
            return rel(term['start'], icp)
        if k == 'R1//END' or (k == 'Rn/Pk/END' and term['n'] == 1):
            return rel(term['end'], fcp)
        if k == 'Rn/Pk' and term['n'] == 1:
            return fcp
        if k == 'R1' or (k == 'Rn//Pk' and term['n'] == 1):
            return icp
    except LookupError:
        return None
    return None


def _work(job):
    import sys
    sys.setrecursionlimit(400)
    tms, ctxs, qlo, qhi = job
    counts = {'ok': 0, 'rejected': 0, 'skipped': 0, 'empty': 0}
    bad = []
    nontriv = set()
    evals = 0
    for t in tms:
        for icp, fcp in ctxs:
            st, b = judge(t, icp, fcp, qlo, qhi)
            counts[st] += 1
            evals += 1
            if st == 'ok':
                nontriv.add((render(t), icp, fcp))
            if b and len(bad) < 2000:
                bad.extend(b[:3])
    return counts, bad, len(nontriv), evals


def signature(b):
    if b.get('oneoff_outside'):
        # root cause: a one-off recurrence is never clipped to the context
        return 'oneoff-outside-context:is_valid'
    return (f"form={b['kind']}{'!excl' if b['excl'] else ''}"
            f":method={b['method']}")


def run(ctx: Ctx) -> Result:
    tms = terms(ctx)
    ctxs = contexts(ctx)
    qlo, qhi = (-3, 12) if ctx.quick else (-4, 16)
    jobs = [(c, ctxs, qlo, qhi) for c in chunks(tms, ctx.workers * 4)]
    res = pmap(_work, jobs, ctx.workers)
    counts = {'ok': 0, 'rejected': 0, 'skipped': 0, 'empty': 0}
    bad = []
    nontriv = evals = 0
    for c, b, n, e in res:
        for k in counts:
            counts[k] += c[k]
        bad.extend(b)
        nontriv += n
        evals += e
    vios = [
        Violation(
            signature(b),
            f"{b['text']} (ICP={b['icp']}, FCP={b['fcp']}): {b['method']}"
            f"({b['arg']}) = {b['got']}, arithmetic progression says "
            f"{b['want']}",
            b)
        for b in bad
    ]
    cov = {
        'evaluations': evals,
        'distinct_nontrivial': nontriv,
        'rule': (
            'every (recurrence text, ICP, FCP) in the box; for each, 7 '
            f'methods queried at every point in [{qlo}..{qhi}]; non-trivial'
            ' = accepted by cylc and the reference progression is non-empty'
            ' after clipping and exclusions'),
        'terms': len(tms),
        'contexts': len(ctxs),
        'accepted_nonempty': counts['ok'],
        'accepted_empty': counts['empty'],
        'rejected_by_cylc_not_judged': counts['rejected'],
        'not_meaningful_skipped': counts['skipped'],
        'samples': [
            {'recurrence': render(t), 'icp': 1, 'fcp': 9,
             'reference_points': _safe_pts(t, 1, 9)}
            for t in tms[:: max(1, len(tms) // 8)][:8]
        ],
        'exhaustive': True,
    }
    return Result(cov, vios, assumptions=[
        'decided up to the stated box only (no sampling of larger values)',
        'get_next_point judged for query >= first point - 1 and '
        'get_prev_point/get_nearest_prev_point for queries within '
        '[first, last+1] (outside, the documented answer is None = out of '
        'bounds)',
        'an exclusion sequence "Pk" is anchored at the main sequence first '
        'point; "S/Pk" at S',
        'a recurrence whose reference meaning is empty may be rejected; one '
        'with a non-empty meaning (no exclusions) must be accepted',
        'degenerate sequences are not judged beyond membership: everything '
        'excluded, or an unbounded sequence whose entire tail is excluded',
    ])


def _safe_pts(t, icp, fcp):
    try:
        base = ref_points(t, icp, fcp)
        if base is None:
            return None
        ex = ref_exclusions(t.get('excl'), base)
        return [p for p in base if p not in ex]
    except LookupError:
        return None


def replay(payload):
    import sys
    sys.setrecursionlimit(400)
    from cylc.flow.cycling.integer import IntegerPoint, IntegerSequence
    m = payload['method']
    arg = payload['arg']
    try:
        seq = IntegerSequence(
            payload['text'], str(payload['icp']),
            None if payload['fcp'] is None else str(payload['fcp']))
    except Exception as exc:
        if m == 'construct':
            return [Violation(
                signature(payload),
                f"{payload['text']} (ICP={payload['icp']}, "
                f"FCP={payload['fcp']}) rejected: {exc}", payload)]
        raise
    if m == 'construct':
        return []
    try:
        if arg is None:
            got = getattr(seq, m)()
        else:
            got = getattr(seq, m)(IntegerPoint(arg))
        if m == 'is_valid':
            got = bool(got)
        elif got is not None:
            got = int(got)
    except Exception as exc:
        got = f'EXC {type(exc).__name__}'
    if got != payload['want']:
        return [Violation(
            signature(payload),
            f"{payload['text']} (ICP={payload['icp']}, FCP={payload['fcp']})"
            f": {m}({arg}) = {got}, want {payload['want']}", payload)]
    return []
