"""C18 Cycle point and interval algebra is a consistent total order.

Engine B: for the integer cycling type and for every date-time configuration
(calendar mode x cycle point time zone x expanded year digits x cycle point
format) a catalogue of cycle points is *generated from fields* - each point
carries a reference value computed by the harness (an int, or seconds from a
calendar-arithmetic day count; never by isodatetime).  All ordered pairs are
compared with all six operators and hashed through the real point classes,
all triples are checked for transitivity and sorted, every point is
standardised twice, and every (point, fixed-length interval) pair is added
then subtracted.  Result strings are read back by the harness's own parser of
the cycle point dump format.
"""
from __future__ import annotations

import itertools
import re

from ..core import Ctx, HarnessError, Result, Violation, pmap

LEVEL = 'exploration'

# --------------------------------------------------------------------------
# reference calendar arithmetic (harness-side, independent of isodatetime)

MONTHS = {
    'gregorian': (31, 28, 31, 30, 31, 30, 31, 31, 30, 31, 30, 31),
    '365day': (31, 28, 31, 30, 31, 30, 31, 31, 30, 31, 30, 31),
    '366day': (31, 29, 31, 30, 31, 30, 31, 31, 30, 31, 30, 31),
    '360day': (30,) * 12,
}


def is_leap(cal, y):
    return cal == 'gregorian' and (y % 4 == 0 and (y % 100 != 0
                                                   or y % 400 == 0))


def month_lengths(cal, y):
    m = MONTHS[cal]
    if is_leap(cal, y):
        return (31, 29) + m[2:]
    return m


def days_before_year(cal, y):
    """Days from 0000-01-01 to y-01-01 (any integer y)."""
    if cal == '360day':
        return 360 * y
    if cal == '365day':
        return 365 * y
    if cal == '366day':
        return 366 * y
    # proleptic Gregorian, astronomical year numbering (year 0 is leap)
    return 365 * y + (y + 3) // 4 - (y + 99) // 100 + (y + 399) // 400


def days_from_civil(cal, y, mo, d):
    ml = month_lengths(cal, y)
    if not (1 <= mo <= 12 and 1 <= d <= ml[mo - 1]):
        raise ValueError((cal, y, mo, d))
    return days_before_year(cal, y) + sum(ml[:mo - 1]) + d - 1


def civil_from_days(cal, n):
    y = n // 366 if n >= 0 else n // 360
    while days_before_year(cal, y + 1) <= n:
        y += 1
    while days_before_year(cal, y) > n:
        y -= 1
    rem = n - days_before_year(cal, y)
    mo = 1
    for ln in month_lengths(cal, y):
        if rem < ln:
            break
        rem -= ln
        mo += 1
    return y, mo, rem + 1


def instant(cal, y, mo, d, h=0, mi=0, s=0, off_min=0):
    """Seconds since 0000-01-01T00:00:00Z of local fields at UTC offset."""
    return ((days_from_civil(cal, y, mo, d) * 24 + h) * 60 + mi) * 60 + s \
        - off_min * 60


def fields_at(cal, secs, off_min):
    """Local (y, mo, d, h, mi, s) of instant `secs` at UTC offset."""
    loc = secs + off_min * 60
    days, rem = divmod(loc, 86400)
    y, mo, d = civil_from_days(cal, days)
    h, rem = divmod(rem, 3600)
    mi, s = divmod(rem, 60)
    return y, mo, d, h, mi, s


def self_check():
    """The reference arithmetic agrees with Python's own date class and is
    a bijection in every calendar."""
    import datetime
    for y, mo, d in [(1, 1, 1), (1600, 2, 29), (1900, 3, 1), (2000, 2, 29),
                     (2020, 12, 31), (9999, 12, 31), (1970, 1, 1)]:
        a = days_from_civil('gregorian', y, mo, d) - days_from_civil(
            'gregorian', 1, 1, 1)
        b = datetime.date(y, mo, d).toordinal() - 1
        if a != b:
            raise HarnessError(f'reference calendar wrong at {y}-{mo}-{d}')
    for cal in MONTHS:
        prev = None
        for n in itertools.chain(range(-800, 800), range(730000, 731000),
                                 range(-4000000, -3999000)):
            ymd = civil_from_days(cal, n)
            if days_from_civil(cal, *ymd) != n:
                raise HarnessError(f'reference calendar not bijective {cal}')
            if prev is not None and n - 1 == prev[0] and not ymd > prev[1]:
                raise HarnessError(f'reference calendar not monotone {cal}')
            prev = (n, ymd)


# --------------------------------------------------------------------------
# rendering date-time points

def tz_str(off_min, ext=False, short=False):
    if off_min == 0 and not ext and not short:
        return 'Z'
    sign = '+' if off_min >= 0 else '-'
    h, m = divmod(abs(off_min), 60)
    if short and m == 0:
        return f'{sign}{h:02d}'
    return f'{sign}{h:02d}:{m:02d}' if ext else f'{sign}{h:02d}{m:02d}'


def year_str(y, nd):
    if nd == 0:
        if not 0 <= y <= 9999:
            raise ValueError(y)
        return f'{y:04d}'
    if abs(y) >= 10 ** (4 + nd):
        raise ValueError(y)
    return ('-' if y < 0 else '+') + f'{abs(y):0{4 + nd}d}'


def render_point(form, cal, nd, f, off_min):
    """String for local fields f=(y,mo,d,h,mi,s) at offset; None if the
    form cannot express it."""
    y, mo, d, h, mi, s = f
    try:
        Y = year_str(y, nd)
    except ValueError:
        return None
    if form == 'basic':
        if s:
            return None
        return f'{Y}{mo:02d}{d:02d}T{h:02d}{mi:02d}{tz_str(off_min)}'
    if form == 'basic-tzshort':
        if s or off_min % 60:
            return None
        return (f'{Y}{mo:02d}{d:02d}T{h:02d}{mi:02d}'
                f'{tz_str(off_min, short=True)}')
    if form == 'extended':
        if s:
            return None
        return (f'{Y}-{mo:02d}-{d:02d}T{h:02d}:{mi:02d}'
                f'{tz_str(off_min, ext=True)}')
    if form == 'seconds':
        return f'{Y}{mo:02d}{d:02d}T{h:02d}{mi:02d}{s:02d}{tz_str(off_min)}'
    if form == 'seconds-ext':
        return (f'{Y}-{mo:02d}-{d:02d}T{h:02d}:{mi:02d}:{s:02d}'
                f'{tz_str(off_min, ext=True)}')
    if form == 'hour':
        if mi or s:
            return None
        return f'{Y}{mo:02d}{d:02d}T{h:02d}{tz_str(off_min)}'
    if form == 'ordinal':
        if s:
            return None
        doy = sum(month_lengths(cal, y)[:mo - 1]) + d
        return f'{Y}{doy:03d}T{h:02d}{mi:02d}{tz_str(off_min)}'
    if form == 'week':
        if s or cal != 'gregorian' or not 1 <= y <= 9998 or nd:
            return None
        import datetime
        iy, iw, iwd = datetime.date(y, mo, d).isocalendar()
        return f'{iy:04d}W{iw:02d}{iwd}T{h:02d}{mi:02d}{tz_str(off_min)}'
    # forms without a time zone: local time in the *workflow* time zone
    if form == 'notz':
        if s:
            return None
        return f'{Y}{mo:02d}{d:02d}T{h:02d}{mi:02d}'
    if form == 'date':
        if h or mi or s:
            return None
        return f'{Y}{mo:02d}{d:02d}'
    if form == 'date-ext':
        if h or mi or s:
            return None
        return f'{Y}-{mo:02d}-{d:02d}'
    if form == 'month':
        if d != 1 or h or mi or s:
            return None
        return f'{Y}-{mo:02d}'
    if form == 'year':
        if mo != 1 or d != 1 or h or mi or s:
            return None
        return f'{Y}'
    raise ValueError(form)


NOTZ_FORMS = ('notz', 'date', 'date-ext', 'month', 'year')
TZ_FORMS = ('basic', 'extended', 'basic-tzshort', 'hour', 'ordinal', 'week',
            'seconds', 'seconds-ext')


def dump_rec(nd, fmt_kind):
    """Regex reading the standard dump format back (harness-side)."""
    yr = r'(?P<y>\d{4})' if nd == 0 else r'(?P<y>[+-]\d{%d})' % (4 + nd)
    if fmt_kind == 'default':
        body = yr + r'(?P<mo>\d\d)(?P<d>\d\d)T(?P<h>\d\d)(?P<mi>\d\d)'
    elif fmt_kind == 'seconds-ext':
        body = (yr + r'-(?P<mo>\d\d)-(?P<d>\d\d)T(?P<h>\d\d):(?P<mi>\d\d)'
                r':(?P<s>\d\d)')
    else:
        raise ValueError(fmt_kind)
    return re.compile('^' + body + r'(?P<tz>Z|[+-]\d\d(?::?\d\d)?)$')


def read_dump(rec, cal, text):
    """(instant, tz offset minutes) of a dumped cycle point string."""
    m = rec.match(text)
    if not m:
        return None
    g = m.groupdict()
    tz = g['tz']
    if tz == 'Z':
        off = 0
    else:
        digs = tz[1:].replace(':', '')
        off = int(digs[:2]) * 60 + (int(digs[2:]) if digs[2:] else 0)
        if tz[0] == '-':
            off = -off
    try:
        val = instant(cal, int(g['y']), int(g['mo']), int(g['d']),
                      int(g['h']), int(g['mi']), int(g.get('s') or 0), off)
    except ValueError:
        return None
    return val, off


# --------------------------------------------------------------------------
# configurations and catalogues

def tz_minutes(tz):
    if tz == 'Z':
        return 0
    digs = tz[1:].replace(':', '')
    off = int(digs[:2]) * 60 + (int(digs[2:]) if digs[2:] else 0)
    return -off if tz[0] == '-' else off


def iso_configs(ctx: Ctx):
    cals = ['gregorian', '360day', '365day', '366day']
    out = []
    for cal in cals:
        for tz in (['Z', '+0530'] if ctx.quick else ['Z', '+0530', '-03']):
            out.append(dict(cal=cal, tz=tz, nd=0, fmt='default'))
        out.append(dict(cal=cal, tz='Z', nd=2, fmt='default'))
        if not ctx.quick:
            out.append(dict(cal=cal, tz='-03', nd=2, fmt='default'))
            out.append(dict(cal=cal, tz='+0530', nd=1, fmt='default'))
    out.append(dict(cal='gregorian', tz='Z', nd=0, fmt='seconds-ext'))
    out.append(dict(cal='360day', tz='+0530', nd=0, fmt='seconds-ext'))
    if not ctx.quick:
        out.append(dict(cal='365day', tz='-03', nd=2, fmt='seconds-ext'))
        out.append(dict(cal='366day', tz='Z', nd=0, fmt='seconds-ext'))
    return out


def dump_format(cfg):
    if cfg['fmt'] == 'default':
        return None
    pre = '+X' if cfg['nd'] else ''
    return pre + 'CCYY-MM-DDThh:mm:ss' + (
        'Z' if cfg['tz'] == 'Z' else tz_str(tz_minutes(cfg['tz']), ext=True))


def utc_instants(cfg, quick):
    """UTC field tuples of the catalogue instants: year/month/leap-day
    boundaries, neighbours one minute apart, and widely separated years."""
    cal, nd = cfg['cal'], cfg['nd']
    secs = cfg['fmt'] != 'default'
    feb_last = month_lengths(cal, 2020)[1]
    ins = [
        (2020, 1, 1, 0, 0, 0),
        (2019, 12, 31, 23, 59, 0),
        (2020, 1, 1, 0, 1, 0),
        (2020, 2, feb_last, 18, 30, 0),
        (2020, 3, 1, 0, 0, 0),
        (2020, 3, 1, 5, 30, 0),
        (2019, 12, 31, 18, 30, 0),
        (1900, 2, 28, 21, 0, 0),
        (1900, 3, 1, 2, 59, 0),
        (2000, 2, month_lengths(cal, 2000)[1], 12, 0, 0),
        (999, 12, 30, 23, 0, 0),
        (1000, 1, 1, 0, 0, 0),
        (9998, 12, 30, 6, 0, 0),
        (10, 1, 1, 0, 0, 0),
        (2, 10, 2, 10, 2, 0),
        (10, 2, 10, 2, 10, 0),
    ]
    if not quick:
        ins += [
            (2020, 1, 31, 0, 0, 0), (2020, 2, 1, 0, 0, 0),
            (2021, 2, month_lengths(cal, 2021)[1], 23, 59, 0),
            (2021, 3, 1, 0, 0, 0), (2020, 6, 15, 12, 0, 0),
            (2020, 6, 15, 11, 59, 0), (2020, 12, 30, 21, 0, 0),
            (2100, 2, 28, 23, 30, 0), (2100, 3, 1, 0, 30, 0),
            (1, 1, 2, 0, 0, 0), (101, 1, 1, 1, 1, 0),
            (1010, 10, 10, 10, 10, 0), (110, 1, 1, 1, 10, 0),
            (2020, 10, 1, 0, 0, 0), (2020, 1, 10, 0, 0, 0),
        ]
    if secs:
        ins += [(2020, 1, 1, 0, 0, 1), (2019, 12, 31, 23, 59, 59),
                (2020, 1, 1, 0, 0, 30), (2020, 2, feb_last, 23, 59, 59)]
    if nd:
        ins += [
            (0, 1, 1, 0, 0, 0), (-1, 12, 30, 23, 59, 0),
            (-1, 12, 30, 18, 30, 0), (0, 2, month_lengths(cal, 0)[1], 0, 0, 0),
            (0, 3, 1, 0, 0, 0), (10000, 1, 1, 0, 0, 0),
            (9999, 12, 30, 23, 59, 0), (-4, 2, 28, 23, 0, 0),
            (-4, 3, 1, 1, 0, 0), (12345, 6, 7, 8, 9, 0),
            (-12345, 6, 7, 8, 9, 0), (-2020, 1, 1, 0, 0, 0),
            (-100, 3, 1, 0, 0, 0), (-1000, 1, 1, 0, 0, 0),
        ]
        if nd >= 2:
            ins += [(123456, 1, 1, 0, 0, 0), (-123456, 12, 30, 0, 0, 0),
                    (99999, 12, 30, 23, 59, 0), (100000, 1, 1, 0, 0, 0)]
    # clamp the day to the month length of this calendar
    return [
        (y, mo, min(d, month_lengths(cal, y)[mo - 1]), h, mi, s)
        for (y, mo, d, h, mi, s) in ins]


def iso_points(cfg, quick):
    """Catalogue of {'text','value','form','standard'} for one config."""
    cal, nd = cfg['cal'], cfg['nd']
    wf_off = tz_minutes(cfg['tz'])
    offs = [0, 330, -180] if quick else [0, 330, -180, 60, -720, 840]
    if wf_off not in offs:
        offs.append(wf_off)
    secs = cfg['fmt'] != 'default'
    forms = [f for f in TZ_FORMS if secs or not f.startswith('seconds')]
    out = {}
    rot = 0
    for ins in utc_instants(cfg, quick):
        val = instant(cal, *ins)
        for off in offs:
            f = fields_at(cal, val, off)
            # every instant in every zone in the basic form, plus two other
            # forms in rotation (deterministic), so that each form occurs
            cands = ['basic'] + [
                forms[(rot + k) % len(forms)] for k in (1, 2)]
            if secs:
                cands.append('seconds-ext' if rot % 2 else 'seconds')
            rot += 1
            for form in cands:
                text = render_point(form, cal, nd, f, off)
                if text is not None and text not in out:
                    out[text] = dict(text=text, value=val, form=form)
            if off == wf_off:
                for form in NOTZ_FORMS:
                    text = render_point(form, cal, nd, f, off)
                    if text is not None and text not in out:
                        out[text] = dict(text=text, value=val, form=form)
    # local midnights / month starts / year starts in the workflow zone so
    # that the reduced-precision forms occur
    for (y, mo, d) in [(2020, 1, 1), (2020, 3, 1), (2020, 2, 28), (1000, 1, 1),
                       (2021, 1, 1), (2019, 12, 30)] + (
                           [(0, 1, 1), (-1, 12, 30), (10000, 1, 1)]
                           if nd else []):
        f = (y, mo, d, 0, 0, 0)
        val = instant(cal, *f, off_min=wf_off)
        for form in NOTZ_FORMS + ('basic', 'extended'):
            text = render_point(form, cal, nd, f, wf_off)
            if text is not None and text not in out:
                out[text] = dict(text=text, value=val, form=form)
    return list(out.values())


def iso_intervals(cfg, quick):
    """Fixed-length intervals [{'text','seconds'}]: sub-day, day, week."""
    out = [
        ('PT1M', 60), ('PT6H', 21600), ('PT90M', 5400), ('P1D', 86400),
        ('P1W', 604800), ('-PT6H', -21600), ('-P1D', -86400),
        ('P1DT6H', 108000), ('PT0M', 0), ('P30D', 2592000),
        ('-P1W', -604800), ('PT23H59M', 86340), ('PT1.5H', 5400),
    ]
    if not quick:
        out += [('P0Y', 0), ('PT24H', 86400), ('P366D', 31622400),
                ('-P365D', -31536000), ('P2W', 1209600), ('PT1441M', 86460),
                ('-PT1M', -60), ('P7D', 604800), ('P59D', 5097600),
                ('+PT6H', 21600), ('P1000D', 86400000)]
    if cfg['fmt'] != 'default':
        out += [('PT1S', 1), ('PT59S', 59), ('-PT1S', -1), ('PT1M1S', 61),
                ('P1DT1S', 86401), ('PT86399S', 86399)]
    return [dict(text=t, seconds=s) for t, s in out]


def int_points(quick):
    vals = list(range(-12, 13)) + [99, 100, 101, 999, 1000, 1001, -99, -100,
                                   -101, 20200101, 10 ** 12, -10 ** 12]
    if not quick:
        vals += list(range(13, 40)) + list(range(-40, -12)) + [
            10 ** 18, -10 ** 18, 2 ** 63, 123456789]
    out = {}

    def add(text, v, form):
        if text not in out:
            out[text] = dict(text=text, value=v, form=form)
    for v in vals:
        add(str(v), v, 'plain')
    for v in [0, 1, 2, 3, 7, 9, 10, 11, 12, 100, -1, -2, -9, -10, -11, -100]\
            + ([] if quick else [4, 5, 6, 8, 20, 21, 99, -3, -12, -20]):
        sign = '-' if v < 0 else ''
        add(f'{sign}{abs(v):03d}', v, 'zero-padded')
        if v >= 0:
            add(f'+{v}', v, 'plus-signed')
            add(f'+{v:02d}', v, 'plus-signed')
        add(f'{sign}0{abs(v)}', v, 'zero-padded')
    add('-0', 0, 'negative-zero')
    add('00', 0, 'zero-padded')
    return list(out.values())


def int_intervals(quick):
    out = {}
    for v in [0, 1, 2, 3, 7, 10, 100, -1, -2, -3, -10, 10 ** 12] + (
            [] if quick else [4, 5, 6, 12, 99, -7, -100, -10 ** 12]):
        t = ('-P' if v < 0 else 'P') + str(abs(v))
        out[t] = v
        if v >= 0:
            out['+P' + str(v)] = v
        out[('-P0' if v < 0 else 'P0') + str(abs(v))] = v
    return [dict(text=t, value=v) for t, v in out.items()]


# --------------------------------------------------------------------------
# running the real code

def iso_setup(cfg):
    """(Re)initialise cylc's date-time cycling globals and drop every
    module-level cache (a process only ever has one configuration in
    production; stale entries across configurations are not the subject)."""
    from cylc.flow.cycling import iso8601
    iso8601.init(
        num_expanded_year_digits=cfg['nd'],
        custom_dump_format=dump_format(cfg),
        time_zone=cfg['tz'],
        cycling_mode=cfg['cal'])
    n = 0
    for cls in (iso8601.ISO8601Point, iso8601.ISO8601Interval):
        for name in list(vars(cls)):
            fn = getattr(cls, name)
            if hasattr(fn, 'cache_clear'):
                fn.cache_clear()
                n += 1
    for name in ('_interval_parse', '_point_parse'):
        getattr(iso8601, name).cache_clear()
        n += 1
    if n < 8:
        raise HarnessError('expected lru caches not found in iso8601')
    from metomi.isodatetime.data import CALENDAR
    if CALENDAR.mode != cfg['cal']:
        raise HarnessError('calendar mode not applied')
    return iso8601


OPS = ('eq', 'ne', 'lt', 'le', 'gt', 'ge')


def _apply(op, a, b):
    try:
        if op == 'eq':
            r = a == b
        elif op == 'ne':
            r = a != b
        elif op == 'lt':
            r = a < b
        elif op == 'le':
            r = a <= b
        elif op == 'gt':
            r = a > b
        else:
            r = a >= b
    except Exception as exc:
        return f'EXC {type(exc).__name__}'
    return r if isinstance(r, bool) else f'NONBOOL {r!r}'


def _want(op, x, y):
    return {'eq': x == y, 'ne': x != y, 'lt': x < y, 'le': x <= y,
            'gt': x > y, 'ge': x >= y}[op]


def _hash(p):
    try:
        return hash(p)
    except Exception as exc:
        return f'EXC {type(exc).__name__}'


class Env:
    """One cycling configuration bound to the real classes."""

    def __init__(self, cfg):
        self.cfg = cfg
        if cfg['type'] == 'integer':
            from cylc.flow.cycling.integer import (
                IntegerInterval, IntegerPoint)
            self.P, self.I = IntegerPoint, IntegerInterval
            self.rec = None
        else:
            iso = iso_setup(cfg)
            self.P, self.I = iso.ISO8601Point, iso.ISO8601Interval
            self.rec = dump_rec(cfg['nd'], cfg['fmt'])

    def point(self, text):
        return self.P(text)

    def read(self, text):
        """Reference value of a *standard-form* string, or None."""
        if self.cfg['type'] == 'integer':
            return int(text) if re.match(r'^(0|-?[1-9]\d*)$', text) else None
        r = read_dump(self.rec, self.cfg['cal'], text)
        if r is None:
            return None
        if r[1] != tz_minutes(self.cfg['tz']):
            return None     # standard form is in the workflow time zone
        return r[0]

    def standard_text(self, value):
        """The standard-form string of a reference value (harness-side)."""
        cfg = self.cfg
        if cfg['type'] == 'integer':
            return str(value)
        off = tz_minutes(cfg['tz'])
        f = fields_at(cfg['cal'], value, off)
        Y = year_str(f[0], cfg['nd'])
        if cfg['fmt'] == 'default':
            return (f'{Y}{f[1]:02d}{f[2]:02d}T{f[3]:02d}{f[4]:02d}'
                    + cfg['tz'])
        return (f'{Y}-{f[1]:02d}-{f[2]:02d}T{f[3]:02d}:{f[4]:02d}:{f[5]:02d}'
                + ('Z' if cfg['tz'] == 'Z' else tz_str(off, ext=True)))

    def ilen(self, itv):
        return itv['value'] if self.cfg['type'] == 'integer' \
            else itv['seconds']


def cfg_label(cfg):
    if cfg['type'] == 'integer':
        return 'integer'
    return (f"iso8601[{cfg['cal']},tz={cfg['tz']},xdigits={cfg['nd']},"
            f"format={cfg['fmt']}]")


def _standard_cls(env, *pts):
    return ('standard-operands' if all(
        env.standard_text(a['value']) == a['text'] for a in pts)
        else 'unstandardised-operand')


def _rel(x, y, a, b):
    if a == b:
        return 'same-string'
    return 'same-value-different-string' if x == y else 'different-value'


def bad(cfg, clause, cls, what, **kw):
    return dict(cfg=cfg, clause=clause, cls=cls, what=what, **kw)


def _operands(b):
    ops = [b[k] for k in ('a', 'b') if isinstance(b.get(k), dict)]
    ops += [t for t in b.get('trip') or [] if isinstance(t, dict)]
    return ops


def signature(b):
    """Root-cause class of one violation record.

    Anything (other than the hash contract, which does not depend on how a
    point is read) that involves a point written as an *ordinal date*
    (CCYYDDD) is one class: such points are carried by isodatetime in
    year/day-of-year form, and every failure seen with them is a
    mis-rollover of that representation, whatever operation exposed it.
    """
    typ = b['cfg']['type']
    if (b['clause'] != 'equal-points-hash-differently'
            and any(o.get('form') == 'ordinal' for o in _operands(b))):
        return f'{typ}:ordinal-date-operand:year-rollover'
    return f"{typ}:{b['clause']}:{b['cls']}"


# --- the individual judgements (shared by run and replay)

def judge_pair(env, a, b):
    """All six operators and the hash contract for the ordered pair."""
    out = []
    cfg = env.cfg
    pa, pb = env.point(a['text']), env.point(b['text'])
    rel = _rel(a['value'], b['value'], a['text'], b['text'])
    for op in OPS:
        got = _apply(op, pa, pb)
        want = _want(op, a['value'], b['value'])
        if got != want:
            out.append(bad(
                cfg, f'order-{op}', rel,
                f"{a['text']} {op} {b['text']} is {got}; reference values "
                f"{a['value']} and {b['value']} say {want}",
                kind='pair', a=a, b=b, op=op))
    if a['value'] == b['value']:
        ha, hb = _hash(pa), _hash(pb)
        if ha != hb or not isinstance(ha, int):
            out.append(bad(
                cfg, 'equal-points-hash-differently',
                _standard_cls(env, a, b),
                f"{a['text']} and {b['text']} denote the same value "
                f"({a['value']}) and compare "
                f"{'equal' if _apply('eq', pa, pb) is True else 'UNEQUAL'} "
                f"but hash({a['text']}) != hash({b['text']})",
                kind='pair', a=a, b=b, op='hash'))
    return out


def judge_standardise(env, a):
    out = []
    cfg = env.cfg
    p = env.point(a['text'])
    try:
        r = p.standardise()
        s1 = str(r)
        same_obj = r is p
    except Exception as exc:
        return [bad(cfg, 'point-misread', a['form'],
                    f"standardise({a['text']}) raised "
                    f"{type(exc).__name__}: {exc}", kind='std', a=a)]
    v1 = env.read(s1)
    if v1 is None or v1 != a['value'] or not same_obj:
        out.append(bad(
            cfg, 'point-misread', a['form'],
            f"standardise({a['text']}) = {s1} which reads back as {v1}; "
            f"the generating fields give {a['value']}", kind='std', a=a))
    try:
        s2 = str(env.point(s1).standardise())
        s3 = str(p.standardise())
    except Exception as exc:
        s2 = s3 = f'EXC {type(exc).__name__}'
    if s2 != s1 or s3 != s1:
        out.append(bad(
            cfg, 'standardise-not-idempotent', a['form'],
            f"standardise({a['text']}) = {s1} but standardising again gives "
            f"{s2} / {s3}", kind='std', a=a))
    # the standard form is canonical: it compares and hashes equal to the
    # original
    q = env.point(s1)
    o = env.point(a['text'])
    if _apply('eq', o, q) is not True or _apply('ne', o, q) is not False:
        out.append(bad(
            cfg, 'standardised-point-unequal-to-original', a['form'],
            f"{a['text']} != its standard form {s1}", kind='std', a=a))
    return out


def judge_addsub(env, a, itv):
    out = []
    cfg = env.cfg
    n = env.ilen(itv)
    try:
        # a sum outside the years the cycle point format can express is
        # not judged
        env.standard_text(a['value'] + n)
    except ValueError:
        return []
    try:
        p = env.point(a['text'])
        i = env.I(itv['text'])
        q = p + i
        qs = str(q)
        r = q - i
        rs = str(r)
    except Exception as exc:
        return [bad(cfg, 'add-sub-raises', 'exception',
                    f"({a['text']} + {itv['text']}) - {itv['text']} raised "
                    f"{type(exc).__name__}: {exc}", kind='addsub', a=a,
                    itv=itv)]
    qv, rv = env.read(qs), env.read(rs)
    sign = 'zero' if n == 0 else ('negative' if n < 0 else 'positive')
    if qv != a['value'] + n:
        out.append(bad(
            cfg, 'add-wrong-value', sign,
            f"{a['text']} + {itv['text']} = {qs} (reads back as {qv}); "
            f"reference {a['value']} + {n} = {a['value'] + n}",
            kind='addsub', a=a, itv=itv))
    if rv != a['value'] or _apply('eq', r, p) is not True:
        out.append(bad(
            cfg, 'add-then-sub-not-identity', sign,
            f"({a['text']} + {itv['text']}) - {itv['text']} = {rs} "
            f"(reads back as {rv}), not the original value {a['value']}",
            kind='addsub', a=a, itv=itv))
    # point - point gives the interval back (consistency of sub with order)
    try:
        back = (q - p)
        ok = (p + back == q)
    except Exception as exc:
        ok = f'EXC {type(exc).__name__}'
    if ok is not True:
        out.append(bad(
            cfg, 'point-minus-point-inconsistent', sign,
            f"p={a['text']}, q=p+{itv['text']}={qs}: p + (q - p) == q is "
            f"{ok}", kind='addsub', a=a, itv=itv))
    return out


def judge_triple_sort(env, trip):
    """sorted() on real points yields reference order (either input order)."""
    pts = [(env.point(t['text']), t) for t in trip]
    for arrangement in (pts, pts[::-1]):
        try:
            got = sorted(arrangement, key=lambda x: x[0])
        except Exception as exc:
            got = None
            err = f'EXC {type(exc).__name__}'
        if got is None or any(
                got[k][1]['value'] > got[k + 1][1]['value']
                for k in range(len(got) - 1)):
            return [bad(
                env.cfg, 'sort-not-by-value', 'triple',
                f"sorted({[x[1]['text'] for x in arrangement]}) = "
                f"{[x[1]['text'] for x in got] if got else err}",
                kind='sort', trip=list(trip))]
    return []


# --------------------------------------------------------------------------

def catalogue(cfg, quick):
    if cfg['type'] == 'integer':
        return int_points(quick), int_intervals(quick)
    return iso_points(cfg, quick), iso_intervals(cfg, quick)


def _work(job):
    cfg, quick = job
    env = Env(cfg)
    pts, itvs = catalogue(cfg, quick)
    bads = []
    evals = 0
    forms = {}
    # 1. every point on its own: parse/standardise.  A point that cylc
    # rejects is counted, not judged; a point that is *misread* (its
    # standard form has another value, or reading it fails half-way) is one
    # violation and is left out of the pair/triple stages (every comparison
    # involving it would only restate the same root cause).
    usable, rejected, misread = [], [], []
    for a in pts:
        try:
            p = env.point(a['text'])
            if cfg['type'] != 'integer':
                from cylc.flow.cycling.iso8601 import point_parse
                point_parse(a['text'])
            else:
                int(p)
        except Exception:
            rejected.append(a['text'])
            continue
        forms[a['form']] = forms.get(a['form'], 0) + 1
        b = judge_standardise(env, a)
        evals += 1
        bads.extend(b)
        if any(x['clause'] == 'point-misread' for x in b):
            misread.append(a['text'])
        else:
            usable.append(a)
    pts = usable
    n = len(pts)
    # 2. all ordered pairs; matrix of the *observed* relation
    ltm = [0] * n    # bit j of ltm[i]: pts[i] < pts[j] observed
    eqm = [0] * n
    for i, a in enumerate(pts):
        for j, b in enumerate(pts):
            bads.extend(judge_pair(env, a, b))
            pa, pb = env.point(a['text']), env.point(b['text'])
            if _apply('lt', pa, pb) is True:
                ltm[i] |= 1 << j
            if _apply('eq', pa, pb) is True:
                eqm[i] |= 1 << j
            evals += 7
    collisions = sum(
        1 for i in range(n) for j in range(n)
        if i != j and pts[i]['value'] == pts[j]['value'])
    # 3. trichotomy + transitivity of the observed relation (independent of
    # the reference values), over all ordered triples (bit-parallel in k)
    for i in range(n):
        for j in range(n):
            l1, e1, g1 = (ltm[i] >> j) & 1, (eqm[i] >> j) & 1, \
                (ltm[j] >> i) & 1
            if l1 + e1 + g1 != 1:
                bads.append(bad(
                    cfg, 'trichotomy', _rel(
                        pts[i]['value'], pts[j]['value'], pts[i]['text'],
                        pts[j]['text']),
                    f"{pts[i]['text']} vs {pts[j]['text']}: lt={l1} "
                    f"eq={e1} gt={g1}", kind='pair', a=pts[i],
                    b=pts[j], op='trichotomy'))
    lem = [ltm[i] | eqm[i] for i in range(n)]
    ntrip = 0
    for i in range(n):
        for j in range(n):
            if not (lem[i] >> j) & 1:
                continue
            miss = lem[j] & ~lem[i]
            while miss:
                k = (miss & -miss).bit_length() - 1
                miss &= miss - 1
                bads.append(bad(
                    cfg, 'transitivity', 'triple',
                    f"{pts[i]['text']} <= {pts[j]['text']} <= "
                    f"{pts[k]['text']} but not {pts[i]['text']} <= "
                    f"{pts[k]['text']}", kind='sort',
                    trip=[pts[i], pts[j], pts[k]]))
        ntrip += n * n
    evals += ntrip
    # 4. sorting every 3-subset (two arrangements) and the whole catalogue
    nsort = 0
    for trip in itertools.combinations(pts, 3):
        if len(bads) < 500:
            bads.extend(judge_triple_sort(env, trip))
        nsort += 2
    evals += nsort
    try:
        whole = sorted(
            [(env.point(a['text']), a) for a in pts], key=lambda x: x[0])
    except Exception:
        whole = None
    if whole is None or any(
            whole[k][1]['value'] > whole[k + 1][1]['value']
            for k in range(len(whole) - 1)):
        bads.append(bad(cfg, 'sort-not-by-value', 'catalogue',
                        'sorting the whole catalogue is not by value',
                        kind='sort', trip=pts))
    # 5. add then subtract every fixed-length interval
    for a in pts:
        for itv in itvs:
            bads.extend(judge_addsub(env, a, itv))
            evals += 1
    # keep the report small: at most 3 cases per signature
    keep, seen = [], {}
    for b in bads:
        s = signature(b)
        seen[s] = seen.get(s, 0) + 1
        if seen[s] <= 3:
            keep.append(b)
    return dict(
        cfg=cfg, points=n, rejected=rejected, misread=misread,
        intervals=len(itvs),
        pairs=n * n, collisions=collisions, triples=ntrip, sorts=nsort,
        evals=evals, forms=forms, bads=keep, counts=seen,
        distinct_values=len({a['value'] for a in pts}),
        samples=[a['text'] for a in pts[:: max(1, n // 6)][:6]])


def run(ctx: Ctx) -> Result:
    self_check()
    cfgs = [dict(type='integer')] + [
        dict(type='iso8601', **c) for c in iso_configs(ctx)]
    res = pmap(_work, [(c, ctx.quick) for c in cfgs], ctx.workers)
    vios = []
    evals = pairs = trip = coll = nontriv = sorts = 0
    per_cfg = []
    forms = {}
    for r in res:
        evals += r['evals']
        pairs += r['pairs']
        trip += r['triples']
        sorts += r['sorts']
        coll += r['collisions']
        nontriv += r['pairs'] - r['points']
        for k, v in r['forms'].items():
            forms[k] = forms.get(k, 0) + v
        per_cfg.append({
            'config': cfg_label(r['cfg']), 'points': r['points'],
            'distinct_values': r['distinct_values'],
            'intervals': r['intervals'],
            'same_value_different_string_pairs': r['collisions'],
            'rejected_by_cylc_not_judged': r['rejected'][:5],
            'misread_points_reported_once_then_excluded': r['misread'][:5],
            'samples': r['samples']})
        if r['points'] < 20 or r['collisions'] < 10:
            raise HarnessError(
                f"catalogue for {cfg_label(r['cfg'])} is degenerate: "
                f"{r['points']} points, {r['collisions']} collisions")
        if len(r['rejected']) > r['points'] // 4:
            raise HarnessError(
                f"cylc rejects too much of the {cfg_label(r['cfg'])} "
                f"catalogue: {r['rejected'][:8]}")
        for b in r['bads']:
            nc = r['counts'][signature(b)]
            vios.append(Violation(
                signature(b),
                f"{cfg_label(b['cfg'])}: {b['what']} "
                f"[{nc} case(s) in this configuration]", b))
    for f in TZ_FORMS + NOTZ_FORMS:
        if not forms.get(f):
            raise HarnessError(f'date-time form {f} never generated')
    cov = {
        'evaluations': evals,
        'distinct_nontrivial': nontriv,
        'rule': (
            'per configuration: every ordered pair of catalogue points x '
            '(6 comparison operators + hash contract), every ordered triple '
            'for transitivity on the observed relation, every 3-subset '
            'sorted in two arrangements, every point standardised twice, '
            'every point x fixed-length interval added then subtracted; '
            'non-trivial = ordered pairs of two different strings'),
        'configurations': len(cfgs),
        'ordered_pairs': pairs,
        'ordered_triples': trip,
        'triple_sorts': sorts,
        'same_value_different_string_pairs': coll,
        'point_forms_generated': forms,
        'per_configuration': per_cfg,
        'samples': [
            {'config': p['config'], 'points': p['samples']}
            for p in per_cfg[:: max(1, len(per_cfg) // 6)][:6]],
        'exhaustive': True,
    }
    return Result(cov, vios, assumptions=[
        'decided for the generated catalogues only (all pairs/triples of '
        'them); nothing is sampled',
        'points of different cycling types are not compared with each other '
        '(the statement is about one cycling type); comparison with None is '
        'not judged',
        'the hash clause is read literally: two points of one type that '
        'denote the same value must hash equal whether or not they have '
        'been standardised (violations are classed by whether an operand '
        'was in non-standard form)',
        'date-time strings are only generated in forms whose reading is '
        'unambiguous: signed years when expanded year digits are in use, '
        'second-bearing points and sub-minute intervals only under a cycle '
        'point format that has seconds, no decimal/T24/truncated points',
        'custom cycle point formats without a time zone designator or using '
        'strptime (%) directives are out of scope (a zone-less format '
        'cannot preserve the instant of a point given in another zone)',
        'fixed-length interval = weeks/days/hours/minutes/seconds only '
        '(no months or years), within the resolution of the cycle point '
        'format',
        'a point + interval whose sum lies outside the years the cycle '
        'point format can express (0..9999 without expanded year digits) is '
        'not judged',
        'a point that cylc mis-reads on its own (standardise raises or '
        'changes the value) is reported once and left out of the pair/triple '
        'stages; every violation involving a point written as an ordinal '
        'date (CCYYDDD) is classed under one root-cause signature',
        'module-level lru caches of cylc.flow.cycling.iso8601 are cleared '
        'whenever the harness re-initialises the calendar/time zone (one '
        'process has one configuration in production)',
    ])


def replay(payload):
    self_check()
    cfg = payload['cfg']
    env = Env(cfg)
    kind = payload['kind']
    if kind == 'pair':
        a, b = payload['a'], payload['b']
        found = judge_pair(env, a, b)
        pa, pb = env.point(a['text']), env.point(b['text'])
        l1, e1 = (_apply('lt', pa, pb) is True,
                  _apply('eq', pa, pb) is True)
        l2 = _apply('lt', pb, pa) is True
        if l1 + e1 + l2 != 1:
            found.append(bad(
                cfg, 'trichotomy', _rel(a['value'], b['value'], a['text'],
                                        b['text']),
                f"{a['text']} vs {b['text']}: lt={l1} eq={e1} gt={l2}"))
    elif kind == 'std':
        found = judge_standardise(env, payload['a'])
    elif kind == 'addsub':
        found = judge_addsub(env, payload['a'], payload['itv'])
    elif kind == 'sort':
        trip = payload['trip']
        found = []
        if len(trip) == 3:
            found += judge_triple_sort(env, trip)
            ps = [env.point(t['text']) for t in trip]
            if (_apply('le', ps[0], ps[1]) is True
                    and _apply('le', ps[1], ps[2]) is True
                    and _apply('le', ps[0], ps[2]) is not True):
                found.append(bad(cfg, 'transitivity', 'triple',
                                 'a <= b <= c but not a <= c'))
        else:
            whole = sorted([(env.point(a['text']), a) for a in trip],
                           key=lambda x: x[0])
            if any(whole[k][1]['value'] > whole[k + 1][1]['value']
                   for k in range(len(whole) - 1)):
                found.append(bad(cfg, 'sort-not-by-value', 'catalogue',
                                 'sorting the whole catalogue is not by '
                                 'value'))
    else:
        raise HarnessError(f'unknown payload kind {kind}')
    want = signature(payload)
    out = [Violation(signature(b), f"{cfg_label(cfg)}: {b['what']}", b)
           for b in found]
    # the recorded signature first (cli looks for it), others after
    out.sort(key=lambda v: v.signature != want)
    return out
