"""C26 Task pool bookkeeping is internally consistent.

The invariants are evaluated in every state of natural runs (C01 shapes),
runs with retries and failures (C02/C03 shapes) and runs with operator
commands that mutate the pool (hold, release, trigger in a new flow, set,
remove) and a stop/restart."""
from __future__ import annotations

from ..core import Ctx, HarnessError, Result
from ..sched import catalogue as cat
from ..sched.catalogue import spec_from
from ..sched.monitors import PoolInvariants
from ..sched.profile import OpProfile, Profile
from ..sched.run import explore_all, replay_violation, result_from
from . import c01, c02, c03

LEVEL = 'model_checking'

ASSUME = [
    'bounded catalogue (see bounds); integer cycling; localhost jobs',
    'table agreement is checked at every main-loop boundary (after the '
    'iteration has flushed its queued database operations)',
    'operator commands: budget 1 per execution, offered at every boundary',
]


def instances(spec):
    ref = cat.RefGraph(spec['sections'], spec['icp'], spec['fcp'])
    return sorted(f'{p}/{t}' for t in ref.tasks for p in ref.points[t])


def op_specs(tier):
    shapes = dict(cat.basic_shapes())
    rows = [('ops-chain2-f1', [('P1', shapes['chain2'])], 1)]
    if tier == 'thorough':
        rows += [('ops-and-f1', [('P1', shapes['and'])], 1),
                 ('ops-chain2-f2', [('P1', shapes['chain2'])], 2),
                 ('ops-prev-f3', [('P1', shapes['prev'])], 3)]
    return [spec_from(s, 1, f, name=n) for n, s, f in rows]


def op_factory(spec):
    insts = instances(spec)

    def ops(w):
        out = []
        for i in insts:
            out.append(('hold', {'tasks': [i]}))
            out.append(('force_trigger_tasks',
                        {'tasks': [i], 'flow': ['new']}))
            out.append(('remove_tasks', {'tasks': [i], 'flow': []}))
            out.append(('set', {'tasks': [i], 'flow': ['all'],
                                'outputs': ['succeeded']}))
        # stop a flow: pooled tasks with a live job survive without it
        out.append(('stop', {'mode': None, 'flow_num': 1}))
        return out

    def factory():
        return OpProfile(
            spec, ops=ops, op_budget=1, stops=('REQUEST_NOW_NOW',),
            max_restarts=1, stop_after_op=True,
            monitors=[PoolInvariants], jump=())
    return factory


def wrap(make, spec):
    """Reuse another property's profile with only the C26 monitor."""
    def factory():
        p = make(spec)()
        p.monitor_factories = [PoolInvariants]
        return p
    return factory


def all_factories(tier):
    out = []
    names = []
    pick = 4 if tier == 'quick' else 100
    for mod in (c01, c02, c03):
        for s in mod.catalogue(tier)[:pick]:
            out.append(wrap(mod.make_factory, s))
            names.append(f"{mod.__name__.rsplit('.', 1)[1]}:{s['name']}")
    for s in op_specs(tier):
        out.append(op_factory(s))
        names.append(s['name'])
    return out, names


def run(ctx: Ctx) -> Result:
    facs, names = all_factories(ctx.tier)
    st = explore_all(ctx, facs, max_states=ctx.pick(4000, 40000),
                     max_seconds=ctx.pick(110, 1500))
    return result_from(
        ctx, st, prop='C26', bounds={'profiles': names},
        assumptions=ASSUME, min_states=200)


def replay(payload):
    facs, names = all_factories(payload.get('tier', 'quick'))
    idx = payload.get('profile_index', 0)
    return replay_violation(payload, lambda pl: facs[idx])
