"""C33 Xtriggers are called with the documented discipline."""
from __future__ import annotations

from ..core import Ctx, HarnessError, Result
from ..sched.catalogue import A, E, N, spec_from
from ..sched.mon_c33 import XtrigDiscipline, XtrigProfile
from ..sched.monitors import PoolInvariants
from ..sched.run import explore_all, replay_violation, result_from

LEVEL = 'model_checking'

ASSUME = [
    'custom (subprocess) xtriggers only: the function call is a fake '
    'process whose result (False / True) and completion time the explorer '
    'chooses; at most 2 (thorough 3) False results per execution',
    'clock jumps to the next-call deadline of each signature at every '
    'boundary; ticks of 1 s / 0.5 s otherwise',
    'signatures shared between tasks and cycles (no cycle point argument) '
    'and per-cycle signatures (%(point)s argument); integer cycling',
]


def catalogue(tier: str):
    rows = [
        ('shared-x-2cycles', {'P1': '@x => a'}, 2,
         {'x': 'echo("x", succeed=True):PT5S'}),
        ('percycle-y', {'P1': '@y => a'}, 2,
         {'y': 'echo("y", "%(point)s", succeed=True):PT3S'}),
        ('two-tasks-share', {'P1': '@x => a\n@x => b'}, 1,
         {'x': 'echo("x", succeed=True):PT5S'}),
        # a templated signature that is nevertheless the same for every
        # cycle, with the second cycle still runahead-limited when the
        # call succeeds
        ('templated-shared-ra0', {'P1': '@x => a'}, 2,
         {'x': 'echo("%(workflow)s", succeed=True):PT5S'}),
    ]
    if tier == 'thorough':
        rows += [
            ('x-and-y', {'P1': '@x & @y => a'}, 2,
             {'x': 'echo("x", succeed=True):PT5S',
              'y': 'echo("y", "%(point)s", succeed=True):PT2S'}),
            ('shared-3cycles', {'P1': '@x => a => b'}, 3,
             {'x': 'echo("x", succeed=True):PT4S'}),
        ]
    out = []
    for name, graph, fcp, xt in rows:
        sp = {'name': name, 'icp': 1, 'fcp': fcp, 'graph': graph,
              'sections': [], 'tasks': {}, 'xtriggers': xt}
        if name.endswith('-ra0'):
            sp['scheduling'] = {'runahead limit': 'P0'}
        out.append(sp)
    return out


def make_factory(spec, tier='quick'):
    def factory():
        return XtrigProfile(
            spec, false_budget=2 if tier == 'quick' else 3,
            monitors=[XtrigDiscipline, PoolInvariants], jump=('xtrig',))
    return factory


def run(ctx: Ctx) -> Result:
    specs = catalogue(ctx.tier)
    st = explore_all(
        ctx, [make_factory(s, ctx.tier) for s in specs],
        max_states=ctx.pick(4000, 40000), max_seconds=ctx.pick(110, 1500))
    return result_from(
        ctx, st, prop='C33',
        bounds={'workflows': [s['name'] for s in specs],
                'false results per execution': ctx.pick(2, 3)},
        assumptions=ASSUME, min_states=50)


def replay(payload):
    specs = {s['name']: s for s in catalogue('thorough')}
    return replay_violation(
        payload, lambda pl: make_factory(
            specs[pl['spec_name']], pl.get('tier', 'quick')))
