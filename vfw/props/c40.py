"""C40 Workflow-state queries match exactly what was recorded.

Engine B, three exhaustive parts, all against sqlite databases written under
ctx.scratch through the real CylcWorkflowDAO and read back through the real
CylcWorkflowDBChecker.workflow_state_query:

A  matching matrix: a database holding *every* task name (resp. cycle) of up
   to 3 characters over the recorded-alphabet; *every* pattern of up to
   3 (quick) / 4 (thorough) symbols over the pattern alphabet is asked as
   the task (resp. cycle) of a query, against both tables (status query and
   output query) and combined with three values of the other field.
B  small databases: every set of at most 2 / 3 task instances from a menu of
   names x cycles x flow sets, x status/output variants; every query from a
   menu of task pattern x cycle pattern x selector (status / trigger /
   message / none) x flow filter.
C  one-instance databases asked end to end through the workflow_state
   xtrigger function with every task pattern of up to 3 characters
   (satisfied <=> the recorded task matches).

Oracle: a hand matcher written from the statement ('*' = any sequence of
characters, every other character matches only itself, case-sensitively)
applied to the rows the harness inserted; flow filter = membership.  Results
are compared as multisets of (name, cycle, flows).
"""
from __future__ import annotations

import contextlib
import io
import itertools
import json
import os
import shutil
from functools import lru_cache
from pathlib import Path

from ..core import Ctx, HarnessError, Result, Violation, chunks, pmap

LEVEL = 'exploration'

# recorded alphabets (characters that valid task names / cycle points of real
# workflows contain) and pattern alphabets (anything a user may type)
NAME_REC = ['a', 'A', 'b', 'X', '_', '%']
NAME_PAT = NAME_REC + ['*', '?', '[', ']', '\\', '[aX]']
CYC_REC = ['1', '0', 'T', 'Z', '-']
CYC_PAT = ['1', '0', 'T', 't', '_', '%', '*', '?', '[', ']', '\\', '[1T]']


# ---------------------------------------------------------------- reference

@lru_cache(maxsize=None)
def ref_match(pat, s):
    """'*' matches any sequence; any other character only itself."""
    if not pat:
        return not s
    if pat[0] == '*':
        return any(ref_match(pat[1:], s[i:]) for i in range(len(s) + 1))
    return bool(s) and pat[0] == s[0] and ref_match(pat[1:], s[1:])


def field_ok(pat, value):
    """A query field: None = not given (no filtering)."""
    return pat is None or ref_match(pat, value)


def flow_tag(flows):
    """How cylc displays a flow set ('' for the default flow 1 alone)."""
    flows = sorted(flows)
    if flows == [1]:
        return ''
    return '(flows=%s)' % (','.join(str(f) for f in flows) or 'none')


def labels_of(outputs):
    """(trigger labels, messages) of a recorded outputs entry.

    dict = {label: message} (8.3.0+); list = messages only (8.0-8.3 format,
    for which cylc documents a fall back to matching messages).
    """
    if isinstance(outputs, dict):
        return list(outputs.keys()), list(outputs.values())
    return list(outputs), list(outputs)


def ref_select(rows, q):
    """The recorded instances that match query q: sorted (name, cycle, tag).
    """
    out = []
    for r in rows:
        if not field_ok(q['task'], r['name']):
            continue
        if not field_ok(q['cycle'], r['cycle']):
            continue
        if q['flow'] is not None and q['flow'] not in r['flows']:
            continue
        sel = q['selector']
        if q['mode'] == 'status':
            if sel is not None and r['status'] != sel:
                continue
        else:
            if r['outputs'] is None:
                continue   # no outputs row recorded
            labels, messages = labels_of(r['outputs'])
            if sel is None:
                pass
            elif q['mode'] == 'message':
                if sel not in messages:
                    continue
            elif sel in ('finished', 'finish'):
                # documented pseudo-output: succeeded or failed
                if not ({'succeeded', 'failed'} & set(labels)
                        or sel in labels):
                    continue
            elif sel not in labels:
                continue
        out.append((r['name'], r['cycle'], flow_tag(r['flows'])))
    return sorted(out)


# variant matchers, used only to *name* the root cause of a mismatch
def _variant_match(pat, s, opts):
    if 'case' in opts:
        pat, s = pat.lower(), s.lower()

    @lru_cache(maxsize=None)
    def m(i, j):
        if i == len(pat):
            return j == len(s)
        c = pat[i]
        if c == '*' or (c == '%' and 'percent' in opts):
            if any(m(i + 1, k) for k in range(j, len(s) + 1)):
                return True
            if c == '*':
                return False
        if (c == '_' and 'underscore' in opts) or (
                c == '?' and 'question' in opts):
            if j < len(s) and m(i + 1, j + 1):
                return True
        if c == '\\' and 'backslash' in opts and i + 1 < len(pat):
            # escape: next pattern character is literal ('*' was already
            # turned into the engine's wildcard, so '\*' is a literal of it)
            nxt = pat[i + 1]
            for lit in ((nxt, '%') if nxt == '*' else (nxt,)):
                if j < len(s) and s[j] == lit and m(i + 2, j + 1):
                    return True
        if c == '[' and 'bracket' in opts:
            end = pat.find(']', i + 2)
            if end != -1 and j < len(s):
                body = pat[i + 1:end]
                neg = body[:1] in '^!' and len(body) > 1
                chars = body[1:] if neg else body
                if (s[j] in chars) != neg and m(end + 1, j + 1):
                    return True
        return j < len(s) and c == s[j] and m(i + 1, j + 1)
    return m(0, 0)


HYPOTHESES = [
    ('case', 'case-insensitive'),
    ('underscore', 'underscore-is-wildcard'),
    ('percent', 'percent-is-wildcard'),
    ('question', 'question-mark-is-wildcard'),
    ('bracket', 'bracket-is-character-class'),
    ('backslash', 'backslash-is-escape'),
]


def explain_extra(pat, value):
    """Smallest set of foreign pattern semantics under which *pat* matches
    *value* although the statement's matcher says it does not."""
    for k in (1, 2, 3):
        for combo in itertools.combinations(HYPOTHESES, k):
            if _variant_match(pat, value, {c[0] for c in combo}):
                return '+'.join(c[1] for c in combo)
    return 'unexplained'


def classify(rows_by_key, q, key, kind, chk):
    """Root-cause class of one wrongly returned/omitted instance."""
    name, cycle, _tag = key
    if kind == 'extra':
        r = rows_by_key.get(key)
        if r is None:
            return 'returned-instance-never-recorded'
        for fld, val in (('task', name), ('cycle', cycle)):
            if not field_ok(q[fld], val):
                return f'{fld}-pattern:{explain_extra(q[fld], val)}'
        if q['flow'] is not None and q['flow'] not in r['flows']:
            return 'flow-filter:kept-instance-of-other-flow'
        return f"selector:{q['mode']}-mismatch-returned"
    # missing: which single relaxation of the query brings it back?
    for fld in ('flow', 'selector', 'task', 'cycle'):
        if q[fld] is None:
            continue
        got = ask(chk, {**q, fld: None})
        if got == 'REJECTED' or list(key) not in [list(g) for g in got]:
            continue
        if fld == 'flow':
            return 'flow-filter:dropped-instance-of-requested-flow'
        if fld == 'selector':
            return f"selector:{q['mode']}-match-omitted"
        special = ''.join(c for c in '_%?[]\\' if c in q[fld])
        if special:
            return f'{fld}-pattern:literal-{special}-not-matched'
        return f'{fld}-pattern:match-omitted'
    if rows_by_key[key]['flows'] != [1]:
        return 'matching-instance-omitted:non-default-flow'
    return f"matching-instance-omitted:{q['mode']}-query"


# --------------------------------------------------------------- real code

def build_db(path, rows):
    """Write task_states/task_outputs rows through the real DAO."""
    from cylc.flow.rundb import CylcWorkflowDAO
    from cylc.flow.util import serialise_set
    path = str(path)
    if os.path.exists(path):
        os.unlink(path)
    os.makedirs(os.path.dirname(path), exist_ok=True)
    with CylcWorkflowDAO(path, create_tables=True) as dao:
        for i, r in enumerate(rows):
            flows = serialise_set(set(r['flows']))
            dao.add_insert_item(CylcWorkflowDAO.TABLE_TASK_STATES, {
                'name': r['name'], 'cycle': r['cycle'], 'flow_nums': flows,
                'time_created': '2000-01-01T00:00:00Z',
                'time_updated': '2000-01-01T00:00:00Z',
                'submit_num': r.get('submit_num', 1 + i % 3),
                'status': r['status'], 'flow_wait': 0,
                'is_manual_submit': 0,
            })
            if r['outputs'] is not None:
                dao.add_insert_item(CylcWorkflowDAO.TABLE_TASK_OUTPUTS, {
                    'cycle': r['cycle'], 'name': r['name'],
                    'flow_nums': flows,
                    'outputs': json.dumps(r['outputs']),
                })
        dao.execute_queued_items()


def ask(checker, q):
    """Run one query; sorted (name, cycle, tag) or 'REJECTED'."""
    from cylc.flow.exceptions import InputError
    try:
        with contextlib.redirect_stderr(io.StringIO()):
            res = checker.workflow_state_query(
                task=q['task'], cycle=q['cycle'], selector=q['selector'],
                is_trigger=q['mode'] == 'trigger',
                is_message=q['mode'] == 'message',
                flow_num=q['flow'])
    except InputError:
        return 'REJECTED'
    return sorted((r[0], r[1], r[3] if len(r) > 3 else '') for r in res)


def diff(rows, q, got):
    """[(kind, key)] for every instance wrongly returned or omitted."""
    want = ref_select(rows, q)
    if got == want:
        return []
    out = []
    g, w = list(got), list(want)
    for k in list(g):
        if k in w:
            w.remove(k)
            g.remove(k)
    out.extend(('extra', tuple(k)) for k in g)
    out.extend(('missing', tuple(k)) for k in w)
    return out


def key_of(r):
    return (r['name'], r['cycle'], flow_tag(r['flows']))


def violations_for(rows, q, got, minimise, chk):
    """Violation dicts for one query result."""
    d = diff(rows, q, got)[:8]   # classify at most 8 instances per query
    if not d:
        return []
    by_key = {key_of(r): r for r in rows}
    out = []
    for kind, key in d:
        keep = rows
        if minimise:
            keep = [by_key[key]] if key in by_key else []
        out.append({
            'rows': keep, 'query': q, 'kind': kind, 'instance': list(key),
            'cls': classify(by_key, q, key, kind, chk),
        })
    return out


def signature(b):
    """Root-cause class: for a pattern mismatch that needs several foreign
    semantics at once (e.g. case folding AND '_' wildcard) the first
    component names the class; the full explanation stays in b['cls']."""
    return b['cls'].split('+')[0]


def describe(b):
    q = b['query']
    ask_ = (f"task={q['task']!r} cycle={q['cycle']!r} "
            f"{q['mode']}={q['selector']!r} flow={q['flow']!r}")
    verb = ('returns' if b['kind'] == 'extra' else 'omits')
    why = ('which does not match' if b['kind'] == 'extra'
           else 'which matches')
    return (f"query {ask_} {verb} recorded instance "
            f"{b['instance'][1]}/{b['instance'][0]}{b['instance'][2]} "
            f"{why} ({b['cls']})")


def replay_one(b, dbdir):
    """Rebuild the database of a violation, re-ask, re-judge."""
    from cylc.flow.dbstatecheck import CylcWorkflowDBChecker
    path = Path(dbdir) / 'replay' / 'log' / 'db'
    build_db(path, b['rows'])
    with CylcWorkflowDBChecker('-', '-', db_path=str(path)) as chk:
        got = ask(chk, b['query'])
        if got == 'REJECTED':
            return []
        return violations_for(b['rows'], b['query'], got, False, chk)


# ------------------------------------------------------------ enumerations

def strings(alphabet, maxlen):
    for k in range(1, maxlen + 1):
        for t in itertools.product(alphabet, repeat=k):
            yield ''.join(t)


def std_outputs(status, custom):
    o = {}
    if status in ('running', 'succeeded', 'failed'):
        o = {'submitted': 'submitted', 'started': 'started'}
    if status in ('succeeded', 'failed'):
        o[status] = status
    if custom and status == 'succeeded':
        o['x'] = 'the msg'
    return o


def matrix_rows(field):
    """Part A database: every recorded-alphabet value of the field."""
    from cylc.flow.unicode_rules import TaskNameValidator
    rows = []
    if field == 'task':
        vals = [s for s in strings(NAME_REC, 3)
                if TaskNameValidator.validate(s)[0]]
        others = ['1', '10']
    else:
        vals = list(strings(CYC_REC, 3))
        others = ['ab', 'Ab']
    for v in vals:
        for o in others:
            name, cycle = (v, o) if field == 'task' else (o, v)
            rows.append({
                'name': name, 'cycle': cycle, 'flows': [1],
                'status': 'succeeded',
                'outputs': std_outputs('succeeded', False)})
    return rows, vals


MATRIX_OTHER = {
    # the other field of a Part A query: absent, exact, pattern
    'task': [None, '1', '1*'],
    'cycle': [None, 'ab', 'a*'],
}


def _work_matrix(job):
    """Part A worker: a slice of the patterns for one field."""
    from cylc.flow.dbstatecheck import CylcWorkflowDBChecker
    field, pats, dbpath, rows = job
    other = 'cycle' if field == 'task' else 'task'
    n = {'queries': 0, 'pairs': 0, 'nonempty': 0, 'rejected': 0,
         'star': 0, 'exact': 0}
    bad = {}
    with CylcWorkflowDBChecker('-', '-', db_path=dbpath) as chk:
        for p in pats:
            ref_match.cache_clear()
            for o in MATRIX_OTHER[field]:
                for mode, sel in (('status', 'succeeded'),
                                  ('trigger', 'succeeded')):
                    q = {field: p, other: o, 'mode': mode, 'selector': sel,
                         'flow': None}
                    got = ask(chk, q)
                    n['queries'] += 1
                    if got == 'REJECTED':
                        n['rejected'] += 1
                        continue
                    n['pairs'] += len(rows)
                    n['star' if '*' in p else 'exact'] += 1
                    if ref_select(rows, q):
                        n['nonempty'] += 1
                    if got != ref_select(rows, q):
                        keep(bad, violations_for(rows, q, got, True, chk))
    ref_match.cache_clear()
    return n, bad


# Part B menu ---------------------------------------------------------------

B_NAMES = ['a_b', 'aXb', 'Ab']
B_CYCLES = ['1', '10']
B_FLOWS = [[1], [2], [1, 2], []]
B_STATUS = ['succeeded', 'failed', 'waiting', 'running']
B_TASK_PATS = [None, 'a_b', 'a_*', 'a*', 'A*', '*']
B_CYCLE_PATS = [None, '1', '1*', '*']
B_SELECTORS = [
    ('status', None), ('status', 'succeeded'), ('status', 'failed'),
    ('trigger', None), ('trigger', 'succeeded'), ('trigger', 'x'),
    ('trigger', 'finished'), ('message', 'the msg'), ('message', 'x'),
]
B_FLOW_FILTERS = [None, 1, 2, 3]


def b_menu(variant):
    """The instance menu under one status/outputs variant."""
    menu = []
    for i, (nm, cy, fl) in enumerate(
            itertools.product(B_NAMES, B_CYCLES, B_FLOWS)):
        status = B_STATUS[(i + variant) % len(B_STATUS)]
        outputs = std_outputs(status, custom=(i + variant) % 2 == 0)
        if (i + variant) % 5 == 4:
            outputs = list(outputs.values())   # 8.0-8.3 list-of-messages
        menu.append({'name': nm, 'cycle': cy, 'flows': fl,
                     'status': status, 'outputs': outputs})
    return menu


def b_queries():
    return [
        {'task': t, 'cycle': c, 'mode': m, 'selector': s, 'flow': f}
        for t, c, (m, s), f in itertools.product(
            B_TASK_PATS, B_CYCLE_PATS, B_SELECTORS, B_FLOW_FILTERS)]


def _work_small(job):
    """Part B worker: a slice of the (variant, instance subset) databases."""
    from cylc.flow.dbstatecheck import CylcWorkflowDBChecker
    dbs, scratch, wid = job
    queries = b_queries()
    n = {'databases': 0, 'queries': 0, 'nonempty': 0, 'rejected': 0,
         'flow_filtered': 0, 'partial': 0}
    bad = {}
    path = Path(scratch) / f'small-{wid}-{os.getpid()}' / 'log' / 'db'
    menus = {}
    for variant, idx in dbs:
        menu = menus.setdefault(variant, b_menu(variant))
        rows = [menu[i] for i in idx]
        build_db(path, rows)
        n['databases'] += 1
        with CylcWorkflowDBChecker('-', '-', db_path=str(path)) as chk:
            for q in queries:
                got = ask(chk, q)
                n['queries'] += 1
                if got == 'REJECTED':
                    n['rejected'] += 1
                    continue
                want = ref_select(rows, q)
                if want:
                    n['nonempty'] += 1
                    if len(want) < len(rows):
                        n['partial'] += 1
                if q['flow'] is not None and len(want) < len(
                        ref_select(rows, {**q, 'flow': None})):
                    n['flow_filtered'] += 1
                if got != want:
                    keep(bad, violations_for(rows, q, got, False, chk))
    shutil.rmtree(path.parent.parent, ignore_errors=True)
    return n, bad


# Part C ----------------------------------------------------------------------

C_RECORDED = ['a_b', 'aXb', 'Ab', 'ab', 'a%b']
C_PAT = ['a', 'A', 'b', '_', '%', '*']


def one_row(name):
    return {'name': name, 'cycle': '1', 'flows': [1], 'status': 'succeeded',
            'outputs': std_outputs('succeeded', False)}


def xtrigger_slice(scratch, names, pats):
    """One-instance databases asked through the workflow_state xtrigger
    function: satisfied <=> the single recorded task matches the pattern."""
    from cylc.flow.xtriggers.workflow_state import workflow_state
    from cylc.flow.exceptions import CylcError
    run = Path(scratch) / 'xtrig-run'
    n = {'calls': 0, 'rejected': 0, 'satisfied': 0}
    bad = []
    for name in names:
        rows = [one_row(name)]
        build_db(run / 'wf' / 'log' / 'db', rows)
        for p in pats:
            try:
                with contextlib.redirect_stderr(io.StringIO()), \
                        contextlib.redirect_stdout(io.StringIO()):
                    sat, _res = workflow_state(
                        f'wf//1/{p}:succeeded', alt_cylc_run_dir=str(run))
            except (CylcError, ValueError):
                n['rejected'] += 1
                continue
            n['calls'] += 1
            want = ref_match(p, name)
            n['satisfied'] += want
            if bool(sat) != want:
                cls = 'xtrigger:not-satisfied-although-recorded'
                if sat:
                    cls = f'xtrigger:task-pattern:{explain_extra(p, name)}'
                bad.append({'kind': 'xtrigger', 'recorded': name,
                            'pattern': p, 'cls': cls,
                            'satisfied': bool(sat)})
    shutil.rmtree(run, ignore_errors=True)
    return n, bad


def describe_x(b):
    return (f"workflow_state('wf//1/{b['pattern']}:succeeded') is "
            f"{'satisfied' if b['satisfied'] else 'not satisfied'} with only "
            f"1/{b['recorded']} (succeeded) recorded ({b['cls']})")


def replay_xtrigger(b, scratch):
    n, bad = xtrigger_slice(scratch, [b['recorded']], [b['pattern']])
    return bad


# ------------------------------------------------------------------- driver

PER_SIG = 5   # examples kept per root-cause class and worker


def keep(bad, new):
    """bad: {signature: [count, [examples]]}."""
    for b in new:
        slot = bad.setdefault(signature(b), [0, []])
        slot[0] += 1
        if len(slot[1]) < PER_SIG:
            slot[1].append(b)


def merge(total, bad):
    for sig, (cnt, ex) in bad.items():
        slot = total.setdefault(sig, [0, []])
        slot[0] += cnt
        slot[1].extend(ex[:max(0, 4 * PER_SIG - len(slot[1]))])


def run(ctx: Ctx) -> Result:
    patlen = ctx.pick(3, 4)
    subset = ctx.pick(2, 3)
    variants = ctx.pick([0, 1], [0, 1, 2, 3])
    bad = {}
    cov = {}

    # ---- Part A
    tot_a = {}
    for field, alphabet in (('task', NAME_PAT), ('cycle', CYC_PAT)):
        rows, vals = matrix_rows(field)
        dbpath = ctx.scratch / f'matrix-{field}' / 'log' / 'db'
        build_db(dbpath, rows)
        pats = list(strings(alphabet, patlen))
        jobs = [(field, c, str(dbpath), rows)
                for c in chunks(pats, ctx.workers * 4)]
        for n, b in pmap(_work_matrix, jobs, ctx.workers):
            for k, v in n.items():
                tot_a[k] = tot_a.get(k, 0) + v
            merge(bad, b)
        cov[f'matrix_{field}'] = {
            'recorded_values': len(vals), 'db_rows': len(rows),
            'patterns': len(pats), 'max_pattern_length': patlen}
        shutil.rmtree(dbpath.parent.parent, ignore_errors=True)

    # ---- Part B
    menu_size = len(b_menu(0))
    dbs = [(v, idx) for v in variants
           for k in range(0, subset + 1)
           for idx in itertools.combinations(range(menu_size), k)]
    jobs = [(c, str(ctx.scratch), i)
            for i, c in enumerate(chunks(dbs, ctx.workers * 4))]
    tot_b = {}
    for n, b in pmap(_work_small, jobs, ctx.workers):
        for k, v in n.items():
            tot_b[k] = tot_b.get(k, 0) + v
        merge(bad, b)

    # ---- Part C
    n_c, bad_c = xtrigger_slice(
        ctx.scratch, C_RECORDED, list(strings(C_PAT, 3)))

    # ---- the space must not be vacuous
    checks = {
        'A: wildcard queries': tot_a['star'],
        'A: exact queries': tot_a['exact'],
        'A: queries with a non-empty reference': tot_a['nonempty'],
        'B: non-empty reference': tot_b['nonempty'],
        'B: reference keeps a strict subset': tot_b['partial'],
        'B: flow filter removes something': tot_b['flow_filtered'],
        'C: xtrigger calls': n_c['calls'],
        'C: xtrigger satisfied': n_c['satisfied'],
    }
    for what, count in checks.items():
        if not count:
            raise HarnessError(f'seam never exercised: {what}')

    per_sig = {sig: cnt for sig, (cnt, _) in sorted(bad.items())}
    vios = [Violation(signature(b), describe(b), b)
            for sig in sorted(bad) for b in bad[sig][1]]
    seen_c = {}
    for b in bad_c:
        per_sig[signature(b)] = per_sig.get(signature(b), 0) + 1
        seen_c[signature(b)] = seen_c.get(signature(b), 0) + 1
        if seen_c[signature(b)] <= PER_SIG:
            vios.append(Violation(signature(b), describe_x(b), b))
    evaluations = tot_a['queries'] + tot_b['queries'] + n_c['calls']
    cov.update({
        'evaluations': evaluations,
        'distinct_nontrivial': tot_a['nonempty'] + tot_b['nonempty'],
        'rule': (
            'one evaluation = one query executed by the real checker on a '
            'database written by the real DAO, its whole result compared '
            'with the reference (Part A also = %d (pattern, recorded value) '
            'pairs decided); non-trivial = the reference result is '
            'non-empty' % tot_a['pairs']),
        'matrix': tot_a,
        'small_databases': {
            **tot_b, 'menu_instances': menu_size, 'max_rows': subset,
            'variants': len(variants),
            'queries_per_database': len(b_queries())},
        'xtrigger_slice': n_c,
        'rejected_queries_not_judged': tot_a['rejected'] + tot_b['rejected'],
        'mismatching_instances_classified': per_sig,
        'alphabets': {'name_recorded': NAME_REC, 'name_pattern': NAME_PAT,
                      'cycle_recorded': CYC_REC, 'cycle_pattern': CYC_PAT},
        'samples': [
            {'query': {'task': 'a_*', 'cycle': None, 'status': 'succeeded'},
             'recorded': ['a_b', 'aXb', 'Ab', 'ab'],
             'reference_result': [
                 n for n in ['a_b', 'aXb', 'Ab', 'ab']
                 if ref_match('a_*', n)]},
            {'query': {'cycle': '1*T', 'task': None},
             'recorded': ['10T', '1T', '11', 'T1'],
             'reference_result': [
                 c for c in ['10T', '1T', '11', 'T1']
                 if ref_match('1*T', c)]},
            {'small_database': [key_of(r) for r in
                                [b_menu(0)[i] for i in (0, 5, 9)]],
             'query': b_queries()[137],
             'reference_result': ref_select(
                 [b_menu(0)[i] for i in (0, 5, 9)], b_queries()[137])},
        ],
        'exhaustive': True,
    })
    return Result(cov, vios, assumptions=[
        'integer-cycling database (no cycle point format recorded), so the '
        'cycle of a query reaches the database unchanged; datetime '
        'reformatting of the query cycle (adjust_point_to_db) is not judged',
        'recorded task names are valid cylc task names over %s; recorded '
        'cycles are strings over %s; patterns range over the larger pattern '
        'alphabets' % (NAME_REC, CYC_REC),
        'result rows are identified by (name, cycle, displayed flows); '
        'their order and the third column text are not judged',
        'the pseudo-output "finished" means succeeded-or-failed; for '
        'outputs recorded in the 8.0-8.3 list format a trigger query '
        'matches messages (documented fall-back)',
        'queries cylc rejects (transient or unknown status) are counted, '
        'not judged; Cylc 7 format databases are out of scope',
        'Part C drives only the xtrigger function with task patterns of at '
        'most 3 characters; the cylc workflow-state command line is not '
        'spawned',
    ])


def replay(payload):
    from ..core import scratch_root
    scratch = scratch_root()
    if payload.get('kind') == 'xtrigger':
        bad = replay_xtrigger(payload, scratch)
        return [Violation(signature(b), describe_x(b), b) for b in bad
                if signature(b) == signature(payload)]
    bad = replay_one(payload, scratch)
    return [Violation(signature(b), describe(b), b) for b in bad
            if signature(b) == signature(payload)
            and b['instance'] == payload['instance']]
