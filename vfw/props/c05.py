"""C05 Internal queue limits are never exceeded.

Two legs in one module:

(B) static, bounded-exhaustive: every queue configuration with <=3 queues
    over the task names a,b,c,d and the family F={c,d} (every membership
    assignment incl. overlaps, limits 0..3) is given to the real
    `IndepQueueManager`, built the way `TaskPool` builds it, and the
    resulting membership is compared with "last queue that lists it, else
    default". A slice goes through the whole real path flow.cylc text ->
    parsec -> WorkflowConfig -> IndepQueueManager.
(A) Engine A: the real Scheduler on fan-out graphs with queue configurations,
    all outcome orders and hold / release / trigger commands; the QueueLimits
    monitor judges every release and every state.
"""
from __future__ import annotations

import itertools
from typing import Dict, List, Tuple

from ..core import Ctx, HarnessError, Result, Violation, chunks, pmap
from ..sched.catalogue import A, E, N, spec_from
from ..sched.mon_c05 import COUNTS, EarlyProfile, QueueLimits, ref_queues
from ..sched.monitors import PoolInvariants
from ..sched.run import explore_all, replay_violation, result_from

LEVEL = 'model_checking'

ASSUME = [
    'dynamic leg: bounded catalogue of single-cycle (R1) fan-out/chain '
    'graphs (see bounds); integer cycling; localhost jobs; all-success '
    'jobs; no reload/restart',
    'operator alphabet: hold / force_trigger_tasks of every instance, '
    'budget 1 per execution, offered at every main-loop boundary; plus '
    'hold-then-(release|trigger) with budget 2 on the marked workflows',
    'an instance named by a successful trigger command counts as manually '
    'triggered for the rest of the execution',
    'held status of FIFO entries is read from the task proxies; the FIFO '
    'itself is the order of is_queued False->True events',
    'static leg: each queue section appears once; member lists contain only '
    'defined task/family names (undefined names are rejected or ignored by '
    'cylc and are not judged); the default queue has no member list',
    'default queue limit 100 (documented default) unless configured',
]

# ===========================================================================
# (B) static leg

TASKS = ('a', 'b', 'c', 'd')
UNIVERSES = {
    # name -> (family -> member tasks, runtime text)
    'flat': ({'F': ('c', 'd')},
             '    [[F]]\n    [[c, d]]\n        inherit = F\n'),
    # nested: F > G > d ; F > c   (F expands to tasks c, d only)
    'nested': ({'F': ('c', 'd')},
               '    [[F]]\n    [[c]]\n        inherit = F\n'
               '    [[G]]\n        inherit = F\n'
               '    [[d]]\n        inherit = G\n'),
}
TOKENS = ('a', 'b', 'c', 'd', 'F')
SUBSETS = [
    tuple(t for i, t in enumerate(TOKENS) if mask >> i & 1)
    for mask in range(1 << len(TOKENS))
]
QNAMES = ('q1', 'q2', 'q3')
LIMITS = (0, 1, 2, 3)


def static_owner(fams: dict, queues) -> Dict[str, str]:
    """Reference: last queue (file order) that lists the task, directly or
    through a family, else default."""
    owner = {t: 'default' for t in TASKS}
    for qn, _limit, members in queues:
        for m in members:
            for t in fams.get(m, (m,)):
                owner[t] = qn
    return owner


class _T:
    """Minimal stand-in for a task proxy (push_task reads tdef.name only)."""
    class _S:
        is_held = False

    def __init__(self, name):
        self.tdef = type('tdef', (), {'name': name})
        self.state = self._S()


def judge_manager(mgr, fams, queues, dlimit) -> List[Tuple[str, str]]:
    """Compare a built IndepQueueManager with the reference."""
    owner = static_owner(fams, queues)
    out = []
    want_limits = {'default': dlimit}
    want_limits.update({qn: lim for qn, lim, _m in queues})
    got_limits = {qn: q.limit for qn, q in mgr.queues.items()}
    if got_limits != want_limits:
        out.append(('limits-differ',
                    f'queue limits {got_limits} != configured '
                    f'{want_limits}'))
    listed = {t: [qn for qn, _l, mem in queues
                  if any(t in fams.get(m, (m,)) for m in mem)]
              for t in TASKS}
    for t in TASKS:
        inq = sorted(qn for qn, q in mgr.queues.items() if t in q.members)
        if inq == [owner[t]]:
            continue
        n = len(listed[t])
        via = 'family' if any(
            t in fams.get(m, ()) for _q, _l, mem in queues for m in mem
        ) else 'direct'
        if not inq:
            kind = 'in-no-queue'
        elif len(inq) > 1:
            kind = 'in-several-queues'
        elif inq == ['default']:
            kind = 'left-in-default'
        elif n and inq == [listed[t][0]] and n > 1:
            kind = 'first-listing-wins'
        else:
            kind = 'wrong-queue'
        out.append((
            f'membership:{kind}:listed-by={n}:via-{via}',
            f'task {t!r} is a member of queue(s) {inq}; queues (in order) '
            f'list it in {listed[t]}, so it belongs to {owner[t]!r}'))
    # behaviour: a pushed task lands in exactly its owner's deque
    for t in TASKS:
        mgr.push_task(_T(t))
    for t in TASKS:
        inq = sorted(qn for qn, q in mgr.queues.items()
                     if any(x.tdef.name == t for x in q.deque))
        if inq != [owner[t]]:
            out.append((
                'push:lands-in-' + (
                    'no-queue' if not inq else
                    'several-queues' if len(inq) > 1 else 'wrong-queue'),
                f'a pushed instance of {t!r} was queued in {inq}, expected '
                f'{[owner[t]]}'))
    return out


_BASE: dict = {}


def _base(universe: str, scratch):
    """Task name list and family descendants, taken once from a real
    WorkflowConfig (what TaskPool passes to IndepQueueManager)."""
    if universe not in _BASE:
        cfg = _load_config(universe, [], 100, scratch)
        _BASE[universe] = (
            list(cfg.get_task_name_list()),
            {k: set(v) for k, v in cfg.runtime['descendants'].items()})
    return _BASE[universe]


def flow_text(universe: str, queues, dlimit, default_pos=None) -> str:
    L = ['[scheduler]', '    allow implicit tasks = True', '[scheduling]',
         '    cycling mode = integer', '    initial cycle point = 1',
         '    [[queues]]']
    secs = []
    for qn, lim, mem in queues:
        s = [f'        [[[{qn}]]]', f'            limit = {lim}']
        if mem:
            s.append(f"            members = {', '.join(mem)}")
        secs.append(s)
    if default_pos is not None:
        secs.insert(min(default_pos, len(secs)),
                    ['        [[[default]]]',
                     f'            limit = {dlimit}'])
    for s in secs:
        L.extend(s)
    L += ['    [[graph]]', '        R1 = "a & b & c & d"', '[runtime]']
    return '\n'.join(L) + '\n' + UNIVERSES[universe][1]


def _load_config(universe, queues, dlimit, scratch, default_pos=None):
    from cylc.flow.config import WorkflowConfig
    from cylc.flow.scheduler_cli import RunOptions
    import os
    d = scratch / f'c05-static-{os.getpid()}'
    d.mkdir(parents=True, exist_ok=True)
    f = d / 'flow.cylc'
    f.write_text(flow_text(universe, queues, dlimit, default_pos))
    return WorkflowConfig('c05static', str(f), RunOptions())


def _limits_for(idx: int, nq: int, all_limits: bool):
    combos = list(itertools.product(LIMITS, repeat=nq))
    if all_limits:
        return combos
    return [combos[idx % len(combos)]]


def enum_configs(nq: int, all_limits: bool):
    """(queues, default-limit) in a fixed order."""
    idx = 0
    for mems in itertools.product(SUBSETS, repeat=nq):
        for lims in _limits_for(idx, nq, all_limits):
            yield (tuple((QNAMES[i], lims[i], mems[i]) for i in range(nq)),
                   (100, 0, 1, 2, 3)[idx % 5])
            idx += 1


def _direct_chunk(arg):
    """Direct construction with a parsec-shaped queue config."""
    universe, names, desc, nq, all_limits, part, nparts = arg
    fams = UNIVERSES[universe][0]
    n = 0
    outcomes = set()
    bad = []
    for i, (queues, dlimit) in enumerate(enum_configs(nq, all_limits)):
        if i % nparts != part:
            continue
        n += 1
        outcomes.add(tuple(sorted(static_owner(fams, queues).items())))
        for sig, what in _direct_one(universe, names, desc, queues, dlimit):
            if len(bad) < 50:
                bad.append((sig, what, {
                    'leg': 'static', 'mode': 'direct', 'universe': universe,
                    'queues': [list(q) for q in queues],
                    'dlimit': dlimit, 'signature': sig}))
    return n, outcomes, bad


def _config_chunk(arg):
    """Whole real path: flow.cylc -> WorkflowConfig -> IndepQueueManager."""
    universe, items, scratch = arg
    fams = UNIVERSES[universe][0]
    n = 0
    outcomes = set()
    bad = []
    for queues, dlimit, dpos in items:
        n += 1
        outcomes.add(tuple(sorted(static_owner(fams, queues).items())))
        for sig, what in _config_one(universe, queues, dlimit, dpos,
                                     scratch):
            if len(bad) < 50:
                bad.append((sig, what, {
                    'leg': 'static', 'mode': 'config', 'universe': universe,
                    'queues': [list(q) for q in queues], 'dlimit': dlimit,
                    'dpos': dpos, 'signature': sig}))
    return n, outcomes, bad


def config_items(max_nq: int):
    out = []
    for nq in range(1, max_nq + 1):
        for i, (queues, dlimit) in enumerate(enum_configs(nq, False)):
            # explicit [[[default]]] section absent / at varying positions
            dpos = (None, 0, 1, 2, 3)[i % 5]
            out.append((queues, dlimit, dpos))
    return out


def run_static(ctx: Ctx):
    from pathlib import Path
    scratch = Path(ctx.scratch)
    nparts = max(1, ctx.workers) * 2
    evals = 0
    outcomes = set()
    bad = []
    per = {}
    # direct construction: every membership assignment
    for universe in ('flat',):
        names, desc = _base(universe, scratch)
        if sorted(names) != list(TASKS) or desc.get('F') != {'c', 'd'}:
            raise HarnessError(f'static universe broken: {names} {desc}')
        for nq in (1, 2, 3):
            all_limits = nq < 3 or ctx.tier == 'thorough'
            res = pmap(
                _direct_chunk,
                [(universe, names, desc, nq, all_limits, p, nparts)
                 for p in range(nparts)], ctx.workers)
            k = sum(r[0] for r in res)
            per[f'direct:{universe}:{nq}-queues'] = k
            evals += k
            for r in res:
                outcomes |= r[1]
                bad.extend(r[2])
    # whole config path
    plan = [('flat', ctx.pick(2, 3)), ('nested', ctx.pick(1, 2))]
    for universe, max_nq in plan:
        items = config_items(max_nq)
        res = pmap(_config_chunk,
                   [(universe, ch, scratch) for ch in chunks(items, nparts)],
                   ctx.workers)
        k = sum(r[0] for r in res)
        per[f'config:{universe}:<={max_nq}-queues'] = k
        evals += k
        for r in res:
            outcomes |= r[1]
            bad.extend(r[2])
    if len(outcomes) < 50:
        raise HarnessError(
            f'static leg vacuous: only {len(outcomes)} distinct memberships')
    vios = [Violation(sig, what, payload) for sig, what, payload in bad]
    cov = {
        'static_evaluations': evals,
        'static_distinct_memberships': len(outcomes),
        'static_rule': 'distinct reference owner maps task->queue over the '
                       'enumerated configurations',
        'static_breakdown': per,
        'static_bounds': {
            'queues<=': 3, 'task names': list(TASKS),
            'family': 'F={c,d} (flat and nested F>G>d)',
            'member lists': 'every subset of {a,b,c,d,F} per queue '
                            '(all overlaps)',
            'limits': '0..3 (all combinations for <=2 queues; for 3 queues '
                      'all in thorough, rotating in quick)',
            'default queue': 'limit 100/0/1/2/3 rotating; explicit section '
                             'absent or at every position (config path)',
        },
    }
    return cov, vios


def replay_static(payload):
    from pathlib import Path
    from .. import core
    scratch = Path(core.scratch_root())
    universe = payload['universe']
    queues = tuple((q[0], q[1], tuple(q[2])) for q in payload['queues'])
    if payload['mode'] == 'config':
        res = _config_one(universe, queues, payload['dlimit'],
                          payload.get('dpos'), scratch)
    else:
        names, desc = _base(universe, scratch)
        res = _direct_one(universe, names, desc, queues, payload['dlimit'])
    return [Violation(s, w, payload) for s, w in res
            if s == payload['signature']] or [
        Violation(s, w, payload) for s, w in res]


def _raised(exc) -> List[Tuple[str, str]]:
    return [(f'manager-construction-raises:{type(exc).__name__}',
             f'IndepQueueManager could not be built for a valid queue '
             f'configuration: {type(exc).__name__}: {exc}')]


def _config_one(universe, queues, dlimit, dpos, scratch):
    """flow.cylc text -> WorkflowConfig -> IndepQueueManager (as TaskPool
    does) -> judgement."""
    from cylc.flow.task_queues.independent import IndepQueueManager
    cfg = _load_config(universe, queues, dlimit, scratch, dpos)
    try:
        mgr = IndepQueueManager(
            cfg.cfg['scheduling']['queues'], cfg.get_task_name_list(),
            cfg.runtime['descendants'])
    except Exception as exc:     # noqa
        return _raised(exc)
    eff = dlimit if dpos is not None else 100
    return judge_manager(mgr, UNIVERSES[universe][0], queues, eff)


def _direct_one(universe, names, desc, queues, dlimit):
    from cylc.flow.parsec.OrderedDict import OrderedDictWithDefaults
    from cylc.flow.task_queues.independent import IndepQueueManager
    qcfg = OrderedDictWithDefaults()
    d = OrderedDictWithDefaults()
    d['limit'] = dlimit
    d['members'] = []
    qcfg['default'] = d
    for qn, lim, mem in queues:
        e = OrderedDictWithDefaults()
        e['limit'] = lim
        e['members'] = list(mem)
        qcfg[qn] = e
    try:
        mgr = IndepQueueManager(
            qcfg, list(names), {k: set(v) for k, v in desc.items()})
    except Exception as exc:     # noqa
        return _raised(exc)
    return judge_manager(mgr, UNIVERSES[universe][0], queues, dlimit)


# ===========================================================================
# (A) dynamic leg

def _fan(k):
    return [('R1', [N(t) for t in 'abcd'[:k]])]


def catalogue(tier: str):
    FAM = {'F': ['c', 'd']}
    rows = [
        # name, sections, queues, families, op mode
        ('fan3-q1L1', _fan(3),
         {'q1': {'limit': 1, 'members': ['a', 'b', 'c']}}, {}, 'ht1'),
        ('fan3-q1L2', _fan(3),
         {'q1': {'limit': 2, 'members': ['a', 'b', 'c']}}, {}, 'ht1'),
        ('fan3-overlap', _fan(3),
         {'q1': {'limit': 1, 'members': ['a', 'b', 'c']},
          'q2': {'limit': 1, 'members': ['c']}}, {}, 'ht1'),
        ('fan3-defaultL1', _fan(3),
         {'default': {'limit': 1},
          'q1': {'limit': 0, 'members': ['c']}}, {}, 'ht1'),
        ('chain-q1L1', [('R1', [E(A('a'), 'b'), N('c')])],
         {'q1': {'limit': 1, 'members': ['a', 'b', 'c']}}, {}, 'ht1'),
        ('fan4-q1L1-holdrel', _fan(4),
         {'q1': {'limit': 1, 'members': ['a', 'b', 'c', 'd']}}, {}, 'hr2'),
    ]
    if tier == 'thorough':
        rows += [
            ('fan4-fam', _fan(4),
             {'q1': {'limit': 1, 'members': ['a', 'F']},
              'q2': {'limit': 1, 'members': ['c', 'b']}}, FAM, 'ht1'),
            ('fan4-q1L3', _fan(4),
             {'q1': {'limit': 3, 'members': ['a', 'b', 'c', 'd']}}, {},
             'ht1'),
            ('fan4-q1L2', _fan(4),
             {'q1': {'limit': 2, 'members': ['a', 'b', 'c', 'd']}}, {},
             'ht1'),
            ('fan3-q1L0', _fan(3),
             {'q1': {'limit': 0, 'members': ['a', 'b', 'c']}}, {}, 'ht1'),
            ('chain-fan-q1L2', [('R1', [E(A('a'), 'b'), N('c'), N('d')])],
             {'q1': {'limit': 2, 'members': ['a', 'b', 'c', 'd']}}, {},
             'ht1'),
            ('fan4-q1L2-holdrel', _fan(4),
             {'q1': {'limit': 2, 'members': ['a', 'b', 'c', 'd']}}, {},
             'hr2'),
        ]
    out = []
    for name, secs, queues, fams, mode in rows:
        sp = spec_from(secs, 1, 1, name=name, queues=queues, families=fams)
        sp['opmode'] = mode
        out.append(sp)
    return out


def instances(spec):
    from ..sched.mon_c05 import task_names
    return [f'1/{t}' for t in task_names(spec)]


def make_factory(spec):
    insts = instances(spec)
    mode = spec['opmode']

    def trig(i):
        return ('force_trigger_tasks', {'tasks': [i], 'flow': ['all']})

    def ops(w):
        if mode == 'ht1':
            return ([('hold', {'tasks': [i]}) for i in insts]
                    + [trig(i) for i in insts])
        # hr2: hold one of the middle instances, then release it or
        # trigger something
        if w.op_count == 0:
            return [('hold', {'tasks': [i]}) for i in insts[1:3]]
        held = dict(w.op_log[0][1])['tasks'][1]
        return [('release', {'tasks': [held]}), trig(held)]

    def factory():
        return EarlyProfile(
            spec, ops=ops, op_budget=2 if mode == 'hr2' else 1,
            monitors=[QueueLimits, PoolInvariants], jump=())
    return factory


def run(ctx: Ctx) -> Result:
    cov_b, vios_b = run_static(ctx)
    specs = catalogue(ctx.tier)
    COUNTS.collect(ctx.scratch)
    st = explore_all(
        ctx, [make_factory(s) for s in specs],
        max_states=ctx.pick(6000, 80000), max_seconds=ctx.pick(400, 3000))
    counts = COUNTS.collect(ctx.scratch)
    if not st.error and not st.violations and not st.capped:
        need = ('releases', 'held_entries_skipped', 'states_at_limit',
                'states_over_limit_by_manual_trigger',
                'releases_filling_last_slot', 'dequeued_not_by_release')
        missing = [k for k in need if not counts.get(k)]
        if missing:
            raise HarnessError(
                f'vacuous dynamic leg: never observed {missing}: {counts}')
        if counts.get('unidentified_queue_events'):
            raise HarnessError(
                'queue events on task states outside the pool: '
                f'{counts}')
    cov_b['monitor_event_counts_incl_prefix_reexecutions'] = counts
    cov_b['reference_memberships_dynamic'] = {
        s['name']: ref_queues(s)[0] for s in specs}
    res = result_from(
        ctx, st, prop='C05',
        bounds={'workflows': [s['name'] for s in specs],
                'operator commands per execution':
                    {s['name']: 2 if s['opmode'] == 'hr2' else 1
                     for s in specs}},
        assumptions=ASSUME, min_states=100, extra_cov=cov_b)
    res.violations = vios_b + res.violations
    return res


def replay(payload):
    if payload.get('leg') == 'static':
        return replay_static(payload)
    specs = {s['name']: s for s in catalogue('thorough')}
    return replay_violation(
        payload, lambda pl: make_factory(specs[pl['spec_name']]))
