"""C37 Template variables survive restart unchanged (Engine B part).

Every Python literal of a bounded grammar is
  1. offered to the real acceptance path  load_template_vars(['K=<text>']),
  2. if accepted, written by the real first-start path
     WorkflowDatabaseManager.on_workflow_start / put_workflow_template_vars /
     process_queued_ops (real DAO, private + public sqlite DB under scratch),
  3. read back by the real restart paths:
       a. Scheduler.load_workflow_params_and_tmpl_vars -> _load_template_vars
          (private DB), with and without variables given again on the CLI,
       b. templatevars.get_template_vars_from_db (public DB),
       c. a second restart after the restored values were written back by
          the restart itself,
  4. compared with the accepted value: same type at every level and same
     value (floats by repr so that -0.0/inf/nan are told apart).

Precedence: every (stored value, CLI value) pair over the atom set, every
subset of keys given again on the command line.
"""
from __future__ import annotations

import itertools
import os
import shutil
from pathlib import Path

from ..core import (
    Ctx, HarnessError, Result, Violation, chunks, pmap, scratch_root, short,
)

LEVEL = 'exploration'

BATCH = 64
MAX_KEPT = 10


# ================================================================== grammar

STRINGS = [
    "''", '""', "'a'", '"a"', "' '", "'a b'", '" lead and trail "',
    '"it\'s"', "'it\\'s'", "'say \"hi\"'", "'both \\' and \"'",
    '"""triple " and \' inside"""', "'back\\\\slash'", "r'raw\\n'",
    "'C:\\\\dir\\\\'", "'\\\\'", "'\\\\n'", "'line\\nbreak'",
    "'tab\\there'", "'nul\\x00byte'", "'\\r\\n'", "'''real\nnewline'''",
    "'\u00e9'", "'\\xe9'", "'\u2603'", "'\\N{SNOWMAN}'", "'\\U0001F600'",
    "'\\ud800'", "'\\u2028'", "'\\x7f'", "'\\x1b[0m'",
    "'#'", "'a=b'", "'K=1'", "'%(x)s'", "'{{ x }}'", "'{% if x %}'",
    "'$HOME'", "'`cmd`'", '"\'\'\'"', "'inf'", "'nan'", "'1'", "'True'",
    "'None'", "'[1, 2]'", "'a' 'b'", "u'uni'", "'" + 'x' * 5000 + "'",
]
BYTES = ["b''", "b'a'", "b'\\xff\\x00'", 'b"it\'s"', "rb'\\n'"]
INTS = [
    '0', '1', '-1', '+7', '0xff', '0o17', '0b101', '1_000',
    '1' + '0' * 30, '-1' + '0' * 30, '18446744073709551616',
    '9' * 4000, '0x1' + '0' * 4000,
]
CONSTS = ['True', 'False', 'None', '...', 'set()']
FLOATS = [
    '0.0', '-0.0', '1.5', '.5', '5.', '-2.5e-7', '1e22', '1e16', '0.1',
    '5e-324', '1e-400', '1.7976931348623157e308', '3.141592653589793',
    '0.30000000000000004', '1E3', '1e999', '-1e999',
]
COMPLEX = ['1j', '1+2j', '1.5-0.5j', '-1j', '-0j', '1e999j', '2-1e999j']

ATOMS = INTS + CONSTS + FLOATS + COMPLEX + STRINGS + BYTES

# representatives used as the *second* element of pairs in the quick tier
REDUCED = ['1', "'x'", '"it\'s"', 'None', '-0.0', 'True', "'\u00e9'", "b'a'",
           '1e999', '(1, 2)', '[]']


def py_eval(src):
    """Python's own evaluator (the reference for what the text means)."""
    return eval(compile(src, '<tvar>', 'eval'),   # noqa: S307 (own inputs)
                {'__builtins__': {}, 'set': set})


def hashable(src):
    try:
        hash(py_eval(src))
    except TypeError:
        return False
    return True


def containers1(elems, seconds):
    """Depth+1 containers over element texts."""
    out = ['[]', '()', '{}']
    for a in elems:
        out += [f'[{a}]', f'({a},)', f'{{"k": {a}}}']
        if hashable(a):
            out += [f'{{{a}}}', f'{{{a}: 1}}']
    for a in elems:
        for b in seconds:
            out += [f'[{a}, {b}]', f'({a}, {b})', f'{{1: {a}, "b": {b}}}']
            if hashable(a) and hashable(b):
                out.append(f'{{{a}, {b}}}')
            if hashable(a):
                out.append(f'{{{a}: {b}}}')
    return out


def sources(ctx: Ctx):
    seconds = REDUCED if ctx.quick else ATOMS
    d1 = containers1(ATOMS, seconds)
    singles1 = containers1(ATOMS, [])
    if ctx.quick:
        d2 = containers1(singles1, ['1', "'x'"])
        out = ATOMS + d1 + d2
    else:
        d2 = containers1(singles1, REDUCED)
        singles2 = containers1(containers1(REDUCED + ['...', '-1e999',
                                                      "'\\ud800'"], []), [])
        d3 = containers1(singles2, ['1', '[1e999]'])
        out = ATOMS + d1 + d2 + d3
    # canonical de-duplication by text, order preserved
    seen = set()
    res = []
    for s in out:
        if s not in seen:
            seen.add(s)
            res.append(s)
    return res


# =================================================================== oracle

def canon(v):
    """Typed canonical form: equal iff identical value and type at every
    level (float by repr; sign of zero in complex components not judged)."""
    t = type(v)
    if t is float:
        return ('float', repr(v))
    if t is complex:
        def nz(x):
            r = repr(x)
            return '0.0' if r == '-0.0' else r
        return ('complex', nz(v.real), nz(v.imag))
    if t is int:
        return ('int', hex(v))     # hex: no interpreter digit limit
    if t in (bool, str, bytes):
        return (t.__name__, v)
    if v is None:
        return ('None',)
    if v is Ellipsis:
        return ('ellipsis',)
    if t in (list, tuple):
        return (t.__name__, tuple(canon(x) for x in v))
    if t in (set, frozenset):
        return (t.__name__, tuple(sorted((canon(x) for x in v), key=repr)))
    if t is dict:
        return ('dict', tuple(sorted(
            ((canon(k), canon(x)) for k, x in v.items()), key=repr)))
    return ('other:' + t.__name__, repr(v))


def first_diff(a, b):
    """Root-cause class of the first difference of two canonical forms."""
    if a == b:
        return None
    if a[0] != b[0]:
        return f'type:{a[0]}->{b[0]}'
    if a[0] in ('list', 'tuple', 'set', 'frozenset'):
        if len(a[1]) != len(b[1]):
            return f'length:{a[0]}'
        for x, y in zip(a[1], b[1]):
            d = first_diff(x, y)
            if d:
                return d
    if a[0] == 'dict':
        if len(a[1]) != len(b[1]):
            return 'length:dict'
        for (k1, v1), (k2, v2) in zip(a[1], b[1]):
            d = first_diff(k1, k2) or first_diff(v1, v2)
            if d:
                return d
    return f'value:{a[0]}'


def leaf_kinds(v, acc=None):
    """Leaves whose repr() is not a Python literal (for signatures)."""
    acc = set() if acc is None else acc
    t = type(v)
    if t is float and repr(v) in ('inf', '-inf', 'nan'):
        acc.add('nonfinite-float')
    elif t is complex and any(
            repr(x) in ('inf', '-inf', 'nan') for x in (v.real, v.imag)):
        acc.add('nonfinite-complex')
    elif v is Ellipsis:
        acc.add('ellipsis')
    elif t in (list, tuple, set, frozenset):
        for x in v:
            leaf_kinds(x, acc)
    elif t is dict:
        for k, x in v.items():
            leaf_kinds(k, acc)
            leaf_kinds(x, acc)
    return acc


def sr(v, n=60):
    """repr that cannot fail (huge ints)."""
    try:
        return short(repr(v), n)
    except ValueError:
        return f'<{type(v).__name__} without repr>'


def unreadable_sig(v0, exc_name):
    """One root cause: the value has a leaf whose repr() is a name, not a
    literal (inf, nan, Ellipsis), so the stored text cannot be evaluated.
    Anything else that cannot be read back gets its own signature."""
    if leaf_kinds(v0):
        return f'restart-unreadable:{exc_name}:stored-repr-is-not-a-literal'
    return f'restart-unreadable:{exc_name}:other:{type(v0).__name__}'


# ========================================================= real code drivers

def accept(src, key='K'):
    """Real CLI acceptance path. -> (status, value)."""
    from cylc.flow.exceptions import InputError
    from cylc.flow.templatevars import load_template_vars
    try:
        res = load_template_vars([f'{key}={src}'])
    except InputError:
        return 'rejected', None
    except Exception as exc:
        return f'rejected:{type(exc).__name__}', None
    if list(res) != [key]:
        raise HarnessError(f'acceptance of {short(src)} gave keys {list(res)}')
    return 'ok', res[key]


def fresh_run_dir(root: Path) -> Path:
    run = Path(root) / f'c37-{os.getpid()}' / 'run'
    shutil.rmtree(run, ignore_errors=True)
    (run / '.service').mkdir(parents=True)
    (run / 'log').mkdir()
    return run


def new_mgr(run: Path):
    from cylc.flow.workflow_db_mgr import WorkflowDatabaseManager
    return WorkflowDatabaseManager(str(run / '.service'), str(run / 'log'))


def store(run: Path, tvars: dict, restart: bool):
    """What the scheduler does with template variables at (re)start."""
    from cylc.flow import __version__ as cylc_version
    mgr = new_mgr(run)
    try:
        if restart:
            mgr.restart_check()
        mgr.on_workflow_start(restart)
        if not restart:
            mgr.put_workflow_params_1(mgr.KEY_CYLC_VERSION, cylc_version)
        mgr.put_workflow_template_vars(tvars)
        mgr.process_queued_ops()
    finally:
        mgr.on_workflow_shutdown()


def restart_load(run: Path, cli_pairs):
    """The scheduler's restart path (private DB, CLI takes precedence)."""
    from cylc.flow.scheduler import Scheduler
    from cylc.flow.templatevars import load_template_vars
    schd = Scheduler.__new__(Scheduler)
    schd.workflow_db_mgr = new_mgr(run)
    schd.template_vars = load_template_vars(list(cli_pairs))
    Scheduler.load_workflow_params_and_tmpl_vars(schd)
    return schd.template_vars


def from_db_load(run: Path):
    from cylc.flow.templatevars import get_template_vars_from_db
    return get_template_vars_from_db(run)


def suspects(run: Path):
    """Keys whose row makes the real per-row callback raise (diagnostic used
    only to partition a batch; verdicts come from the real batch paths)."""
    from cylc.flow.scheduler import Scheduler
    schd = Scheduler.__new__(Scheduler)
    schd.template_vars = {}
    bad = {}

    def cb(i, row):
        try:
            Scheduler._load_template_vars(schd, i, list(row))
        except Exception as exc:
            bad[row[0]] = type(exc).__name__
    with new_mgr(run).get_pri_dao() as dao:
        dao.select_workflow_template_vars(cb)
    return bad


PATHS = ('scheduler-restart', 'get_template_vars_from_db', 'second-restart')


def load_path(run, path, restored_first):
    if path == 'scheduler-restart':
        return restart_load(run, [])
    if path == 'get_template_vars_from_db':
        return from_db_load(run)
    # second restart: the first restart writes what it restored back
    store(run, dict(restored_first), restart=True)
    return restart_load(run, [])


def compare(items, got, path, out):
    for key, src, v0 in items:
        if key not in got:
            out['vio'].append((
                'restored-missing', src,
                f'{short(src, 80)}: variable absent after {path}'))
            continue
        d = first_diff(canon(v0), canon(got[key]))
        if d:
            out['vio'].append((
                f'restored-differs:{d}', src,
                f'{short(src, 80)} accepted as {sr(v0, 80)} '
                f'({type(v0).__name__}) but {path} gives '
                f'{sr(got[key], 80)} ({type(got[key]).__name__})'))
    extra = set(got) - {k for k, _, _ in items}
    if extra:
        raise HarnessError(f'unexpected variables restored: {sorted(extra)}')


def flow(items, root, out):
    """items: [(key, source text, accepted value)]."""
    run = fresh_run_dir(root)
    tvars = {k: v for k, _, v in items}
    try:
        store(run, tvars, restart=False)
    except Exception as exc:
        if len(items) == 1:
            out['rejected_at_store'].append(
                (items[0][1], type(exc).__name__))
            return
        mid = len(items) // 2
        flow(items[:mid], root, out)
        flow(items[mid:], root, out)
        return
    out['dbs'] += 1
    if len(items) > 1:
        bad = suspects(run)
        if bad:
            flow([it for it in items if it[0] not in bad], root, out)
            for it in items:
                if it[0] in bad:
                    flow([it], root, out)
            return
    restored = {}
    for path in PATHS:
        try:
            got = load_path(run, path, restored)
        except Exception as exc:
            if len(items) > 1:
                mid = len(items) // 2
                flow(items[:mid], root, out)
                flow(items[mid:], root, out)
                return
            key, src, v0 = items[0]
            out['vio'].append((
                unreadable_sig(v0, type(exc).__name__), src,
                f'-s X={short(src, 80)} is accepted (as {sr(v0, 60)}; repr '
                f'{sr(v0, 60)!r}) but {path} raises '
                f'{type(exc).__name__}: {short(str(exc), 80)} '
                f'(leaves: {sorted(leaf_kinds(v0))})'))
            if path == 'scheduler-restart':
                restored = dict(tvars)   # lets the later paths be tried
            continue
        if path == 'scheduler-restart':
            restored = got
        compare(items, got, path, out)
    for key, src, v0 in items:
        out['judged'] += 1


def rt_work(job):
    root, srcs = job
    out = {'vio': [], 'rejected_at_store': [], 'dbs': 0, 'judged': 0,
           'rejected': 0, 'accept_differs': [], 'nontrivial': set(),
           'types': {}}
    items = []
    for i, src in enumerate(srcs):
        st, v0 = accept(src)
        if st != 'ok':
            out['rejected'] += 1
            continue
        if first_diff(canon(py_eval(src)), canon(v0)):
            out['accept_differs'].append(src)
        try:
            text = repr(v0)
        except Exception:
            text = None
        if text is not None and text != src.strip():
            out['nontrivial'].add(text)
        tn = type(v0).__name__
        out['types'][tn] = out['types'].get(tn, 0) + 1
        items.append((f'V{i}', src, v0))
    for i in range(0, len(items), BATCH):
        flow(items[i:i + BATCH], root, out)
    shutil.rmtree(Path(root) / f'c37-{os.getpid()}', ignore_errors=True)
    out['nontrivial'] = sorted(out['nontrivial'])
    return out


# =============================================================== precedence

def prec_cases(ctx: Ctx):
    S = ATOMS + ['[]', '{}', '()', '[1, 2]', '{"a": None}', '(0,)']
    return [s for s in S if s not in ('0x1' + '0' * 4000,)]


def prec_verdict(stored, cli_keys, cli_val, got, new_key):
    """stored: {key: v0}; keys in cli_keys were given again as cli_val."""
    res = []
    for key, v0 in stored.items():
        want = cli_val if key in cli_keys else v0
        if key not in got:
            res.append(('restored-missing', f'{key} absent after restart'))
            continue
        d = first_diff(canon(want), canon(got[key]))
        if not d:
            continue
        if key in cli_keys:
            falsy = 'falsy' if not cli_val else 'truthy'
            if first_diff(canon(v0), canon(got[key])) is None:
                res.append((
                    f'cli-value-overridden-by-stored:{falsy}-cli-value',
                    f'{key} given again on the command line as '
                    f'{sr(cli_val, 60)} but the restart uses the stored '
                    f'{sr(v0, 60)}'))
            else:
                res.append((
                    f'cli-value-changed:{d}',
                    f'{key} given on the command line as '
                    f'{sr(cli_val, 60)} became {sr(got[key], 60)}'))
        else:
            res.append((
                f'restored-differs:{d}',
                f'{key} stored as {sr(v0, 60)} restored as '
                f'{sr(got[key], 60)} when other keys are overridden'))
    if new_key:
        if new_key not in got or first_diff(
                canon(cli_val), canon(got[new_key])):
            res.append(('cli-only-variable-lost',
                        f'{new_key} given only at restart is '
                        f'{sr(got.get(new_key, "<absent>"), 60)}'))
    return res


def storable(tvars, root):
    """The sub-dict of tvars the first-start path can write (a value whose
    storing raises never was 'accepted at first start')."""
    if not tvars:
        return {}
    try:
        store(fresh_run_dir(root), tvars, restart=False)
        return dict(tvars)
    except Exception:
        if len(tvars) == 1:
            return {}
    items = list(tvars.items())
    mid = len(items) // 2
    res = storable(dict(items[:mid]), root)
    res.update(storable(dict(items[mid:]), root))
    return res


def prec_work(job):
    root, mode, stored_srcs, cli_srcs = job
    out = {'vio': [], 'evals': 0, 'restarts': 0}
    stored = {}
    keysrc = {}
    for i, s in enumerate(stored_srcs):
        st, v = accept(s)
        if st == 'ok':
            stored[f'P{i}'] = v
            keysrc[f'P{i}'] = s
    stored = storable(stored, root)
    run = fresh_run_dir(root)
    store(run, stored, restart=False)
    keys = list(stored)
    for c in cli_srcs:
        st, cv = accept(c)
        if st != 'ok':
            continue
        if mode == 'all':
            subsets = [keys]
        else:
            subsets = [list(x) for r in range(len(keys) + 1)
                       for x in itertools.combinations(keys, r)]
        for sub in subsets:
            pairs = [f'{k}={c}' for k in sub] + [f'NEW={c}']
            try:
                got = restart_load(run, pairs)
            except Exception as exc:
                out['vio'].append((
                    f'restart-with-cli-raises:{type(exc).__name__}',
                    {'leg': 'precedence', 'stored': keysrc, 'cli': c,
                     'cli_keys': sub},
                    f'restart with {short(pairs, 100)} raises '
                    f'{type(exc).__name__}: {short(str(exc), 80)}'))
                continue
            out['restarts'] += 1
            out['evals'] += len(keys) + 1
            for sig, what in prec_verdict(stored, sub, cv, got, 'NEW'):
                out['vio'].append((
                    sig, {'leg': 'precedence', 'stored': keysrc, 'cli': c,
                          'cli_keys': sub}, what))
    shutil.rmtree(Path(root) / f'c37-{os.getpid()}', ignore_errors=True)
    return out


# ====================================================================== run

def run(ctx: Ctx) -> Result:
    root = str(ctx.scratch)
    import cylc.flow.scheduler  # noqa: F401 (import once, before forking)
    srcs = sources(ctx)
    nchunks = max(1, ctx.workers * 3)
    res = pmap(rt_work, [(root, c) for c in chunks(srcs, nchunks)],
               ctx.workers)
    vio = {}
    vio_n = {}
    rejected = judged = dbs = 0
    rej_store = []
    accept_differs = []
    nontrivial = set()
    types = {}

    def add(sig, payload, what):
        vio_n[sig] = vio_n.get(sig, 0) + 1
        if len(vio.setdefault(sig, [])) < MAX_KEPT:
            vio[sig].append((payload, what))

    for o in res:
        rejected += o['rejected']
        judged += o['judged']
        dbs += o['dbs']
        rej_store += o['rejected_at_store']
        accept_differs += o['accept_differs']
        nontrivial.update(o['nontrivial'])
        for k, n in o['types'].items():
            types[k] = types.get(k, 0) + n
        for sig, src, what in o['vio']:
            add(sig, {'leg': 'roundtrip', 'source': src}, what)

    # precedence: every (stored, cli) pair over the atoms, all keys given
    # again; then every subset of 4 benign keys x representative CLI values
    P = prec_cases(ctx)
    # stored values that cannot be read back make every restart fail; they
    # are reported by the round-trip leg and kept out of the stored side of
    # the subset leg (in the 'all' leg every stored value is overridden and
    # therefore never read).
    jobs = [(root, 'all', P, c) for c in chunks(P, nchunks)]
    reps = ['0', "''", 'None', 'False', '[]', '{}', "'cli'", '2', '0.0',
            "b''", '()'] if ctx.quick else P
    benign = ['1', "'x'", 'None', '[1, 2]']
    jobs += [(root, 'subsets', benign, c) for c in chunks(reps, nchunks)]
    p_evals = p_restarts = 0
    for o in pmap(prec_work, jobs, ctx.workers):
        p_evals += o['evals']
        p_restarts += o['restarts']
        for sig, payload, what in o['vio']:
            add(sig, payload, what)

    if judged < 100 or len(nontrivial) < 50 or p_evals < 100 or \
            len(types) < 8:
        raise HarnessError(
            f'vacuous: judged={judged} nontrivial={len(nontrivial)} '
            f'precedence={p_evals} types={types}')
    if accept_differs:
        raise HarnessError(
            'acceptance path disagrees with Python on the meaning of '
            f'{short(accept_differs[:3])} (not a C37 verdict)')

    vios = []
    for sig in sorted(vio):
        # simplest input first (it becomes the replay file)
        vio[sig].sort(key=lambda pw: len(str(pw[0].get('source', ''))))
        for payload, what in vio[sig]:
            vios.append(Violation(
                sig, f'{what} [{vio_n[sig]} case(s) in total]', payload))
    cov = {
        'evaluations': judged + p_evals,
        'distinct_nontrivial': len(nontrivial),
        'rule': (
            'one evaluation = one accepted literal written by the real '
            'first-start DB path and read back by three real restart paths '
            '(scheduler restart, get_template_vars_from_db, second restart), '
            'or one (stored value, CLI value, key) of the precedence leg; '
            'non-trivial = distinct stored texts that differ from the text '
            'typed by the user (the round trip is not a textual identity)'),
        'literal_sources': len(srcs),
        'atoms': len(ATOMS),
        'accepted_and_judged': judged,
        'rejected_by_cylc_not_judged': rejected,
        'accepted_but_store_raises_not_judged': [
            (short(s, 40), e) for s, e in rej_store[:5]],
        'accepted_but_store_raises_count': len(rej_store),
        'accepted_value_types': types,
        'sqlite_dbs_written': dbs,
        'precedence_restarts': p_restarts,
        'precedence_evaluations': p_evals,
        'violating_cases_by_signature': vio_n,
        'samples': [
            {'source': short(s, 60)} for s in
            srcs[:: max(1, len(srcs) // 10)][:10]],
        'exhaustive': True,
        'bounds': (
            'atoms x containers (list, tuple, set, dict key/value) of 0-2 '
            'elements, depth 2 (quick) / 3 (thorough); second elements from '
            'a reduced atom set in quick'),
    }
    return Result(cov, vios, assumptions=[
        'Engine-B part only: the DB is written and read through the real '
        'WorkflowDatabaseManager/DAO/Scheduler methods on a stub Scheduler '
        'object; no scheduler main loop is run (the A leg is out of scope '
        'here)',
        'the accepted value (what load_template_vars returned at first '
        'start) is the reference; it is additionally cross-checked against '
        "Python's own eval of the text",
        'identical = same type at every nesting level and equal value; '
        'floats compared by repr (sign of zero, inf); the sign of a zero '
        'component of a complex number is not judged (Python cannot express '
        'it as a literal); dict/set order not judged',
        'a value that is accepted by the parser but makes the first start '
        'itself fail (repr() of an int beyond the interpreter digit limit) '
        'is counted, not judged',
        'nan is not reachable through literals and is not enumerated',
        'only -s KEY=VALUE variables; -S files and -z lists share eval_var/'
        'the same DB path and are not enumerated separately',
    ])


# =================================================================== replay

def replay(payload):
    root = scratch_root()
    out = {'vio': [], 'rejected_at_store': [], 'dbs': 0, 'judged': 0}
    if payload['leg'] == 'roundtrip':
        src = payload['source']
        st, v0 = accept(src)
        if st != 'ok':
            return []
        flow([('V0', src, v0)], root, out)
        vs = [(sig, what) for sig, _, what in out['vio']]
    else:
        stored = {}
        for k, s in payload['stored'].items():
            st, v = accept(s)
            if st == 'ok':
                stored[k] = v
        st, cv = accept(payload['cli'])
        stored = storable(stored, root)
        run = fresh_run_dir(root)
        store(run, stored, restart=False)
        pairs = [f'{k}={payload["cli"]}' for k in payload['cli_keys']]
        pairs.append(f'NEW={payload["cli"]}')
        try:
            got = restart_load(run, pairs)
            vs = prec_verdict(stored, payload['cli_keys'], cv, got, 'NEW')
        except Exception as exc:
            vs = [(f'restart-with-cli-raises:{type(exc).__name__}',
                   str(exc))]
    shutil.rmtree(Path(root) / f'c37-{os.getpid()}', ignore_errors=True)
    seen = set()
    res = []
    for sig, what in vs:
        if sig not in seen:
            seen.add(sig)
            res.append(Violation(sig, what, payload))
    return res
