"""C08: flow numbers propagate, merge and are never reused.

`RefFlows` is a reference written from the property statement:

* every number handed out for ``--flow=new`` while an operator command is
  being processed must be absent from the monitor's *ever-seen* set (the set
  lives in the monitor, which survives scheduler restarts, and is part of
  ``key()``);
* at every ``spawn_on_output`` (a task spawning / updating its graph children,
  children taken from the catalogue *term*) a newly spawned child carries
  exactly the parent's flow numbers and a child that already existed belongs
  to the union afterwards; the same for the retro-active spawning done by
  ``spawn_on_all_outputs`` and for every ``merge_flows``;
* an instance the monitor has recorded as finished-and-complete in flow f
  (it left the pool succeeded and complete while carrying f) that is spawned
  again carrying f - other than as the direct target of an operator command -
  must never be submitted (``tainted`` set, normally empty).
"""
from __future__ import annotations

import json
import os
from typing import Dict, FrozenSet, List, Optional, Set, Tuple

from .catalogue import RefGraph
from .profile import Monitor, OpProfile
from .world import World, _CUR

Inst = Tuple[str, str]          # (name, point-string)


# ---------------------------------------------------------------------------
# counters shared across search workers through per-process files

class Counters:
    """Measured event counters; each process flushes to its own file."""

    def __init__(self, prefix: str):
        self.prefix = prefix
        self.c: Dict[str, int] = {}
        self.pid = None

    def inc(self, k: str, n: int = 1) -> None:
        if self.pid != os.getpid():
            self.pid = os.getpid()      # forked: start from zero
            self.c = {}
        self.c[k] = self.c.get(k, 0) + n

    def flush(self) -> None:
        if not self.c or self.pid != os.getpid():
            return
        from ..core import scratch_root
        d = scratch_root() / 'counters'
        d.mkdir(parents=True, exist_ok=True)
        tmp = d / f'.{self.prefix}-{self.pid}.tmp'
        tmp.write_text(json.dumps(self.c))
        os.replace(tmp, d / f'{self.prefix}-{self.pid}.json')

    def collect(self) -> Dict[str, int]:
        from ..core import scratch_root
        d = scratch_root() / 'counters'
        out: Dict[str, int] = {}
        if d.is_dir():
            for f in sorted(d.glob(f'{self.prefix}-*.json')):
                for k, v in json.loads(f.read_text()).items():
                    out[k] = out.get(k, 0) + v
        return out

    def clear(self) -> None:
        from ..core import scratch_root
        d = scratch_root() / 'counters'
        if d.is_dir():
            for f in d.glob(f'{self.prefix}-*.json'):
                f.unlink()
        self.c = {}


COUNT = Counters('c08')


# ---------------------------------------------------------------------------
# extra observation funnels (transparent wrappers, installed once)

_WRAPPED = False


def _pool_flows(pool) -> Dict[Inst, FrozenSet[int]]:
    return {
        (t.tdef.name, str(t.point)): frozenset(t.flow_nums)
        for bucket in pool.active_tasks.values() for t in bucket.values()}


def wrap_c08() -> None:
    global _WRAPPED
    if _WRAPPED:
        return
    _WRAPPED = True
    from cylc.flow.flow_mgr import FlowMgr
    from cylc.flow.task_pool import TaskPool
    from cylc.flow.scheduler import Scheduler

    o_get = FlowMgr.get_flow

    def get_flow(self, flow_num=None, meta=None):
        ret = o_get(self, flow_num, meta)
        w = _CUR[0]
        if w is not None:
            w.emit('flow_alloc', requested=flow_num, got=ret)
        return ret
    FlowMgr.get_flow = get_flow

    o_soo = TaskPool.spawn_on_output

    def spawn_on_output(self, itask, output, *a, **kw):
        w = _CUR[0]
        if w is None:
            return o_soo(self, itask, output, *a, **kw)
        before = _pool_flows(self)
        pf = frozenset(itask.flow_nums)
        fw = bool(itask.flow_wait)
        ret = o_soo(self, itask, output, *a, **kw)
        w.emit('spawned', parent=(itask.tdef.name, str(itask.point)),
               output=output, pflows=pf, flow_wait=fw, before=before,
               after=_pool_flows(self))
        return ret
    TaskPool.spawn_on_output = spawn_on_output

    o_soao = TaskPool.spawn_on_all_outputs

    def spawn_on_all_outputs(self, itask, *a, **kw):
        w = _CUR[0]
        if w is None:
            return o_soao(self, itask, *a, **kw)
        before = _pool_flows(self)
        pf = frozenset(itask.flow_nums)
        ret = o_soao(self, itask, *a, **kw)
        w.emit('retro_spawned', parent=(itask.tdef.name, str(itask.point)),
               pflows=pf, before=before, after=_pool_flows(self))
        return ret
    TaskPool.spawn_on_all_outputs = spawn_on_all_outputs

    o_merge = TaskPool.merge_flows

    def merge_flows(self, itask, flow_nums, *a, **kw):
        w = _CUR[0]
        b = frozenset(itask.flow_nums)
        add = frozenset(flow_nums)
        ret = o_merge(self, itask, flow_nums, *a, **kw)
        if w is not None:
            w.emit('merge', inst=(itask.tdef.name, str(itask.point)),
                   before=b, merged=add, after=frozenset(itask.flow_nums))
        return ret
    TaskPool.merge_flows = merge_flows

    o_pcq = Scheduler.process_command_queue

    async def process_command_queue(self):
        w = _CUR[0]
        if w is not None and self.command_queue.qsize():
            w.emit('cmd_begin')
        return await o_pcq(self)
    Scheduler.process_command_queue = process_command_queue


def _targets(kwargs) -> List[Inst]:
    out = []
    for tid in kwargs.get('tasks', []) or []:
        parts = tid.split('/')
        if len(parts) >= 2:
            out.append((parts[1].split(':')[0], parts[0]))
    return out


def _fs(x) -> str:
    return '{' + ','.join(str(i) for i in sorted(x)) + '}'


# ---------------------------------------------------------------------------
class RefFlows(Monitor):
    name = 'ref-flows'

    def __init__(self):
        self.bad: List[dict] = []
        self.ever: Set[int] = {1}        # the original flow is number 1
        self.done: Dict[Inst, Set[int]] = {}
        self.tainted: Dict[Inst, FrozenSet[int]] = {}
        self.pending_cmd: Optional[tuple] = None
        self.in_cmd: Optional[tuple] = None
        self.down = False
        self.ref: Optional[RefGraph] = None

    def attach(self, w: World) -> None:
        wrap_c08()
        super().attach(w)
        s = w.spec
        self.ref = RefGraph(s['sections'], s['icp'], s['fcp'])
        for t in w.schd.pool.get_tasks():
            self.ever.update(t.flow_nums)
        COUNT.flush()

    def key(self):
        return (
            tuple(sorted(self.ever)),
            tuple(sorted((k, tuple(sorted(v)))
                         for k, v in self.done.items() if v)),
            tuple(sorted((k, tuple(sorted(v)))
                         for k, v in self.tainted.items())),
        )

    # ------------------------------------------------------------ events
    def on_event(self, kind: str, data: dict) -> None:
        fn = getattr(self, 'ev_' + kind, None)
        if fn is not None:
            fn(data)

    def ev_finished(self, data):
        self.down = True
        self.pending_cmd = None       # a queued command dies with the process
        self.in_cmd = None

    def ev_started(self, data):
        self.down = False
        if data.get('restart'):
            COUNT.inc('restarts')

    def ev_command(self, data):
        ok = bool(data['result'][0]) if data.get('result') else False
        if ok:
            self.pending_cmd = (data['name'], data['kwargs'])
        else:
            COUNT.inc('commands-rejected')

    def ev_cmd_begin(self, data):
        self.in_cmd = self.pending_cmd

    def ev_cmd_processed(self, data):
        cmd, self.in_cmd, self.pending_cmd = self.in_cmd, None, None
        if cmd is None:
            return
        name, kw = cmd
        flow = list(kw.get('flow') or [])
        COUNT.inc(f'processed:{name}:flow={",".join(flow) or "default"}'
                  f'{":wait" if kw.get("flow_wait") else ""}')
        if name == 'force_trigger_tasks' and flow != ['none']:
            # a manual trigger re-runs its targets: their record in the
            # triggered flows no longer counts (all of it when the flows
            # are the implicit "all active" ones)
            for inst in _targets(kw):
                if flow and all(f.isdigit() for f in flow):
                    self.done.get(inst, set()).difference_update(
                        int(f) for f in flow)
                else:
                    self.done.pop(inst, None)
                self.tainted.pop(inst, None)

    def ev_flow_alloc(self, data):
        got = data['got']
        if data['requested'] is None:
            if self.in_cmd is not None:
                COUNT.inc('new-flow-allocations')
                if self.w.n_restarts:
                    COUNT.inc('new-flow-allocations-after-restart')
                if got in self.ever:
                    when = ('after-restart' if self.w.n_restarts
                            else 'same-run')
                    live = ('still-in-pool' if any(
                        got in t.flow_nums
                        for t in self.w.schd.pool.get_tasks())
                        else 'no-longer-in-pool')
                    self.bad.append(self.viol(
                        f'new-flow-number-reused:{when}:{live}',
                        f'--flow=new was given flow number {got}, which was '
                        f'already used in this workflow (numbers seen so far:'
                        f' {sorted(self.ever)}; restarts so far: '
                        f'{self.w.n_restarts})'))
        elif got != data['requested']:
            self.bad.append(self.viol(
                'explicit-flow-number-changed',
                f"--flow={data['requested']} was recorded as flow {got}"))
        self.ever.add(got)

    def _children(self, parent: Inst, output: Optional[str]) -> Set[Inst]:
        name, p = parent
        outs = [output] if output is not None else [
            'submitted', 'started', 'succeeded', 'failed', 'submit-failed',
            'expired']
        kids: Set[Inst] = set()
        for o in outs:
            kids.update((t, str(q))
                        for t, q in self.ref.children((name, int(p), o)))
        return kids

    def ev_spawned(self, data):
        pf = data['pflows']
        if not pf or data['flow_wait'] or self.down:
            return          # no-flow / waiting parents do not flow on
        before, after = data['before'], data['after']
        parent = data['parent']
        for c in sorted(self._children(parent, data['output'])):
            if c != parent and c not in after and c not in before and (
                    pf & frozenset(self.done.get(c, ()))):
                # the flow reached a finished task again: not respawned
                COUNT.inc('finished-child-not-respawned')
            if c == parent or c not in after:
                continue
            if c not in before:
                COUNT.inc('children-spawned')
                if len(pf) > 1:
                    COUNT.inc('children-spawned-by-multi-flow-parent')
                if after[c] != pf:
                    what = ('lost' if not pf <= after[c] else 'gained')
                    self.bad.append(self.viol(
                        f'spawned-child-flows-differ:{what}',
                        f'{parent[1]}/{parent[0]}:{data["output"]} in flows '
                        f'{_fs(pf)} spawned {c[1]}/{c[0]} with flows '
                        f'{_fs(after[c])}'))
            else:
                want = before[c] | pf
                if want != before[c]:
                    COUNT.inc('children-merged')
                if after[c] != want:
                    what = ('lost' if not want <= after[c] else 'gained')
                    self.bad.append(self.viol(
                        f'merged-child-not-union:{what}',
                        f'{parent[1]}/{parent[0]}:{data["output"]} in flows '
                        f'{_fs(pf)} reached existing {c[1]}/{c[0]} '
                        f'{_fs(before[c])}: it now has {_fs(after[c])}, '
                        f'the union is {_fs(want)}'))

    def ev_retro_spawned(self, data):
        pf = data['pflows']
        if not pf or self.down:
            return
        before, after = data['before'], data['after']
        parent = data['parent']
        for c in sorted(self._children(parent, None)):
            if c in after and c not in before:
                COUNT.inc('children-retro-spawned')
                if after[c] != pf:
                    what = ('lost' if not pf <= after[c] else 'gained')
                    self.bad.append(self.viol(
                        f'retro-spawned-child-flows-differ:{what}',
                        f'{parent[1]}/{parent[0]} in flows {_fs(pf)} '
                        f'retro-actively spawned {c[1]}/{c[0]} with flows '
                        f'{_fs(after[c])}'))

    def ev_merge(self, data):
        b, m, a = data['before'], data['merged'], data['after']
        if m and a != b | m:
            what = ('lost' if not (b | m) <= a else 'gained')
            inst = data['inst']
            self.bad.append(self.viol(
                f'merge-not-union:{what}',
                f'{inst[1]}/{inst[0]} {_fs(b)} merged with {_fs(m)} now '
                f'belongs to {_fs(a)}'))
        if m and not m <= b:
            COUNT.inc('merges')

    def ev_add(self, data):
        it = data['itask']
        inst = (it.tdef.name, str(it.point))
        self.ever.update(it.flow_nums)
        if self.down:
            return           # restart: the pool is being loaded back
        targets = _targets(self.in_cmd[1]) if self.in_cmd else []
        if inst in targets:
            return           # manual intervention on this very instance
        hit = frozenset(it.flow_nums) & frozenset(self.done.get(inst, ()))
        if hit:
            self.tainted[inst] = hit

    def ev_remove(self, data):
        it = data['itask']
        inst = (it.tdef.name, str(it.point))
        if self.down:
            return
        if it.state.status == 'succeeded' and it.state.outputs.is_complete():
            if it.flow_nums:
                self.done.setdefault(inst, set()).update(it.flow_nums)
                COUNT.inc('finished-complete-recorded')
        if self.w.schd.pool._get_task_by_id(it.identity) is it:
            self.tainted.pop(inst, None)

    def ev_cmd_start(self, data):
        if data['kind'] != 'jobs-submit':
            return
        for (p, name, num) in data['jobs']:
            inst = (name, p)
            if self.done.get(inst):
                COUNT.inc('submissions-of-previously-finished-instances')
            hit = self.tainted.get(inst)
            if hit:
                self.bad.append(self.viol(
                    'finished-complete-task-rerun-in-same-flow',
                    f'{p}/{name} (submit #{num}) was finished and complete '
                    f'in flow(s) {_fs(hit)}; it was spawned again carrying '
                    'those flows and submitted without being manually '
                    'triggered'))

    # -------------------------------------------------------------- steps
    def after(self, w: World, ev: tuple) -> List[dict]:
        out, self.bad = self.bad, []
        if w.running:
            for t in w.schd.pool.get_tasks():
                self.ever.update(t.flow_nums)
        return out

    def terminal(self, w: World, kind: str) -> List[dict]:
        COUNT.inc('terminals')
        COUNT.flush()
        return []


class FlowProfile(OpProfile):
    """Operator alphabet indexed by the number of commands already given.

    whens[i] restricts where command i+1 is offered: 'any' = every main-loop
    boundary; 'early' = only before the first job has been launched;
    'after-restart' = only once the scheduler has been restarted.
    """

    def __init__(self, spec, *, op_lists, whens=None,
                 stop_between_only=True, pre_boot=None, **kw):
        self.pre_boot = pre_boot or wrap_c08
        self.op_lists = op_lists
        self.whens = list(whens or ['any'] * len(op_lists))
        # a restart after the last command cannot be followed by a new flow:
        # offer stop only between commands
        self.stop_between_only = stop_between_only

        def ops(w):
            i = w.op_count
            if i >= len(self.op_lists):
                return []
            when = self.whens[i]
            if when == 'early' and w.env.jobs:
                return []
            if when == 'after-restart' and not w.n_restarts:
                return []
            return self.op_lists[i]
        super().__init__(spec, ops=ops, op_budget=len(op_lists), **kw)

    def make_world(self):
        # TaskPool.__init__ hands the *bound* spawn_on_output to the task
        # events manager: the wrappers must exist before the first boot
        self.pre_boot()
        return super().make_world()

    def operator_events(self, w):
        out = super().operator_events(w)
        if self.stop_between_only and w.op_count >= self.op_budget:
            out = [e for e in out if e[0] != 'stop']
        return out
