"""C09: status transitions follow the lifecycle; outputs are monotone;
succeeded|failed complete implies submitted & started complete.

The transition table is written from the property statement:

    waiting -> preparing -> submitted -> running -> succeeded | failed
    (forward moves only; from preparing on, stages may be skipped when a
     later message overtakes an earlier one; the order may never be
     reversed; waiting is only left for preparing or expired)
    submit-failed   only after preparing or submitted
    expired         only from waiting
    -> waiting      only for an automatic retry: the instance's latest job
                    really failed (or failed to submit) and the configured
                    retries of that kind are not used up

The retry clause is judged against the environment's ground truth
(`World.env.jobs`) and the workflow spec, not against cylc's timers.
"""
from __future__ import annotations

from typing import Dict, List, Optional, Set, Tuple

from .mon_c10 import (
    POLLED, STD, bump, completed, flush_counters, instance_jobs,
    note_example)
from .monitors import retries_of
from .profile import Monitor
from .world import World

RANK = {'waiting': 0, 'preparing': 1, 'submitted': 2, 'running': 3,
        'succeeded': 4, 'failed': 4}


def legal_forward(b: str, a: str) -> bool:
    """Statement, first sentence (everything except the return to
    waiting)."""
    if a == 'expired':
        return b == 'waiting'
    if a == 'submit-failed':
        return b in ('preparing', 'submitted')
    if b == 'waiting':
        # a waiting task has no job: no message can overtake anything
        return a == 'preparing'
    if b in RANK and a in RANK and a != 'waiting':
        return RANK[a] > RANK[b]
    return False


def retry_due(w: World, point: str, name: str) -> Optional[str]:
    """'exec' / 'sub' if an automatic retry of the instance is justified by
    what its jobs really did, else None."""
    jobs = instance_jobs(w, point, name)
    if not jobs:
        return None
    n_exec, n_sub = retries_of(w.spec, name)
    last = jobs[-1]
    if last.state == 'failed':
        nfail = sum(1 for j in jobs if j.state == 'failed')
        return 'exec' if nfail <= n_exec else None
    if last.state == 'submit-failed':
        run = 0
        for j in reversed(jobs):
            if j.state != 'submit-failed':
                break
            run += 1
        return 'sub' if run <= n_sub else None
    return None


def poll_staleness(w: World, it, message: str, num: int) -> str:
    """Was a polled message still true when it reached the scheduler?
    (ground truth: the environment's job)"""
    job = w.env.jobs.get((str(it.point), it.tdef.name, num))
    if job is None:
        return 'unknown-job'
    behind = {
        'submitted': ('running', 'succeeded', 'failed'),
        'started': ('succeeded', 'failed'),
    }.get(message, ())
    return 'stale-poll-result' if job.state in behind else (
        'current-poll-result')


class LifecycleStrict(Monitor):
    """`tolerate`: signatures of known defects; they are recorded (first
    example each) instead of being returned, so that the exploration goes
    on behind them."""
    name = 'lifecycle-strict'

    def __init__(self, tolerate: Tuple[str, ...] = ()):
        self.bad: List[dict] = []
        self.prev: Dict[Tuple[str, str], Set[str]] = {}
        self.tolerate = tuple(tolerate)
        self.cause = 'no-message'

    def _cause(self, data: dict) -> str:
        """What the scheduler was processing when a status changed."""
        flag = data['flag'].strip('()')
        msg = data['message'].split('/')[0]
        if msg not in STD and msg != 'submission failed':
            msg = 'custom'
        c = f'{flag}-{msg.replace(" ", "-")}'
        if data['flag'] == POLLED:
            c += ':' + poll_staleness(
                self.w, data['itask'], data['message'], data['submit_num'])
        return c

    # ----------------------------------------------------------- helpers
    def _pool_proxy(self, state):
        w = self.w
        pool = getattr(w.schd, 'pool', None)
        if pool is None:
            return None
        for bucket in pool.active_tasks.values():
            for t in bucket.values():
                if t.state is state:
                    return t
        return None

    def _check_outputs(self, where: str, implied: bool) -> None:
        w = self.w
        pool = getattr(w.schd, 'pool', None)
        if pool is None or not w.running:
            return
        for bucket in pool.active_tasks.values():
            for it in bucket.values():
                ident = (str(it.point), it.tdef.name)
                comp = set(completed(it))
                prev = self.prev.get(ident)
                if prev is not None and not prev <= comp:
                    self.bad.append(self.viol(
                        'output-uncompleted:'
                        + ','.join(sorted(prev - comp)),
                        f'{it.identity}: outputs {sorted(prev - comp)} were '
                        f'complete and are no longer ({where})'))
                self.prev[ident] = comp
                if implied and ({'succeeded', 'failed'} & comp):
                    bump('implied-checked')
                    if not {'submitted', 'started'} <= comp:
                        fin = sorted({'succeeded', 'failed'} & comp)
                        miss = sorted({'submitted', 'started'} - comp)
                        self.bad.append(self.viol(
                            f'implied-outputs-missing:{",".join(fin)}:'
                            f'without:{",".join(miss)}',
                            f'{it.identity}: {fin} complete but {miss} '
                            f'are not ({where}; completed {sorted(comp)})'))

    # ------------------------------------------------------------ events
    def on_event(self, kind: str, data: dict) -> None:
        if kind == 'remove':
            it = data['itask']
            # the statement speaks of instances *in the pool*
            self._check_outputs('before removal', False)
            self.prev.pop((str(it.point), it.tdef.name), None)
            return
        if kind == 'pm_begin':
            self.cause = self._cause(data)
            return
        if kind == 'pm_end':
            self.cause = 'no-message'
            if len(set(data['after'][1]) & set(STD)) - len(
                    set(data['before'][1]) & set(STD)) >= 2:
                bump('implied-by-later-message')
            self._check_outputs(f"after message {data['message']!r} "
                                f"{data['flag']}", True)
            return
        if kind == 'output':
            self._check_outputs('at an output completion', False)
            return
        if kind != 'reset':
            return
        b, a = data['before'][0], data['after'][0]
        if b == a:
            return
        self._check_outputs('at a status change', False)
        it = self._pool_proxy(data['state'])
        if it is None:
            bump('reset-outside-pool')
            bump(f'reset-outside-pool:{b}->{a}')
            return
        bump('transitions')
        bump(f'tr:{b}->{a}')
        point, name = str(it.point), it.tdef.name
        if a == 'waiting':
            why = retry_due(self.w, point, name)
            if why is None:
                jobs = [(j.key[2], j.state)
                        for j in instance_jobs(self.w, point, name)]
                self.bad.append(self.viol(
                    f'return-to-waiting-without-retry:{b}->waiting:on-'
                    f'{self.cause}',
                    f'{it.identity}: status {b} -> waiting but no automatic '
                    f'retry is due (jobs {jobs}, configured retries '
                    f'exec/sub {retries_of(self.w.spec, name)})'))
            else:
                bump(f'retry:{why}')
            return
        if not legal_forward(b, a):
            self.bad.append(self.viol(
                f'illegal-transition:{b}->{a}:on-{self.cause}',
                f'{it.identity}: status changed {b} -> {a} (while '
                f'processing {self.cause}), which is not a move along the '
                'lifecycle'))

    # -------------------------------------------------------- transition
    def after(self, w: World, ev: tuple) -> List[dict]:
        self._check_outputs(f'after {ev[0]}', True)
        seen = set()
        out = []
        for v in self.bad:
            if v['signature'] in seen:
                continue
            seen.add(v['signature'])
            if v['signature'] in self.tolerate:
                note_example(v['signature'], v['what'], w)
            else:
                out.append(v)
        self.bad = []
        if not w.running:
            self.prev = {}
        flush_counters()
        return out

    def terminal(self, w: World, kind: str) -> List[dict]:
        flush_counters()
        return []
