"""C07 monitors/profile: the stop-point clause and out-of-bounds operator
requests (the pool-add clause itself is `monitors.CycleBounds`).

Reference (from the statement only): a stop point is *in effect* from the
start when the workflow configures one (`stop after cycle point`, `--stopcp`)
and from the moment the scheduler has processed a `stop --cycle-point`
command; the latest one wins.  While a stop point SP is in effect no instance
with point > SP may enter job preparation / have a job submitted unless an
operator `trigger` named exactly that instance.
"""
from __future__ import annotations

from typing import List, Optional, Set, Tuple

from .monitors import _proxy_of_state
from .profile import Monitor, OpProfile
from .world import World


def _ids(kwargs) -> List[Tuple[str, str]]:
    out = []
    for tid in kwargs.get('tasks', []) or []:
        parts = tid.split('/')
        if len(parts) >= 2:
            out.append((parts[1].split(':')[0], parts[0]))
    return out


class StopPoint(Monitor):
    name = 'stop-point'

    def __init__(self):
        self.bad: List[dict] = []
        self.SP: Optional[int] = None
        self.manual: Set[Tuple[str, str]] = set()     # (name, point)
        # in the submission pipeline when the stop point took effect
        self.exempt: Set[Tuple[str, str]] = set()
        # queued (waiting for a queue slot) when the stop point took effect
        self.wasq: Set[Tuple[str, str]] = set()
        self.pending: List[tuple] = []

    def attach(self, w: World) -> None:
        super().attach(w)
        sp = w.spec.get('stop')
        self.SP = None if sp is None else int(sp)

    def key(self):
        return (self.SP, tuple(sorted(self.manual)),
                tuple(sorted(self.exempt)), tuple(sorted(self.wasq)))

    # ------------------------------------------------------------ events
    def on_event(self, kind: str, data: dict) -> None:
        w = self.w
        if kind == 'command':
            ok = bool(data['result'][0]) if data.get('result') else False
            if ok:
                self.pending.append((data['name'], data['kwargs']))
        elif kind == 'cmd_processed':
            for _ in range(data.get('n', 1)):
                if self.pending:
                    self._apply(w, *self.pending.pop(0))
        elif kind == 'reset':
            if data['after'][0] == 'preparing' and \
                    data['before'][0] != 'preparing':
                it = _proxy_of_state(w, data['state'])
                if it is not None:
                    self._judge((it.tdef.name, str(it.point)), 'prepared')
        elif kind == 'cmd_start' and data['kind'] == 'jobs-submit':
            for (p, name, _num) in data['jobs']:
                self._judge((name, str(p)), 'submitted')

    def _apply(self, w: World, name: str, kw: dict) -> None:
        if name == 'stop' and kw.get('cycle_point') is not None:
            self.SP = int(kw['cycle_point'])
            self.exempt = set()
            self.wasq = set()
            if w.running:
                for it in w.schd.pool.get_tasks():
                    if int(str(it.point)) <= self.SP:
                        continue
                    ident = (it.tdef.name, str(it.point))
                    if it.state.status == 'preparing' or \
                            it.waiting_on_job_prep:
                        self.exempt.add(ident)
                    elif it.state.is_queued:
                        self.wasq.add(ident)
        elif name == 'force_trigger_tasks':
            self.manual.update(_ids(kw))

    def _judge(self, ident: Tuple[str, str], verb: str) -> None:
        if self.SP is None or int(ident[1]) <= self.SP:
            return
        if ident in self.manual or ident in self.exempt:
            return
        if any(b.get('ident') == list(ident) for b in self.bad):
            return
        cause = ':queued-when-stop-point-set' if ident in self.wasq else ''
        self.bad.append(self.viol(
            f'{verb}-beyond-stop-point{cause}',
            f'{ident[1]}/{ident[0]} {verb} although the stop point '
            f'{self.SP} is in effect and it was not manually triggered '
            f'(manually triggered: {sorted(self.manual)})',
            ident=list(ident)))

    def after(self, w: World, ev: tuple) -> List[dict]:
        out, self.bad = self.bad, []
        if not w.running:
            self.pending = []
        return out


class C07Profile(OpProfile):
    """OpProfile whose terminal kind carries measured vacuity flags (they
    are functions of the state: reference stop point, manual set, jobs and
    the command log are all part of the state key)."""

    def terminal_kind(self, w: World) -> str:
        base = super().terminal_kind(w)
        flags = []
        mon = next((m for m in self.monitors if isinstance(m, StopPoint)),
                   None)
        fcp = int(self.spec['fcp'])
        if mon is not None and mon.SP is not None and mon.SP < fcp:
            flags.append('sp')
            if any(int(p) > mon.SP and (n, p) in mon.manual
                   for (p, n, _k) in w.env.jobs):
                flags.append('manual-beyond')
            if any(int(p) > mon.SP and (n, p) in mon.exempt
                   for (p, n, _k) in w.env.jobs):
                flags.append('pipeline-exempt')
        oob = self.spec.get('oob_ids', ())
        for name, kw in getattr(w, 'op_log', []):
            ids = dict(kw).get('tasks', ())
            if any(i in oob for i in ids if isinstance(i, str)):
                flags.append('oob-request')
                break
        return base + ''.join('+' + f for f in flags)
