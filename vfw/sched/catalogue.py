"""Workflow catalogue (graph terms) and the boring reference models.

A graph term is independent of cylc's parser:

    Atom  = ('atom', task, offset:int, output:str, optional:bool)
    Expr  = Atom | ('&', Expr, Expr) | ('|', Expr, Expr)
    Edge  = ('edge', Expr, rhs_task, rhs_optional:bool)
    Node  = ('node', task)
    Section = (recurrence_text, [Edge|Node, ...])

`offset` is in cycle steps of P1 (integer cycling) : -1 renders `[-P1]`.
The reference semantics (RefRecurrence, RefGraph) are computed from the term.
"""
from __future__ import annotations

import itertools
from typing import Dict, FrozenSet, Iterable, List, Optional, Set, Tuple

STD = {'succeeded', 'failed', 'started', 'submitted', 'submit-failed',
       'expired', 'finished'}
QUAL = {'succeeded': '', 'failed': ':fail', 'started': ':start',
        'submitted': ':submit', 'submit-failed': ':submit-fail',
        'expired': ':expire', 'finished': ':finish'}


def A(task, off=0, out='succeeded', opt=False):
    return ('atom', task, off, out, opt)


def AND(*xs):
    e = xs[0]
    for x in xs[1:]:
        e = ('&', e, x)
    return e


def OR(*xs):
    e = xs[0]
    for x in xs[1:]:
        e = ('|', e, x)
    return e


def E(lhs, rhs, opt=False):
    return ('edge', lhs, rhs, opt)


def N(task):
    return ('node', task)


# ------------------------------------------------------------------ render

def r_atom(a) -> str:
    _, task, off, out, opt = a
    s = task
    if off:
        s += f"[{'+' if off > 0 else '-'}P{abs(off)}]"
    s += QUAL.get(out, f':{out}')
    if opt:
        s += '?'
    return s


def r_expr(e, top=True) -> str:
    if e[0] == 'atom':
        return r_atom(e)
    op, l, r = e
    s = f'{r_expr(l, False)} {op} {r_expr(r, False)}'
    return s if top else f'({s})'


def r_item(it) -> str:
    if it[0] == 'node':
        return it[1]
    _, lhs, rhs, opt = it
    return f"{r_expr(lhs)} => {rhs}{'?' if opt else ''}"


def render_graph(sections) -> Dict[str, str]:
    out: Dict[str, str] = {}
    for rec, items in sections:
        text = '\n'.join(r_item(i) for i in items)
        out[rec] = (out[rec] + '\n' + text) if rec in out else text
    return out


# ------------------------------------------------------- RefRecurrence

def ref_recurrence(rec: str, icp: int, fcp: int) -> List[int]:
    """Points of the catalogue's recurrence forms in [icp, fcp]."""
    if rec == 'R1':
        pts = [icp]
    elif rec == 'R1/$':
        pts = [fcp]
    elif rec.startswith('R1/+P'):
        pts = [icp + int(rec[5:])]
    elif rec.startswith('R1/') and rec[3:].isdigit():
        pts = [int(rec[3:])]
    elif rec.startswith('+P') and '/P' in rec:
        off, step = rec[2:].split('/P')
        pts = list(range(icp + int(off), fcp + 1, int(step)))
    elif rec.startswith('P') and rec[1:].isdigit():
        pts = list(range(icp, fcp + 1, int(rec[1:])))
    elif rec.startswith('P') and '!' in rec:
        step, ex = rec[1:].split('!')
        pts = [p for p in range(icp, fcp + 1, int(step)) if p != int(ex)]
    else:
        raise ValueError(f'catalogue recurrence not supported: {rec}')
    return [p for p in pts if icp <= p <= fcp]


# ------------------------------------------------------------ RefGraph

def atoms(e) -> List[tuple]:
    if e[0] == 'atom':
        return [e]
    return atoms(e[1]) + atoms(e[2])


class RefGraph:
    """Spawn-on-demand closure computed from the term."""

    def __init__(self, sections, icp: int, fcp: int,
                 start: Optional[int] = None):
        self.sections = sections
        self.icp, self.fcp = icp, fcp
        self.start = icp if start is None else start
        self.points: Dict[str, Set[int]] = {}      # task -> valid points
        self.sec_points = []
        for rec, items in sections:
            pts = set(ref_recurrence(rec, icp, fcp))
            self.sec_points.append(pts)
            for it in items:
                names = []
                if it[0] == 'node':
                    names.append(it[1])
                else:
                    names.append(it[2])
                    # only un-offset LHS nodes define a sequence
                    names += [a[1] for a in atoms(it[1]) if a[2] == 0]
                for n in names:
                    self.points.setdefault(n, set()).update(pts)
        for rec, items in sections:
            for it in items:
                if it[0] == 'edge':
                    for a in atoms(it[1]):
                        self.points.setdefault(a[1], set())
        self.tasks = sorted(self.points)

    def valid(self, task: str, p: int) -> bool:
        return p in self.points.get(task, ())

    def exprs(self, task: str, p: int) -> List[tuple]:
        """Prerequisite expressions (ANDed) of task at p."""
        out = []
        for (rec, items), pts in zip(self.sections, self.sec_points):
            if p not in pts:
                continue
            for it in items:
                if it[0] == 'edge' and it[2] == task:
                    out.append(it[1])
        return out

    def atom_key(self, a, p: int) -> Tuple[str, int, str]:
        return (a[1], p + a[2], a[3])

    def pre_initial(self, a, p: int) -> bool:
        return p + a[2] < self.icp

    def pre_start(self, a, p: int) -> bool:
        """Satisfied from the outset: before the initial point, or (warm
        start) an offset reference to before the start point."""
        q = p + a[2]
        return q < self.icp or (a[2] != 0 and q < self.start)

    def eval(self, e, p: int, done: Set[Tuple[str, int, str]]) -> bool:
        if e[0] == 'atom':
            if self.pre_start(e, p):
                return True
            t, q, o = self.atom_key(e, p)
            if o == 'finished':
                return (t, q, 'succeeded') in done or (t, q, 'failed') in done
            return (t, q, o) in done
        op, l, r = e
        if op == '&':
            return self.eval(l, p, done) and self.eval(r, p, done)
        return self.eval(l, p, done) or self.eval(r, p, done)

    def satisfied(self, task: str, p: int, done) -> bool:
        return all(self.eval(e, p, done) for e in self.exprs(task, p))

    def parentless(self, task: str, p: int) -> bool:
        return all(
            self.pre_start(a, p)
            for e in self.exprs(task, p) for a in atoms(e))

    def children(self, key: Tuple[str, int, str]) -> Set[Tuple[str, int]]:
        """Instances with an atom on this output."""
        t, q, o = key
        out = set()
        for (rec, items), pts in zip(self.sections, self.sec_points):
            for it in items:
                if it[0] != 'edge':
                    continue
                for a in atoms(it[1]):
                    outs = ('succeeded', 'failed') if a[3] == 'finished' \
                        else (a[3],)
                    if a[1] == t and o in outs:
                        p = q - a[2]
                        if p in pts and self.valid(it[2], p):
                            out.add((it[2], p))
        return out

    def closure(self, outputs_of) -> Tuple[Set, Set, Set]:
        """outputs_of(task, point) -> set of outputs that instance completes
        when it runs (or None if the environment never ran it).

        Returns (spawned S, run R, expected-but-never-ran M)."""
        S: Set[Tuple[str, int]] = set()
        for t in self.tasks:
            for p in self.points[t]:
                if p >= self.start and self.parentless(t, p):
                    S.add((t, p))
        R: Set[Tuple[str, int]] = set()
        M: Set[Tuple[str, int]] = set()
        done: Set[Tuple[str, int, str]] = set()
        changed = True
        while changed:
            changed = False
            for inst in sorted(S - R - M):
                t, p = inst
                if not self.satisfied(t, p, done):
                    continue
                outs = outputs_of(t, p)
                if outs is None:
                    M.add(inst)
                    changed = True
                    continue
                R.add(inst)
                changed = True
                for o in outs:
                    k = (t, p, o)
                    if k not in done:
                        done.add(k)
                        S.update(c for c in self.children(k)
                                 if c[1] >= self.start)
        return S, R, M


# ------------------------------------------------------------- catalogue

def spec_from(sections, icp=1, fcp=2, name='', **extra) -> dict:
    tasks = {}
    # custom outputs used in the term get declared
    for rec, items in sections:
        for it in items:
            if it[0] == 'edge':
                for a in atoms(it[1]):
                    if a[3] not in STD:
                        tasks.setdefault(a[1], {}).setdefault(
                            'outputs', {})[a[3]] = f'msg-{a[3]}'
    spec = {
        'name': name, 'icp': icp, 'fcp': fcp,
        'graph': render_graph(sections),
        'sections': sections,
        'tasks': tasks,
    }
    for k, v in extra.items():
        if k == 'tasks':
            for tn, tv in v.items():
                spec['tasks'].setdefault(tn, {}).update(tv)
        else:
            spec[k] = v
    return spec


def optional_outputs(sections) -> Dict[str, Set[str]]:
    """task -> outputs marked optional (`?`) anywhere in the term."""
    out: Dict[str, Set[str]] = {}
    for rec, items in sections:
        for it in items:
            if it[0] == 'edge':
                for a in atoms(it[1]):
                    if a[4]:
                        out.setdefault(a[1], set()).add(a[3])
                if it[3]:
                    out.setdefault(it[2], set()).add('succeeded')
    return out


def basic_shapes() -> List[Tuple[str, list]]:
    """(name, items) building blocks over tasks a..d (one section)."""
    a, b, c, d = 'a', 'b', 'c', 'd'
    return [
        ('chain2', [E(A(a), b)]),
        ('chain3', [E(A(a), b), E(A(b), c)]),
        ('fanout', [E(A(a), b), E(A(a), c)]),
        ('and', [E(AND(A(a), A(b)), c)]),
        ('or', [E(OR(A(a), A(b)), c)]),
        ('failopt', [E(A(a, 0, 'failed', True), b),
                     E(A(a, 0, 'succeeded', True), c)]),
        ('custom', [E(A(a, 0, 'x'), b)]),
        ('customopt', [E(A(a, 0, 'x', True), b), E(A(a), c)]),
        ('start', [E(A(a, 0, 'started'), b)]),
        ('prev', [E(A(a, -1), a)]),
        ('prev2', [E(AND(A(a, -1), A(b)), a), N(b)]),
        ('prevb', [E(A(a, -1), b), E(A(a), b)]),
        ('paren', [E(OR(AND(A(a), A(b)), A(c)), d)]),
        ('future', [E(A(a, 1), b), N(a)]),
        ('finish', [E(A(a, 0, 'finished', False), b),
                    E(A(a, 0, 'succeeded', True), c)]),
    ]


def c01_catalogue(tier: str) -> List[dict]:
    out = []
    shapes = dict(basic_shapes())
    quick = [
        ('chain2', 'P1', 2), ('and', 'P1', 1), ('or', 'P1', 1),
        ('failopt', 'P1', 1), ('custom', 'P1', 1), ('prev', 'P1', 3),
        ('prevb', 'P1', 2), ('future', 'P1', 2), ('start', 'P1', 1),
        ('fanout', 'P1', 1), ('customopt', 'P1', 1), ('prev2', 'P1', 2),
    ]
    thorough = quick + [
        ('chain3', 'P1', 2), ('paren', 'P1', 1), ('finish', 'P1', 1),
        ('chain2', 'P2', 3), ('chain2', '+P1/P2', 3), ('and', 'P1', 2),
        ('or', 'P1', 2), ('failopt', 'P1', 2), ('prev', 'P2', 4),
        ('future', 'P1', 3), ('custom', 'P1', 2), ('prev2', 'P1', 3),
    ]
    for shape, rec, fcp in (quick if tier == 'quick' else thorough):
        out.append(spec_from(
            [(rec, shapes[shape])], 1, fcp, name=f'{shape}-{rec}-f{fcp}'))
    # two sections: a one-off start-up task feeding a cycling task
    two = [
        ('r1-feed', [('R1', [E(A('s'), 'a')]), ('P1', [E(A('a', -1), 'a')])],
         2),
        ('r1-abs', [('R1', [N('s')]), ('P1', [E(A('a'), 'b')]),
                    ('R1/$', [E(A('b'), 'z')])], 2),
        # the parent cycles more often than the child
        ('p1-p2', [('P1', [N('a')]), ('P2', [E(A('a'), 'b')])], 3),
        ('p1-offp2', [('P1', [N('a')]), ('+P1/P2', [E(A('a'), 'b')])], 3),
        # a task that is parentless on one recurrence and parented (by an
        # optional output) on an interleaved one
        ('interleaved', [('P2', [N('a')]),
                         ('+P1/P2', [E(A('b', 0, 'succeeded', True), 'a')])],
         3),
    ]
    for name, secs, fcp in two:
        if tier == 'quick' and name == 'r1-abs':
            continue      # ~500 states: thorough only
        out.append(spec_from(secs, 1, fcp, name=name))
    return out
