"""C11 scheduler leg: a finished task leaves the pool exactly when its
completion expression is true over its completed outputs.

Retention
    * a proxy removed from the pool as "completed" (TaskPool.remove without a
      reason) while in a final status must satisfy the completion expression
      (judged by the real TaskOutputs.is_complete(), whose truth table the
      Engine-B part of C11 checks against the documented rule);
    * at every main-loop boundary no proxy in a final status whose completion
      expression is true may still be in the pool (`flow_wait` proxies, kept
      on purpose until merged, excepted).
"""
from __future__ import annotations

from typing import List

from .profile import Monitor
from .world import World

FINAL = ('succeeded', 'failed', 'submit-failed', 'expired')


class Retention(Monitor):
    name = 'retention'
    counts = {'removed-complete': 0, 'retained-incomplete': 0}

    def __init__(self):
        self.bad: List[dict] = []

    def on_event(self, kind: str, data: dict) -> None:
        if kind != 'remove' or data.get('reason') is not None:
            return
        it = data['itask']
        if not it.state(*FINAL):
            return
        if it.state.outputs.is_complete():
            Retention.counts['removed-complete'] += 1
        else:
            self.bad.append(self.viol(
                f'incomplete-task-removed:{it.state.status}',
                f'{it.identity} ({it.state.status}) was removed from the '
                'pool as completed although its completion expression is '
                'false over its completed outputs '
                f'{sorted(m for m, d in it.state.outputs._completed.items() if d)}'))

    def after(self, w: World, ev: tuple) -> List[dict]:
        out, self.bad = self.bad, []
        if not w.running:
            return out
        for it in w.schd.pool.get_tasks():
            if not it.state(*FINAL):
                continue
            if it.state.outputs.is_complete():
                if getattr(it, 'flow_wait', False):
                    continue
                out.append(self.viol(
                    f'finished-complete-task-retained:{it.state.status}',
                    f'{it.identity} is {it.state.status} and its completion '
                    'expression is true over its completed outputs '
                    f'{sorted(m for m, d in it.state.outputs._completed.items() if d)}'
                    f', but it is still in the pool (after {ev[0]})'))
            else:
                Retention.counts['retained-incomplete'] += 1
        return out
