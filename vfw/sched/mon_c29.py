"""C29: manually set outputs behave like naturally completed outputs.

The reference is written from the property statement and the documented
behaviour of ``cylc set`` (command help), over the catalogue *term*:

* ``--out=O`` on T completes O and the implied earlier outputs
  (started => submitted; succeeded/failed => submitted, started);
* no outputs given: required outputs of T (outputs used in the term without
  ``?``) plus submitted, started, succeeded;
* every instance with an atom on one of those outputs (``RefGraph.children``)
  is in the pool afterwards with that atom satisfied, unless it already ran
  to completion earlier; nothing else is spawned (parentless instances
  excepted: they are not children of anything), no other atom anywhere is
  satisfied. The *same* rule is evaluated on every natural output completion
  (``spawn_on_output`` outside a ``set`` command): forced and natural
  emission are compared through the common reference;
* no status change to submitted/running happens inside the command;
* ``--pre=P`` on T satisfies exactly P & own(T) (own = atoms of the term's
  trigger expressions of T at that point; ``all`` = own(T)); with an empty
  intersection nothing changes at all;
* obligation: a waiting T whose trigger expressions are all true over its
  satisfied atoms after ``--pre`` (and whose xtriggers are satisfied) must be
  submitted before the run ends.
"""
from __future__ import annotations

import json
import os
import sqlite3
from typing import Dict, List, Optional, Set, Tuple

from .catalogue import RefGraph, atoms, optional_outputs
from .monitors import msg_to_output
from .profile import Monitor, OpProfile
from .world import World, _CUR

Inst = Tuple[str, int]            # (task, point)
Atom = Tuple[str, int, str]       # (task, point, output label)

IMPLIED = {
    'started': ('submitted',),
    'succeeded': ('submitted', 'started'),
    'failed': ('submitted', 'started'),
}


# ---------------------------------------------------------------------------
class Counters:
    """Per-process counters flushed to <scratch>/<tag>-<pid>.json (they
    count observations in every execution, replays included)."""

    def __init__(self, tag: str):
        self.tag = tag
        self.c: Dict[str, int] = {}
        self.pid = None
        self.dirty = False

    def bump(self, name: str, n: int = 1) -> None:
        if self.pid != os.getpid():
            self.pid = os.getpid()
            self.c = {}
        self.c[name] = self.c.get(name, 0) + n
        self.dirty = True

    def flush(self) -> None:
        if not self.dirty or self.pid != os.getpid():
            return
        from ..core import scratch_root
        path = scratch_root() / f'{self.tag}-{os.getpid()}.json'
        tmp = path.with_suffix('.tmp')
        tmp.write_text(json.dumps(self.c))
        os.replace(tmp, path)
        self.dirty = False

    def collect(self, scratch) -> Dict[str, int]:
        total: Dict[str, int] = {}
        for p in sorted(scratch.glob(f'{self.tag}-*.json')):
            try:
                for k, v in json.loads(p.read_text()).items():
                    total[k] = total.get(k, 0) + int(v)
            finally:
                p.unlink()
        return total


COUNTS = Counters('c29-counters')


# ---------------------------------------------------------------------------
# extra funnels (installed once, before the scheduler is constructed)

_WRAPPED = False


def wrap_c29() -> None:
    global _WRAPPED
    if _WRAPPED:
        return
    _WRAPPED = True
    from cylc.flow.task_pool import TaskPool

    o_set = TaskPool.set_prereqs_and_outputs

    def set_prereqs_and_outputs(self, *a, **kw):
        w = _CUR[0]
        if w is not None:
            w.emit('set_begin')
        try:
            return o_set(self, *a, **kw)
        finally:
            if w is not None:
                w.emit('set_end')
    TaskPool.set_prereqs_and_outputs = set_prereqs_and_outputs

    o_soo = TaskPool.spawn_on_output

    def spawn_on_output(self, itask, output, *a, **kw):
        ret = o_soo(self, itask, output, *a, **kw)
        w = _CUR[0]
        if w is not None:
            w.emit('spawned', itask=itask, output=output)
        return ret
    TaskPool.spawn_on_output = spawn_on_output


# ---------------------------------------------------------------------------
# observation helpers

def _label(spec, task, msg) -> str:
    return msg_to_output(spec, task, str(msg))


def snap_pool(w: World) -> Dict[Inst, dict]:
    """Observed pool: instance -> status, completed labels, atoms."""
    out: Dict[Inst, dict] = {}
    spec = w.spec
    pool = w.schd.pool
    icp = int(spec['icp'])
    for bucket in pool.active_tasks.values():
        for it in bucket.values():
            name = it.tdef.name
            all_atoms: Set[Atom] = set()
            sat: Set[Atom] = set()
            for pre in it.state.prerequisites:
                for k, v in pre.items():
                    a = (str(k.task), int(str(k.point)),
                         _label(spec, str(k.task), k.output))
                    if a[1] < icp:
                        continue    # pre-initial: not a real prerequisite
                    all_atoms.add(a)
                    if v:
                        sat.add(a)
            out[(name, int(str(it.point)))] = {
                'status': it.state.status,
                'completed': {
                    _label(spec, name, m)
                    for m, d in it.state.outputs._completed.items() if d},
                'atoms': all_atoms, 'sat': sat,
                'xtrig_ok': (not it.state.xtriggers
                             or it.state.xtriggers_all_satisfied()),
                'xtrigs': {str(k): bool(v)
                           for k, v in it.state.xtriggers.items()},
                'runahead': it.state.is_runahead,
            }
    return out


def db_outputs(w: World, inst: Inst) -> Set[str]:
    """Output labels recorded as complete in the task_outputs table."""
    w.close_db()
    conn = sqlite3.connect(
        f'file:{w.schd.workflow_db_mgr.pri_path}?mode=ro', uri=True)
    try:
        rows = conn.execute(
            'SELECT outputs FROM task_outputs WHERE cycle=? AND name=?',
            (str(inst[1]), inst[0])).fetchall()
    finally:
        conn.close()
    out: Set[str] = set()
    for (txt,) in rows:
        try:
            val = json.loads(txt)
        except (TypeError, ValueError):
            continue
        if isinstance(val, dict):
            out.update(str(k) for k in val)
        else:
            out.update(_label(w.spec, inst[0], m) for m in val)
    return out


def parse_inst(tid: str) -> Inst:
    p, n = tid.split('/')[:2]
    return (n.split(':')[0], int(p))


def parse_pre(s: str) -> Optional[Atom]:
    """'<point>/<task>[:output]' -> atom ; None for xtrigger/… forms."""
    if s.startswith('xtrigger/'):
        return None
    p, rest = s.split('/', 1)
    n, _, o = rest.partition(':')
    return (n, int(p), o or 'succeeded')


# ---------------------------------------------------------------------------
class SetLikeNatural(Monitor):
    name = 'set-like-natural'

    def __init__(self):
        self.bad: List[dict] = []
        self.ref: Optional[RefGraph] = None
        self.gone: Set[Inst] = set()       # left the pool at some time
        self.oblig: Set[Inst] = set()      # must still be submitted
        self.watch: Set[Inst] = set()      # targets of `set --pre`
        self.cmd: Optional[dict] = None    # command being executed
        self.inside = False

    # -------------------------------------------------------------- ref
    def attach(self, w: World) -> None:
        super().attach(w)
        s = w.spec
        self.ref = RefGraph(s['sections'], s['icp'], s['fcp'])
        self.opt = optional_outputs(s['sections'])

    def own_atoms(self, inst: Inst) -> Set[Atom]:
        ref = self.ref
        t, p = inst
        out: Set[Atom] = set()
        for e in ref.exprs(t, p):
            for a in atoms(e):
                if ref.pre_start(a, p):
                    continue
                outs = ('succeeded', 'failed') if a[3] == 'finished' \
                    else (a[3],)
                for o in outs:
                    out.add((a[1], p + a[2], o))
        return out

    def default_outputs(self, task: str) -> Set[str]:
        """required outputs + submitted, started, succeeded."""
        used: Set[str] = set()
        for rec, items in self.w.spec['sections']:
            for it in items:
                if it[0] == 'edge':
                    for a in atoms(it[1]):
                        if a[1] == task and not a[4] and a[3] != 'finished':
                            used.add(a[3])
        used -= self.opt.get(task, set())
        return used | {'submitted', 'started', 'succeeded'}

    def expected_outputs(self, task: str, outputs) -> Set[str]:
        sel = set(outputs) if outputs else self.default_outputs(task)
        out = set(sel)
        for o in sel:
            out.update(IMPLIED.get(o, ()))
        return out

    def key(self):
        return (tuple(sorted(self.gone)), tuple(sorted(self.oblig)),
                tuple(sorted(self.watch)))

    # ------------------------------------------------------------ events
    def on_event(self, kind: str, data: dict) -> None:
        w = self.w
        if kind == 'command' and data['name'] == 'set':
            ok = bool(data['result'][0]) if data.get('result') else False
            if not ok:
                COUNTS.bump('set_rejected_by_validation')
                self.cmd = None
                return
            kw = data['kwargs']
            self.cmd = {
                'targets': [parse_inst(t) for t in kw.get('tasks', [])],
                'outputs': kw.get('outputs') or None,
                'prereqs': kw.get('prerequisites') or None,
                'pre': None, 'post': None, 'adds': [], 'resets': [],
                'done': False,
            }
            # what the DB knew about inactive targets before the command
            self.cmd['db_before'] = {
                inst: db_outputs(w, inst) for inst in self.cmd['targets']}
        elif kind == 'set_begin':
            if self.cmd is not None:
                self.inside = True
                self.cmd['pre'] = snap_pool(w)
                self.cmd['gone'] = set(self.gone)
        elif kind == 'set_end':
            if self.cmd is not None and self.inside:
                self.inside = False
                self.cmd['post'] = snap_pool(w)
                self.cmd['done'] = True
        elif kind == 'add':
            it = data['itask']
            inst = (it.tdef.name, int(str(it.point)))
            if self.inside:
                self.cmd['adds'].append(inst)
        elif kind == 'remove':
            it = data['itask']
            inst = (it.tdef.name, int(str(it.point)))
            self.gone.add(inst)
            self.oblig.discard(inst)
            self.watch.discard(inst)
        elif kind == 'reset':
            if self.inside:
                b, a = data['before'][0], data['after'][0]
                if a in ('submitted', 'running') and b != a:
                    self.bad.append(self.viol(
                        f'set-forced-status:{b}->{a}',
                        f'while executing `cylc set` a task status changed '
                        f'{b} -> {a}: set must never put a task into the '
                        'submitted or running state'))
        elif kind == 'spawned' and not self.inside:
            self._natural(w, data)
        elif kind == 'cmd_start' and data['kind'] == 'jobs-submit':
            for (p, name, num) in data['jobs']:
                self.oblig.discard((name, int(p)))
                self.watch.discard((name, int(p)))

    # ---------------------------------------------------------- natural
    def _natural(self, w: World, data: dict) -> None:
        it = data['itask']
        if not it.flow_nums or it.flow_wait:
            return
        t, p = it.tdef.name, int(str(it.point))
        o = _label(w.spec, t, data['output'])
        kids = self.ref.children((t, p, o))
        if not kids:
            return
        COUNTS.bump(f'natural:{o}')
        snap = snap_pool(w)
        self._children(snap, (t, p), o, kids, 'natural', self.bad, self.gone)

    def _children(self, snap, inst, o, kids, how, out, gone) -> None:
        t, p = inst
        for c in sorted(kids):
            if c in snap:
                if (t, p, o) not in snap[c]['sat']:
                    out.append(self.viol(
                        f'child-atom-unsatisfied:{how}:{o}',
                        f'{p}/{t}:{o} completed ({how}) but the prerequisite'
                        f' {p}/{t}:{o} of its child {c[1]}/{c[0]} is not '
                        f'satisfied (atoms {sorted(snap[c]["atoms"])}, '
                        f'satisfied {sorted(snap[c]["sat"])})'))
            elif c not in gone:
                out.append(self.viol(
                    f'child-not-spawned:{how}:{o}',
                    f'{p}/{t}:{o} completed ({how}) but its child '
                    f'{c[1]}/{c[0]} is not in the pool (and never was)'))

    # ------------------------------------------------------------- after
    def after(self, w: World, ev: tuple) -> List[dict]:
        out, self.bad = self.bad, []
        cmd, self.cmd = self.cmd, None
        self.inside = False
        if cmd is not None and ev[0] == 'op':
            if not cmd['done']:
                COUNTS.bump('set_not_processed')
            else:
                if cmd['prereqs']:
                    self._judge_pre(w, cmd, out)
                else:
                    self._judge_out(w, cmd, out)
        if self.watch and w.running:
            snap = snap_pool(w)
            for inst in sorted(self.watch):
                got = snap.get(inst)
                if got is None or inst in self.oblig:
                    continue
                if got['status'] == 'waiting' and got['xtrig_ok'] and all(
                        self.ref.eval(e, inst[1], set(got['sat']))
                        for e in self.ref.exprs(*inst)):
                    self.oblig.add(inst)
                    COUNTS.bump('obligations')
        COUNTS.flush()
        return out

    # --------------------------------------------------------- set --out
    def _judge_out(self, w: World, cmd: dict, out: List[dict]) -> None:
        pre, post = cmd['pre'], cmd['post']
        ref = self.ref
        allowed_atoms: Set[Atom] = set()
        allowed_adds: Set[Inst] = set()
        for inst in cmd['targets']:
            t, p = inst
            if not ref.valid(t, p):
                COUNTS.bump('set_out_invalid_instance')
                continue
            exp = self.expected_outputs(t, cmd['outputs'])
            tag = ','.join(cmd['outputs']) if cmd['outputs'] else 'default'
            where = 'active' if inst in pre else (
                'finished' if inst in cmd['gone'] else 'unspawned')
            COUNTS.bump(f'set_out:{tag}:{where}')
            before = pre[inst]['completed'] if inst in pre else \
                cmd['db_before'].get(inst, set())
            if inst in post:
                have = post[inst]['completed']
                src = 'pool'
            else:
                have = db_outputs(w, inst)
                src = 'task_outputs table'
            sel = set(cmd['outputs']) if cmd['outputs'] else \
                self.default_outputs(t)
            for o in sorted(exp - have):
                if o in sel:
                    sig = (f'set-output-not-completed:{o}' if cmd['outputs']
                           else f'default-output-not-completed:{o}')
                    what = (
                        f'`cylc set --out={tag}` on {p}/{t} ({where}): '
                        f'output {o} is not complete afterwards ({src}: '
                        f'{sorted(have)})')
                    if not cmd['outputs']:
                        what += (
                            '; with no outputs given the required outputs '
                            f'plus submitted, started and succeeded = '
                            f'{sorted(sel)} must be completed')
                else:
                    sig = f'implied-output-not-completed:{o}'
                    what = (
                        f'`cylc set --out={tag}` on {p}/{t} ({where}): '
                        f'implied earlier output {o} is not complete '
                        f'afterwards ({src}: {sorted(have)})')
                out.append(self.viol(sig, what))
            # status of the target
            if inst in post and post[inst]['status'] in (
                    'submitted', 'running') and (
                    inst not in pre
                    or pre[inst]['status'] != post[inst]['status']):
                out.append(self.viol(
                    f'set-target-became:{post[inst]["status"]}',
                    f'`cylc set --out={tag}` left {p}/{t} in status '
                    f'{post[inst]["status"]}'))
            # children of the newly completed outputs
            for o in sorted(exp):
                kids = ref.children((t, p, o))
                allowed_adds |= kids
                allowed_atoms.add((t, p, o))
                if o in before:
                    continue        # was complete before: nothing to do
                if kids:
                    COUNTS.bump(f'forced:{o}')
                self._children(post, inst, o, kids, 'set', out, cmd['gone'])
        self._frame(cmd, allowed_adds, allowed_atoms, set(), out, 'out')

    # --------------------------------------------------------- set --pre
    def _judge_pre(self, w: World, cmd: dict, out: List[dict]) -> None:
        pre, post = cmd['pre'], cmd['post']
        ref = self.ref
        allowed_atoms: Set[Atom] = set()
        allowed_adds: Set[Inst] = set()
        targets = set()
        req = cmd['prereqs']
        for inst in cmd['targets']:
            t, p = inst
            if not ref.valid(t, p):
                COUNTS.bump('set_pre_invalid_instance')
                continue
            own = self.own_atoms(inst)
            if req == ['all']:
                want = set(own)
                is_all = True
            else:
                is_all = False
                want = {a for a in map(parse_pre, req) if a is not None}
            valid = want & own
            # xtrigger prerequisites (xtrigger/<label>, xtrigger/all)
            own_x = set(w.spec.get('xtrig_tasks', {}).get(t, ()))
            want_x = {r.split('/', 1)[1].split(':')[0] for r in req
                      if r.startswith('xtrigger/')}
            valid_x = set(own_x) if 'all' in want_x else (want_x & own_x)
            where = 'active' if inst in pre else (
                'finished' if inst in cmd['gone'] else 'unspawned')
            kindtag = 'all' if is_all else (
                'own' if valid == want else ('mixed' if valid else 'foreign'))
            if want_x:
                kindtag += '+xtrig' if valid_x else '+foreign-xtrig'
            COUNTS.bump(f'set_pre:{kindtag}:{where}')
            if not valid and not is_all and not valid_x:
                continue      # must be a no-op: the frame check covers it
            targets.add(inst)
            allowed_atoms |= valid
            allowed_adds.add(inst)
            if inst in pre:
                exp_sat = pre[inst]['sat'] | valid
            elif inst in cmd['gone']:
                continue      # finished earlier: re-spawning not judged
            else:
                exp_sat = set(valid)
                if inst not in post:
                    out.append(self.viol(
                        f'set-pre-target-not-spawned:{kindtag}',
                        f'`cylc set --pre={",".join(req)}` on the inactive '
                        f'{p}/{t} did not bring it into the pool'))
                    continue
            if inst not in post:
                continue
            got = post[inst]
            if got['atoms'] - own:
                out.append(self.viol(
                    'set-pre-added-foreign-prerequisite',
                    f'{p}/{t} has prerequisites '
                    f'{sorted(got["atoms"] - own)} after `cylc set --pre='
                    f'{",".join(req)}` which are not in its graph '
                    f'triggers {sorted(own)}'))
            missing = exp_sat - got['sat']
            extra = got['sat'] - exp_sat
            if missing:
                out.append(self.viol(
                    f'set-pre-not-satisfied:{kindtag}',
                    f'`cylc set --pre={",".join(req)}` on {p}/{t} '
                    f'({where}): prerequisites {sorted(missing)} are not '
                    f'satisfied afterwards (satisfied: '
                    f'{sorted(got["sat"])})'))
            if extra:
                out.append(self.viol(
                    f'set-pre-satisfied-more:{kindtag}',
                    f'`cylc set --pre={",".join(req)}` on {p}/{t} '
                    f'({where}): also satisfied {sorted(extra)}'))
            # xtriggers: exactly the requested own ones become satisfied
            old_x = pre[inst]['xtrigs'] if inst in pre else {}
            for lab, val in sorted(got['xtrigs'].items()):
                if lab in valid_x and not val:
                    out.append(self.viol(
                        'set-pre-xtrigger-not-satisfied',
                        f'`cylc set --pre={",".join(req)}` on {p}/{t}: '
                        f'xtrigger {lab} is not satisfied afterwards'))
                if lab not in valid_x and val and not old_x.get(lab):
                    out.append(self.viol(
                        'set-pre-satisfied-other-xtrigger',
                        f'`cylc set --pre={",".join(req)}` on {p}/{t}: '
                        f'xtrigger {lab} became satisfied'))
            # obligation: once all trigger expressions are true and the
            # xtriggers satisfied it must run (evaluated in after())
            self.watch.add(inst)
        self._frame(cmd, allowed_adds, allowed_atoms, targets, out, 'pre')

    # ------------------------------------------------------------- frame
    def _frame(self, cmd, allowed_adds, allowed_atoms, targets, out,
               mode) -> None:
        """Nothing but the allowed effects happened inside the command."""
        pre, post = cmd['pre'], cmd['post']
        ref = self.ref
        for inst in cmd['adds']:
            if inst in allowed_adds:
                continue
            if ref.parentless(*inst):
                continue
            out.append(self.viol(
                f'set-{mode}-spawned-unrelated-task',
                f'`cylc set` on {cmd["targets"]} ({mode}) spawned '
                f'{inst[1]}/{inst[0]}, which is not one of the instances '
                f'it may spawn {sorted(allowed_adds)}'))
        for inst, got in sorted(post.items()):
            old = pre[inst]['sat'] if inst in pre else set()
            new = got['sat'] - old
            if inst not in pre and inst not in cmd['adds']:
                continue
            bad = new - allowed_atoms
            if mode == 'pre' and inst not in targets:
                bad = new
            if bad:
                out.append(self.viol(
                    f'set-{mode}-satisfied-foreign-prerequisite',
                    f'`cylc set` on {cmd["targets"]} ({mode}, outputs='
                    f'{cmd["outputs"]}, prerequisites={cmd["prereqs"]}) '
                    f'satisfied {sorted(bad)} of {inst[1]}/{inst[0]}'))

    # ---------------------------------------------------------- terminal
    def terminal(self, w: World, kind: str) -> List[dict]:
        out = []
        for (t, p) in sorted(self.oblig):
            out.append(self.viol(
                'all-prereqs-set-task-never-ran',
                f'{p}/{t} had all its prerequisites satisfied by `cylc set '
                f'--pre` but was never submitted (run ended {kind})'))
        COUNTS.bump(f'terminal:{kind}')
        COUNTS.flush()
        return out


# ---------------------------------------------------------------------------
class SetProfile(OpProfile):
    """OpProfile that installs the C29 funnels before the scheduler boots."""

    def make_world(self):
        wrap_c29()
        return super().make_world()
