"""C19 (stop-and-restart preserves the workflow state): profile + monitors.

StopProfile
    OpProfile in which (a) commands that are running when the scheduler
    busy-waits for its process pool at shutdown complete during that wait
    (otherwise the fake commands could never finish: the environment has no
    turn inside the scheduler's blocking loop), (b) a restart is a plain
    `cylc play` (start-up only options such as --stopcp/--holdcp are not
    repeated), (c) a spec-level *preamble* (operator steps right after the
    first boot) is part of the initial state.

RestartState
    snapshot of the pool taken when the scheduler coroutine ends, compared
    with the pool the next scheduler has loaded when `start()` returns.

RestartGraphFaithful
    GraphFaithful whose closure bound follows the documented life of the
    stop point (forgotten once reached).
"""
from __future__ import annotations

import json
import os
import sqlite3
from typing import Dict, List, Optional, Tuple

from . import world as W
from .monitors import GraphFaithful
from .catalogue import RefGraph
from .profile import Monitor, OpProfile, _freeze, _thaw
from .world import World

ACTIVE = ('submitted', 'running')


# ---------------------------------------------------------------------------
# counters that survive the search-worker processes (vacuity guards)

class Counters:
    """Per-process counters flushed to <scratch>/<tag>-<pid>.json."""

    def __init__(self, tag: str):
        self.tag = tag
        self.c: Dict[str, int] = {}
        self.dirty = False
        self.pid = None

    def bump(self, name: str, n: int = 1) -> None:
        if self.pid != os.getpid():
            self.pid = os.getpid()
            self.c = {}
        self.c[name] = self.c.get(name, 0) + n
        self.dirty = True

    def flush(self) -> None:
        if not self.dirty or self.pid != os.getpid():
            return
        from ..core import scratch_root
        path = scratch_root() / f'{self.tag}-{os.getpid()}.json'
        tmp = path.with_suffix('.tmp')
        tmp.write_text(json.dumps(self.c))
        os.replace(tmp, path)
        self.dirty = False

    def collect(self, scratch) -> Dict[str, int]:
        total: Dict[str, int] = {}
        for p in sorted(scratch.glob(f'{self.tag}-*.json')):
            try:
                for k, v in json.loads(p.read_text()).items():
                    total[k] = total.get(k, 0) + int(v)
            finally:
                p.unlink()
        return total


COUNTS = Counters('c19-counters')


# ---------------------------------------------------------------------------
# the scheduler's blocking wait for the process pool at shutdown

_HOOKED = [False]


def install_shutdown_wait_hook() -> None:
    """`Scheduler.workflow_shutdown` spins in
    `while proc_pool.is_not_done(): sleep(0.5); proc_pool.process()` without
    yielding to the event loop.  On a real host the commands finish during
    that wait; here the environment completes the oldest running command
    (normally) each time the scheduler sleeps in that loop."""
    if _HOOKED[0]:
        return
    import cylc.flow.scheduler as S
    from .harness import CLOCK

    def sleep(secs=0):
        w = W._CUR[0]
        if secs and w is not None and w.running:
            pend = w.env.pending()
            if pend:
                w.finish_cmd(0, _wait_variant(pend[0]))
        CLOCK.sleep(secs)
    S.sleep = sleep
    _HOOKED[0] = True


def install_kill_hook() -> None:
    """`stop --now --now` kills the commands that are still running. A
    killed `jobs-submit` is a failed submission for the scheduler (it records
    submit-failed); the environment agrees: those jobs were never launched."""
    from . import harness as H
    if getattr(H.FakeProc.kill, '_c19', False):
        return
    orig = H.FakeProc.kill

    def kill(self):
        if self.returncode is None and getattr(
                self, 'kind', None) == 'jobs-submit':
            env = H.ENV_REF[0]
            for jk in getattr(self, 'jobs', ()):
                job = env.jobs.get(jk) if env is not None else None
                if job is not None and job.state == 'launching':
                    job.state = 'submit-failed'
        return orig(self)
    kill._c19 = True
    H.FakeProc.kill = kill


def _wait_variant(proc) -> str:
    if hasattr(proc.ctx, 'func_name'):
        return 'true'
    return 'ok'


def _drop_dumper_cache() -> None:
    """Every restart builds a TimePointDumper (config.process_cycle_point_tz)
    whose lru_cache'd methods keep it - and its ~200 kB of compiled regexes -
    alive for ever: tens of thousands of restarts per search worker would
    need gigabytes. Module-level cache hygiene, no effect on behaviour."""
    try:
        from metomi.isodatetime.dumpers import TimePointDumper
        TimePointDumper.get_time_zone.cache_clear()
        TimePointDumper._get_expression_and_properties.cache_clear()
    except Exception:       # pragma: no cover
        pass


START_ONLY_OPTIONS = ('stopcp', 'holdcp', 'startcp', 'starttask', 'fcp',
                      'icp', 'paused_start')


class StopProfile(OpProfile):
    """See module docstring."""

    def __init__(self, spec, **kw):
        kw.setdefault('down_steps', True)
        super().__init__(spec, **kw)
        self.preamble = list(spec.get('preamble', ()))

    def make_world(self):
        w = super().make_world()
        install_shutdown_wait_hook()
        install_kill_hook()
        for step in self.preamble:
            self.run_preamble_step(w, step)
        return w

    def run_preamble_step(self, w: World, step: tuple) -> None:
        kind = step[0]
        if kind == 'broadcast':
            _, points, namespaces, settings = step
            w.schd.broadcast_mgr.put_broadcast(
                list(points), list(namespaces),
                [dict(s) for s in settings])
        elif kind == 'broadcasts':
            # several broadcast requests handled between two main-loop
            # iterations (i.e. inside one database flush window)
            for op, points, namespaces, settings in step[1]:
                fn = {'set': w.schd.broadcast_mgr.put_broadcast,
                      'clear': w.schd.broadcast_mgr.clear_broadcast}[op]
                fn(list(points), list(namespaces),
                   [_thaw(_freeze(s)) for s in settings])
        elif kind == 'cmd':
            _, name, kwargs = step
            w.command(name, **_thaw(_freeze(kwargs)))
        elif kind == 'tick':
            pass
        else:
            raise ValueError(step)
        w.resume()

    def extra_key(self, w):
        # the restart-timeout wait of a restarted, completed workflow is
        # scheduler state that decides whether it may shut down
        wait = bool(w.running and getattr(
            w.schd, 'is_restart_timeout_wait', False))
        # ... and so is the pool's "stop task has finished" flag (set when
        # the stop task finishes, consumed by the next shutdown check)
        stf = bool(w.running and getattr(
            getattr(w.schd, 'pool', None), 'stop_task_finished', False))
        return (super().extra_key(w), wait, stf)

    def operator_events(self, w):
        # a stop is only offered while a restart can still follow it
        if w.n_restarts >= self.max_restarts:
            saved, self.stops = self.stops, ()
            try:
                return super().operator_events(w)
            finally:
                self.stops = saved
        return super().operator_events(w)

    def enabled(self, w):
        evs = super().enabled(w)
        if w.running and getattr(w.schd, 'is_restart_timeout_wait', False):
            # a restarted, completed workflow waits for its restart timeout
            evs.append(('jump', 'restart-timeout'))
        return evs

    def apply(self, w, ev):
        if ev[0] == 'jump' and len(ev) > 1:
            from .harness import CLOCK
            timer = w.schd.timers.get('restart timeout')
            if timer is not None and timer.timeout is not None:
                CLOCK.now = max(CLOCK.now, timer.timeout + 0.001)
            w.resume()
            return
        if ev[0] == 'restart':
            # a plain `cylc play`: nothing but the run database decides
            over = {k: None for k in START_ONLY_OPTIONS
                    if w.options.get(k) is not None}
            if 'paused_start' in over:
                over['paused_start'] = False
            w.restart(**over)
            _drop_dumper_cache()
            return
        if ev[0] == 'stop':
            from cylc.flow.workflow_status import StopMode
            w.n_stops += 1
            w.command('stop', mode=StopMode[ev[1]])
            w.resume()          # the command is processed
            for _ in range(50):
                if not w.running:
                    break
                if ev[1] == 'REQUEST_CLEAN' and self.clean_must_wait(w):
                    break       # waits for active jobs: environment's turn
                w.resume()
            return
        return super().apply(w, ev)

    @staticmethod
    def clean_must_wait(w: World) -> bool:
        """The environment still owes the scheduler an event."""
        if w.env.pending():
            return True
        return any(j.state in ('submitted', 'running')
                   for j in w.env.jobs.values())


# ---------------------------------------------------------------------------
def _prereqs(itask) -> tuple:
    out = []
    for p in itask.state.prerequisites:
        for k, v in p.items():
            out.append(((str(k.point), str(k.task), str(k.output)), bool(v)))
    return tuple(sorted(out))


def task_snapshot(itask) -> tuple:
    st = itask.state
    completed = tuple(sorted(
        m for m, done in st.outputs._completed.items() if done))
    return (
        itask.identity, st.status, tuple(sorted(itask.flow_nums)),
        bool(st.is_held), int(itask.submit_num), completed, _prereqs(itask),
        tuple(sorted((k, bool(v)) for k, v in st.xtriggers.items())),
    )


FIELDS = ('id', 'status', 'flows', 'held', 'submit_num', 'outputs',
          'prerequisites', 'xtriggers')


def _bc(bm) -> tuple:
    out = []
    for point, d in bm.broadcasts.items():
        for ns, settings in d.items():
            out.append((str(point), str(ns), _freeze(_plain(settings))))
    return tuple(sorted(out, key=repr))


def _plain(x):
    if isinstance(x, dict):
        return {str(k): _plain(v) for k, v in x.items()}
    if isinstance(x, (list, tuple)):
        return [_plain(i) for i in x]
    return x if isinstance(x, (int, float, bool, type(None))) else str(x)


def globals_snapshot(schd) -> tuple:
    pool = schd.pool
    s = lambda x: None if x is None else str(x)   # noqa
    return (
        ('hold point', s(pool.hold_point)),
        ('stop point', s(pool.stop_point)),
        ('stop task', s(pool.stop_task_id)),
        ('broadcasts', _bc(schd.broadcast_mgr)),
        ('flow counter', int(schd.flow_mgr.counter)),
        ('held tasks', tuple(sorted(
            f'{p}/{n}' for n, p in pool.tasks_to_hold))),
    )


def expected_after_restart(task: tuple) -> tuple:
    """The documented mapping: a task that was preparing comes back waiting,
    to be prepared again under the same submit number; everything else is
    restored as it was."""
    ident, status, flows, held, num, outs, pre, xt = task
    if status == 'preparing':
        status = 'waiting'
        num -= 1
    return (ident, status, flows, held, num, outs, pre, xt)


class RestartState(Monitor):
    """C19, state clause."""
    name = 'restart-state'

    def __init__(self):
        self.bad: List[dict] = []
        self.snap: Optional[tuple] = None      # (tasks, globals, reason)
        # (point, name) -> submit number the next job must be given
        self.resubmit: Tuple[Tuple[Tuple[str, str], int], ...] = ()
        self.env_at_stop = None
        self.auto_decided = False

    def key(self):
        return (self.snap, self.resubmit, self.auto_decided)

    # ------------------------------------------------------------- events
    def on_event(self, kind: str, data: dict) -> None:
        w = self.w
        if kind == 'set_stop':
            if data['mode'] is not None and data['mode'].name == 'AUTO':
                self.auto_decided = True
        elif kind == 'finished':
            schd = w.schd
            if getattr(schd, 'pool', None) is None:
                return
            if self.auto_decided:
                # (a stop command processed during the final wait for the
                # process pool does not change what kind of shutdown it is)
                data = dict(data, reason='stopped:AUTO')
            tasks = tuple(sorted(
                task_snapshot(t) for t in schd.pool.get_tasks()))
            self.snap = (tasks, globals_snapshot(schd), data['reason'])
            self.env_at_stop = w.env.canon()[0]
        elif kind == 'started' and data.get('restart'):
            self.compare(w)
        elif kind == 'cmd_start' and data['kind'] == 'jobs-submit':
            want = dict(self.resubmit)
            for (p, name, num) in data['jobs']:
                exp = want.pop((p, name), None)
                if exp is not None:
                    COUNTS.bump('preparing task submitted after restart')
                if exp is not None and exp != num:
                    self.bad.append(self.viol(
                        'preparing-task-resubmitted-under-other-number',
                        f'{p}/{name} was preparing submit number {exp} when '
                        f'the scheduler stopped; after the restart it is '
                        f'submitted as number {num}'))
            self.resubmit = tuple(sorted(want.items()))

    def compare(self, w: World) -> None:
        snap, self.snap = self.snap, None
        self.auto_decided = False
        if snap is None:
            return
        tasks, glob, reason = snap
        schd = w.schd
        COUNTS.bump('restarts compared')
        COUNTS.bump(f'restart after {reason}')
        g = dict(glob)
        for k, name in (('hold point', 'hold point'),
                        ('stop task', 'stop task'),
                        ('broadcasts', 'broadcast'),
                        ('held tasks', 'held task')):
            if g[k]:
                COUNTS.bump(f'restart with a {name}')
        if g['flow counter'] > 1:
            COUNTS.bump('restart with flow counter > 1')
        if w.spec.get('stop') is not None:
            COUNTS.bump('restart with a stop point')
        for t in tasks:
            COUNTS.bump(f'restored task that was {t[1]}')
            if len(t[2]) > 1:
                COUNTS.bump('restored task with merged flows')
            if t[3]:
                COUNTS.bump('restored held task')
            if any(v for _, v in t[7]):
                COUNTS.bump('restored task with a satisfied xtrigger')
            if any(v for _, v in t[6]) and not all(v for _, v in t[6]):
                COUNTS.bump('restored task with partially satisfied '
                            'prerequisites')
        if self.env_at_stop is not None and (
                self.env_at_stop != w.env.canon()[0]):
            COUNTS.bump('restart after jobs progressed while down')
        want = {t[0]: expected_after_restart(t) for t in tasks}
        got = {}
        for it in schd.pool.get_tasks():
            t = task_snapshot(it)
            got[t[0]] = t
        resub = dict(self.resubmit)
        for t in tasks:
            if t[1] == 'preparing':
                p, n = t[0].split('/')
                resub[(p, n)] = t[4]
        self.resubmit = tuple(sorted(resub.items()))
        for ident in sorted(set(want) | set(got)):
            a, b = want.get(ident), got.get(ident)
            if b is None:
                self.bad.append(self.viol(
                    'task-lost-by-restart',
                    f'{ident} ({a[1]}) was in the pool when the scheduler '
                    f'stopped ({reason}) and is not after the restart'))
                continue
            if a is None:
                self.bad.append(self.viol(
                    'task-invented-by-restart',
                    f'{ident} ({b[1]}) is in the pool after the restart but '
                    f'was not when the scheduler stopped ({reason})'))
                continue
            for f, x, y in zip(FIELDS, a, b):
                if x != y:
                    was = dict(zip(FIELDS, [t for t in tasks
                                            if t[0] == ident][0]))
                    q = ':merged-flows' if len(was['flows']) > 1 else ''
                    self.bad.append(self.viol(
                        f'task-{f}-not-restored:{was["status"]}{q}',
                        f'{ident}: {f} was {was[f]!r} (status '
                        f'{was["status"]}) when the scheduler stopped '
                        f'({reason}); expected {x!r} after the restart, '
                        f'found {y!r}'))
        now = globals_snapshot(schd)
        for (k, x), (_, y) in zip(glob, now):
            if x == y:
                continue
            if k == 'stop point' and reason == 'stopped:AUTO':
                # a stop point that was reached is forgotten (C43)
                continue
            self.bad.append(self.viol(
                f'{k.replace(" ", "-")}-not-restored',
                f'{k} was {x!r} when the scheduler stopped ({reason}) and '
                f'is {y!r} after the restart'))

    def after(self, w: World, ev: tuple) -> List[dict]:
        out, self.bad = self.bad, []
        COUNTS.flush()
        return out


# ---------------------------------------------------------------------------
def db_params(w: World) -> Dict[str, Optional[str]]:
    w.close_db()
    conn = sqlite3.connect(
        f'file:{w.schd.workflow_db_mgr.pri_path}?mode=ro', uri=True)
    try:
        return dict(conn.execute(
            'SELECT key, value FROM workflow_params').fetchall())
    finally:
        conn.close()


class RestartGraphFaithful(GraphFaithful):
    """GraphFaithful (closure over realised outcomes) where the closure is
    bounded by the *current* reference stop point: the one given at start-up
    (spec['stop']) until the scheduler shut down by itself having reached it;
    from then on it is forgotten and the graph runs to the final point."""
    name = 'graph-faithful'

    def __init__(self):
        super().__init__()
        self.stop: Optional[int] = None
        self.last_reason: Optional[str] = None

    def attach(self, w: World) -> None:
        super().attach(w)
        self.stop = w.spec.get('stop')

    def key(self):
        return (self.stop, self.last_reason)

    def on_event(self, kind: str, data: dict) -> None:
        if kind == 'set_stop':
            if data['mode'] is not None and data['mode'].name == 'AUTO':
                self.last_reason = 'stopped:AUTO'
        elif kind == 'finished':
            if self.last_reason != 'stopped:AUTO':
                self.last_reason = data['reason']
        elif kind == 'started' and data.get('restart'):
            if self.last_reason == 'stopped:AUTO':
                # it shut down by itself: the stop point had been reached
                self.stop = None
            self.last_reason = None
        super().on_event(kind, data)

    def terminal(self, w: World, kind: str) -> List[dict]:
        s = w.spec
        hold = s.get('hold')
        bound = self.stop
        if hold is not None:
            bound = hold if bound is None else min(bound, hold)
        self.cref = self.ref if bound is None else bounded_ref(s, bound)
        out = super().terminal(w, kind)
        if hold is not None:
            # nothing beyond the hold point runs, so the run neither
            # completes nor stalls: only the run-set is judged
            out = [v for v in out if v['signature'] in (
                'closure-instance-never-ran', 'ran-outside-closure')]
        st = s.get('stop_task')
        if st is not None and kind == 'stopped:AUTO':
            job = w.env.jobs.get((str(st[1]), st[0], 1))
            if job is not None and not job.live:
                # it stopped after the stop task: the rest need not have run
                # (whether a stop task that *fails* may stop the workflow is
                # C43's question, not asked here)
                out = [v for v in out if v['signature'] not in (
                    'closure-instance-never-ran', 'premature-shutdown')]
        return out


def bounded_ref(s: dict, stop: int) -> RefGraph:
    full = RefGraph(s['sections'], s['icp'], s['fcp'], s.get('start'))
    ref = RefGraph(s['sections'], s['icp'], min(s['fcp'], stop),
                   s.get('start'))
    ref.points = {t: {p for p in pts if p <= stop}
                  for t, pts in full.points.items()}
    return ref
