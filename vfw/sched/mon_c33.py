"""C33 xtrigger calling discipline: monitor and profile."""
from __future__ import annotations

from typing import Dict, List, Optional, Set, Tuple

from .harness import CLOCK
from .profile import Monitor, Profile
from .world import World


def needed_sigs(w: World) -> Set[str]:
    """Signatures some pooled task still has unsatisfied (observation)."""
    out: Set[str] = set()
    if not w.running:
        return out
    xm = w.schd.xtrigger_mgr
    for it in w.schd.pool.get_tasks():
        if it.state.xtriggers and not it.state.xtriggers_all_satisfied():
            out.update(xm._get_xtrigs(it, unsat_only=True, sigs_only=True))
    return out


_WRAPPED = [False]


def wrap_put_command():
    """Funnel: the scheduler *initiates* a call when it queues the command
    (the process may start later, when the pool has room)."""
    if _WRAPPED[0]:
        return
    _WRAPPED[0] = True
    from cylc.flow.subprocpool import SubProcPool
    from . import world as W
    orig = SubProcPool.put_command

    def put_command(self, ctx, *a, **kw):
        w = W._CUR[0]
        if w is not None and hasattr(ctx, 'func_name'):
            w.emit('xtrig_put', ctx=ctx)
        return orig(self, ctx, *a, **kw)
    SubProcPool.put_command = put_command


class XtrigDiscipline(Monitor):
    name = 'xtrigger-discipline'
    calls = 0
    successes = 0

    def __init__(self):
        self.bad: List[dict] = []
        self.inflight: Set[str] = set()
        self.last_start: Dict[str, float] = {}
        self.intvl: Dict[str, float] = {}
        self.succeeded: Set[str] = set()   # succeeded and still needed

    def key(self):
        return (
            tuple(sorted(self.inflight)), tuple(sorted(self.succeeded)),
            tuple(sorted(
                (s, CLOCK.now - t >= self.intvl.get(s, 0))
                for s, t in self.last_start.items())))

    def attach(self, w):
        wrap_put_command()
        super().attach(w)

    def on_event(self, kind: str, data: dict) -> None:
        if kind == 'xtrig_put':
            ctx = data['ctx']
            sig = ctx.get_signature()
            XtrigDiscipline.calls += 1
            if sig in self.inflight:
                self.bad.append(self.viol(
                    'second-call-while-in-progress',
                    f'xtrigger {sig} called while a call is in progress'))
            if sig in self.last_start:
                gap = CLOCK.now - self.last_start[sig]
                if gap + 1e-6 < float(ctx.intvl):
                    self.bad.append(self.viol(
                        'called-before-interval',
                        f'xtrigger {sig} called {gap:g}s after the previous '
                        f'call; configured interval {ctx.intvl:g}s'))
            if sig in self.succeeded:
                self.bad.append(self.viol(
                    'called-again-after-success',
                    f'xtrigger {sig} called again although it already '
                    'succeeded and tasks still depend on it'))
            self.inflight.add(sig)
            self.last_start[sig] = CLOCK.now
            self.intvl[sig] = float(ctx.intvl)
        elif kind == 'cmd_done' and hasattr(data['ctx'], 'func_name'):
            sig = data['ctx'].get_signature()
            self.inflight.discard(sig)
            if data['variant'] == 'true':
                XtrigDiscipline.successes += 1
                self.succeeded.add(sig)
                self.fresh = sig
        elif kind == 'started':
            # a new scheduler process: nothing is in flight any more
            self.inflight.clear()

    def after(self, w: World, ev: tuple) -> List[dict]:
        out, self.bad = self.bad, []
        if w.running:
            need = needed_sigs(w)
            # a succeeded result nobody needs any more may be forgotten
            # (a later task needing the same signature may call again)
            fresh = getattr(self, 'fresh', None)
            self.succeeded = {
                s for s in self.succeeded if s in need or s == fresh}
            self.fresh = None
        return out

    def terminal(self, w: World, kind: str) -> List[dict]:
        if not w.running or not kind.startswith('quiescent'):
            return []
        out = []
        xm = w.schd.xtrigger_mgr
        for it in w.schd.pool.get_tasks():
            if not it.state.xtriggers or it.state.xtriggers_all_satisfied():
                continue
            if it.state.status != 'waiting' or it.state.is_runahead:
                continue
            for sig in xm._get_xtrigs(it, unsat_only=True, sigs_only=True):
                if sig in self.succeeded:
                    out.append(self.viol(
                        'dependent-not-satisfied-after-success',
                        f'{it.identity} still waits on xtrigger {sig} '
                        'although that call succeeded'))
        return out


class XtrigProfile(Profile):
    """Each xtrigger call may return False (budget per execution) or True."""

    def __init__(self, spec, *, false_budget=2, **kw):
        super().__init__(spec, **kw)
        self.false_budget = false_budget

    def make_world(self):
        w = super().make_world()
        w.n_false = 0
        return w

    def extra_key(self, w):
        return w.n_false

    def xtrigger_variants(self, w, proc):
        v = ['true']
        if w.n_false < self.false_budget:
            v.append('false')
        return v

    def apply(self, w, ev):
        if ev[0] == 'cmd' and ev[3] == 'false':
            w.n_false += 1
        return super().apply(w, ev)
