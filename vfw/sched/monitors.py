"""Monitors: oracles evaluated on every state / event of an exploration."""
from __future__ import annotations

import sqlite3
from typing import Dict, List, Optional, Set, Tuple

from .catalogue import RefGraph, optional_outputs, r_expr
from .harness import CLOCK
from .profile import Monitor
from .world import World

ACTIVE = ('preparing', 'submitted', 'running')
FINAL = ('succeeded', 'failed', 'submit-failed', 'expired')


def env_outputs(job) -> Set[str]:
    """Outputs a job has *actually* produced (environment ground truth)."""
    out: Set[str] = set()
    if job is None:
        return out
    s = job.state
    if s in ('submitted', 'running', 'succeeded', 'failed'):
        out.add('submitted')
    if s in ('running', 'succeeded', 'failed'):
        out.add('started')
    if s == 'succeeded':
        out.add('succeeded')
    if s == 'failed':
        out.add('failed')
    if s == 'submit-failed':
        out.add('submit-failed')
    return out


def latest_jobs(w: World) -> Dict[Tuple[str, str], object]:
    """(point, name) -> the job with the highest submit number."""
    best: Dict[Tuple[str, str], object] = {}
    for (p, n, num), job in w.env.jobs.items():
        cur = best.get((p, n))
        if cur is None or cur.key[2] < num:
            best[(p, n)] = job
    return best


def msg_to_output(spec: dict, task: str, msg: str) -> str:
    for o, m in spec.get('tasks', {}).get(task, {}).get('outputs', {}).items():
        if m == msg:
            return o
    return msg


def env_done(w: World) -> Set[Tuple[str, int, str]]:
    """(task, point, output) completed by real jobs so far (any submit)."""
    done = set()
    for (p, n, num), job in w.env.jobs.items():
        for o in env_outputs(job):
            done.add((n, int(p), o))
        for m in job.emitted:
            done.add((n, int(p), msg_to_output(w.spec, n, m)))
    return done


# ---------------------------------------------------------------------------
class PoolInvariants(Monitor):
    """C26: pool bookkeeping and task_pool table agreement."""
    name = 'pool-invariants'
    checked = 0

    def __init__(self, check_db: bool = True):
        self.check_db = check_db

    def after(self, w: World, ev: tuple) -> List[dict]:
        if not w.running:
            return self._db_final(w) if self.check_db else []
        out = []
        pool = w.schd.pool
        seen = {}
        flat = []
        for point, bucket in pool.active_tasks.items():
            if not bucket:
                out.append(self.viol(
                    'empty-point-bucket',
                    f'pool has an empty bucket for cycle point {point}'))
            for ident_key, itask in bucket.items():
                flat.append(itask)
                ident = (str(itask.point), itask.tdef.name)
                if ident in seen:
                    out.append(self.viol(
                        'duplicate-proxy',
                        f'two proxies for {ident} in the pool'))
                seen[ident] = itask
                if itask.point != point or ident_key != itask.identity \
                        or itask.identity != f'{point}/{itask.tdef.name}':
                    out.append(self.viol(
                        'proxy-key-mismatch',
                        f'proxy {itask.identity} stored under '
                        f'({point}, {ident_key})'))
        cached = pool.get_tasks()
        if sorted(t.identity for t in cached) != sorted(
                t.identity for t in flat) or len(cached) != len(flat):
            out.append(self.viol(
                'cached-list-stale',
                'get_tasks() = '
                f'{sorted(t.identity for t in cached)} but pool contents = '
                f'{sorted(t.identity for t in flat)}'))
        if self.check_db and not out:
            out.extend(self._db(w, flat))
        PoolInvariants.checked += 1
        return out

    def _rows(self, w: World):
        w.close_db()
        conn = sqlite3.connect(
            f'file:{w.schd.workflow_db_mgr.pri_path}?mode=ro', uri=True)
        try:
            return sorted(conn.execute(
                'SELECT cycle, name, flow_nums, status, is_held '
                'FROM task_pool').fetchall())
        finally:
            conn.close()

    def _db(self, w: World, flat) -> List[dict]:
        import json
        want = sorted(
            (str(t.point), t.tdef.name, sorted(t.flow_nums),
             t.state.status, int(t.state.is_held)) for t in flat)
        got = sorted(
            (c, n, sorted(json.loads(f)), s, int(h))
            for c, n, f, s, h in self._rows(w))
        if got != want:
            extra = [r for r in got if r not in want]
            missing = [r for r in want if r not in got]
            return [self.viol(
                'task_pool-table-differs',
                f'task_pool table differs from the pool after the iteration:'
                f' only in table {extra}; only in pool {missing}')]
        return []

    def _db_final(self, w: World) -> List[dict]:
        return []


# ---------------------------------------------------------------------------
class GraphFaithful(Monitor):
    """C01: submissions only when graph prerequisites are satisfied by
    outputs really completed; terminal run-set = spawn-on-demand closure."""
    name = 'graph-faithful'

    def __init__(self, expect_complete: bool = True):
        self.bad: List[dict] = []
        self.ref: Optional[RefGraph] = None
        self.expect_complete = expect_complete

    def attach(self, w: World) -> None:
        super().attach(w)
        s = w.spec
        self.ref = RefGraph(s['sections'], s['icp'], s['fcp'],
                            s.get('start'))
        # the closure only extends to the stop point, if there is one
        self.cref = RefGraph(
            s['sections'], s['icp'], min(s['fcp'], s.get('stop', s['fcp'])),
            s.get('start')) if s.get('stop') is not None else self.ref
        if s.get('stop') is not None:
            # validity of points is judged against the real final point
            self.cref.points = {
                t: {p for p in pts if p <= s['stop']}
                for t, pts in self.ref.points.items()}

    def on_event(self, kind: str, data: dict) -> None:
        if kind != 'cmd_start' or data['kind'] != 'jobs-submit':
            return
        w = self.w
        ref = self.ref
        done = env_done(w)
        for (p, name, num) in data['jobs']:
            pt = int(p)
            if not ref.valid(name, pt) or not (ref.icp <= pt <= ref.fcp):
                self.bad.append(self.viol(
                    'submitted-off-sequence',
                    f'{p}/{name} submitted but it is not on one of its '
                    f'sequences within [{ref.icp},{ref.fcp}]'))
                continue
            itask = w.schd.pool._get_task_by_id(f'{p}/{name}')
            if itask is not None and not itask.is_manual_submit and not \
                    itask.state.prerequisites_all_satisfied():
                self.bad.append(self.viol(
                    'submitted-with-unsatisfied-prereqs',
                    f'{p}/{name} submitted while its prerequisites are not '
                    'all satisfied'))
            if not ref.satisfied(name, pt, done):
                self.bad.append(self.viol(
                    'submitted-before-upstream-output',
                    f'{p}/{name} submitted but its trigger expression '
                    f'{[r_expr(e) for e in ref.exprs(name, pt)]} '
                    f'is false over outputs really completed: '
                    f'{sorted(done)}'))

    def after(self, w: World, ev: tuple) -> List[dict]:
        out, self.bad = self.bad, []
        return out

    def terminal(self, w: World, kind: str) -> List[dict]:
        ref = self.cref
        latest = latest_jobs(w)
        if any(j.live for j in w.env.jobs.values()) or w.env.pending():
            if kind.startswith('quiescent'):
                return []
        ran = {(n, int(p)) for (p, n) in latest}

        def outputs_of(t, p):
            job = latest.get((str(p), t))
            if job is None:
                return None
            outs = env_outputs(job)
            outs |= {msg_to_output(w.spec, t, m) for m in job.emitted}
            return outs
        S, R, M = ref.closure(outputs_of)
        out = []
        extra = ran - R
        if M:
            out.append(self.viol(
                'closure-instance-never-ran',
                f'run ended ({kind}) but {sorted(M)} are in the '
                'spawn-on-demand closure (prerequisites true) and never '
                'ran'))
        if extra:
            out.append(self.viol(
                'ran-outside-closure',
                f'{sorted(extra)} ran but are not in the spawn-on-demand '
                'closure of the graph for the realised outcomes'))
        if out:
            return out
        # verdict
        opt = optional_outputs(w.spec['sections'])
        incomplete = []
        for (t, p) in sorted(R):
            outs = outputs_of(t, p) or set()
            if not self._complete(w, t, outs, opt.get(t, set())):
                incomplete.append((t, p))
        waiting = sorted(S - R)
        expect_shutdown = not incomplete and not waiting
        if expect_shutdown and kind != 'stopped:AUTO':
            out.append(self.viol(
                'no-auto-shutdown',
                f'every instance of the closure ran and is complete, yet '
                f'the run ended as {kind!r} instead of shutting down'))
        if not expect_shutdown and kind == 'quiescent:idle':
            out.append(self.viol(
                'no-stall-reported',
                f'nothing can progress (incomplete={incomplete}, '
                f'unsatisfied={waiting}) but no stall was reported'))
        if not expect_shutdown and kind == 'stopped:AUTO':
            out.append(self.viol(
                'premature-shutdown',
                f'scheduler shut down by itself but incomplete={incomplete}'
                f' partially-satisfied/waiting={waiting}'))
        return out

    @staticmethod
    def _complete(w, task, outs, optional) -> bool:
        """Default completion rule from the statement (C11)."""
        tdef = w.spec.get('tasks', {}).get(task, {})
        custom = set(tdef.get('outputs', {}))
        required_custom = custom - optional
        if 'succeeded' in outs:
            # succeeded: all required custom outputs too
            return required_custom <= outs
        if 'failed' in outs:
            return 'succeeded' in optional or 'failed' in optional
        if 'submit-failed' in outs:
            return 'submit-failed' in optional
        return False


# ---------------------------------------------------------------------------
class CycleBounds(Monitor):
    """C07: nothing enters the pool off-sequence or outside [ICP, FCP]."""
    name = 'cycle-bounds'
    adds = 0

    def __init__(self):
        self.bad: List[dict] = []
        self.ref = None

    def attach(self, w: World) -> None:
        super().attach(w)
        s = w.spec
        self.ref = RefGraph(s['sections'], s['icp'], s['fcp'])

    def on_event(self, kind: str, data: dict) -> None:
        if kind != 'add':
            return
        CycleBounds.adds += 1
        it = data['itask']
        p = int(str(it.point))
        name = it.tdef.name
        ref = self.ref
        if p < ref.icp:
            self.bad.append(self.viol(
                'pool-add-before-icp',
                f'{p}/{name} added to the pool before the initial cycle '
                f'point {ref.icp}'))
        elif p > ref.fcp:
            self.bad.append(self.viol(
                'pool-add-after-fcp',
                f'{p}/{name} added to the pool after the final cycle point '
                f'{ref.fcp}'))
        elif not ref.valid(name, p):
            self.bad.append(self.viol(
                'pool-add-off-sequence',
                f'{p}/{name} added to the pool but {p} is not on any of the '
                f"task's recurrences {sorted(ref.points.get(name, ()))}"))

    def after(self, w, ev):
        out, self.bad = self.bad, []
        return out


# ---------------------------------------------------------------------------
LIFECYCLE = {
    ('waiting', 'preparing'), ('preparing', 'submitted'),
    ('submitted', 'running'), ('running', 'succeeded'),
    ('running', 'failed'), ('preparing', 'submit-failed'),
    ('submitted', 'submit-failed'), ('waiting', 'expired'),
    # messages may overtake one another: the lifecycle *order* is kept
    ('preparing', 'running'), ('submitted', 'succeeded'),
    ('submitted', 'failed'), ('preparing', 'succeeded'),
    ('preparing', 'failed'),
}
RETRY_BACK = {('failed', 'waiting'), ('submit-failed', 'waiting'),
              ('running', 'waiting'), ('submitted', 'waiting'),
              ('preparing', 'waiting')}


class Lifecycle(Monitor):
    """C09: status transitions follow the lifecycle; outputs monotone;
    succeeded|failed complete => submitted & started complete."""
    name = 'lifecycle'
    transitions = 0

    def __init__(self, allow_retry: bool = False):
        self.bad: List[dict] = []
        self.allow_retry = allow_retry
        self.prev_outputs: Dict[str, Set[str]] = {}

    def on_event(self, kind: str, data: dict) -> None:
        if kind != 'reset':
            return
        b, a = data['before'][0], data['after'][0]
        if b == a:
            return
        Lifecycle.transitions += 1
        if (b, a) in LIFECYCLE:
            return
        if (b, a) in RETRY_BACK and self.allow_retry:
            return
        self.bad.append(self.viol(
            f'illegal-transition:{b}->{a}',
            f'a task status changed {b} -> {a}, which is not on the '
            'lifecycle'))

    def after(self, w: World, ev: tuple) -> List[dict]:
        out, self.bad = self.bad, []
        if not w.running:
            return out
        cur: Dict[str, Set[str]] = {}
        for it in w.schd.pool.get_tasks():
            comp = {m for m, d in it.state.outputs._completed.items() if d}
            cur[it.identity] = comp
            prev = self.prev_outputs.get(it.identity)
            if prev is not None and not prev <= comp:
                out.append(self.viol(
                    'output-uncompleted',
                    f'{it.identity}: outputs {sorted(prev - comp)} were '
                    'complete and are no longer'))
            if ({'succeeded', 'failed'} & comp) and not (
                    {'submitted', 'started'} <= comp):
                out.append(self.viol(
                    'implied-outputs-missing',
                    f'{it.identity}: completed {sorted(comp)} without '
                    'submitted and started'))
        self.prev_outputs = cur   # (a function of the state: not in key)
        return out


# ---------------------------------------------------------------------------
def retries_of(spec: dict, task: str) -> Tuple[int, int]:
    r = spec.get('tasks', {}).get(task, {}).get('retries', {})
    return int(r.get('exec', 0)), int(r.get('sub', 0))


class SubmitOnce(Monitor):
    """C02: no instance is submitted twice in a flow except for configured
    retries; failed/submit-failed outputs only when no retry remains."""
    name = 'submit-once'
    submits = 0

    def __init__(self):
        self.bad: List[dict] = []
        self.manual: Set[Tuple[str, str]] = set()

    def on_event(self, kind: str, data: dict) -> None:
        w = self.w
        if kind == 'cmd_start' and data['kind'] == 'jobs-submit':
            for (p, name, num) in data['jobs']:
                SubmitOnce.submits += 1
                n_exec, n_sub = retries_of(w.spec, name)
                prev = [j for (pp, nn, k), j in w.env.jobs.items()
                        if pp == p and nn == name and k < num]
                count = len(prev) + 1
                bound = (n_exec + 1) * (n_sub + 1)
                if (p, name) in self.manual:
                    continue
                if count > bound:
                    self.bad.append(self.viol(
                        'too-many-submissions',
                        f'{p}/{name} submitted {count} times; with '
                        f'{n_exec} execution and {n_sub} submission retry '
                        f'delays the bound is {bound}'))
                if prev:
                    last = max(prev, key=lambda j: j.key[2])
                    if last.state not in ('failed', 'submit-failed'):
                        self.bad.append(self.viol(
                            'resubmitted-without-failure',
                            f'{p}/{name} submitted again (#{num}) while its '
                            f'previous job is {last.state!r}'))
        elif kind == 'output' and data['message'] in (
                'failed', 'submit-failed'):
            outs = data['outputs']
            it = None
            if w.running:
                for t in w.schd.pool.get_tasks():
                    if t.state.outputs is outs:
                        it = t
                        break
            if it is None:
                return
            p, name = str(it.point), it.tdef.name
            if (p, name) in self.manual:
                return
            n_exec, n_sub = retries_of(w.spec, name)
            jobs = [j for (pp, nn, k), j in w.env.jobs.items()
                    if pp == p and nn == name]
            if data['message'] == 'failed':
                nfail = sum(1 for j in jobs if j.state == 'failed')
                if nfail < n_exec + 1:
                    self.bad.append(self.viol(
                        'failed-output-with-retry-remaining',
                        f'{p}/{name}: failed output completed after '
                        f'{nfail} failed job(s) with {n_exec} execution '
                        'retry delay(s) configured'))
            else:
                nsf = sum(1 for j in jobs if j.state == 'submit-failed')
                if nsf < n_sub + 1:
                    self.bad.append(self.viol(
                        'submit-failed-output-with-retry-remaining',
                        f'{p}/{name}: submit-failed output completed after '
                        f'{nsf} failed submission(s) with {n_sub} submission'
                        ' retry delay(s) configured'))
        elif kind == 'command':
            self.note_manual(data)

    def note_manual(self, data: dict) -> None:
        if data['name'] in ('force_trigger_tasks', 'set', 'remove_tasks'):
            for tid in data['kwargs'].get('tasks', []):
                parts = tid.split('/')
                if len(parts) >= 2:
                    self.manual.add((parts[0], parts[1]))

    def after(self, w, ev):
        out, self.bad = self.bad, []
        return out

    def key(self):
        return tuple(sorted(self.manual))


# ---------------------------------------------------------------------------
def _ready(w: World, it) -> bool:
    """Ready to run per the C03 statement (scheduler's own view of prereqs,
    judged against the documented conditions)."""
    st = it.state
    if st.status != 'waiting' or st.is_held:
        return False
    if not st.prerequisites_all_satisfied():
        return False
    if st.xtriggers and not st.xtriggers_all_satisfied():
        return False
    if st.external_triggers and not st.external_triggers_all_satisfied():
        return False
    pool = w.schd.pool
    lim = pool.runahead_limit_point
    if lim is not None and it.point > lim:
        return False
    if pool.stop_point is not None and it.point > pool.stop_point:
        return False
    # internal queue at its limit? (reference: spec queues, last listing
    # wins; members preparing/submitted/running/awaiting preparation count)
    queues = (getattr(w, 'spec', None) or {}).get('queues') or {}
    mine = None
    for qn, q in queues.items():
        if it.tdef.name in (q.get('members') or []):
            mine = q
    if mine is not None and mine.get('limit'):
        active = sum(
            1 for t in pool.get_tasks()
            if t.tdef.name in mine['members'] and (
                t.state.status in ACTIVE or t.waiting_on_job_prep))
        if active >= mine['limit']:
            return False
    # retry delay pending?
    for t in it.try_timers.values():
        if t is not None and t.timeout is not None and getattr(
                t, 'is_waiting', False) is False and t.timeout > CLOCK.now:
            return False
    return True


class ShutdownStall(Monitor):
    """C03: no premature shutdown, no false stall, no ready task left."""
    name = 'shutdown-stall'
    auto_stops = 0
    stalls = 0

    def __init__(self, queues_limited: bool = False):
        self.bad: List[dict] = []
        self.queues_limited = queues_limited

    def on_event(self, kind: str, data: dict) -> None:
        w = self.w
        if kind == 'set_stop':
            mode = data['mode']
            if mode is None or mode.name != 'AUTO':
                return
            ShutdownStall.auto_stops += 1
            pool = w.schd.pool
            stop = pool.stop_point
            for it in pool.get_tasks():
                st = it.state
                if st.status in ACTIVE:
                    self.bad.append(self.viol(
                        'auto-shutdown-with-active-task',
                        f'automatic shutdown while {it.identity} is '
                        f'{st.status}'))
                elif st.status == 'waiting' and not st.is_runahead and \
                        _ready(w, it):
                    self.bad.append(self.viol(
                        'auto-shutdown-with-ready-task',
                        f'automatic shutdown while {it.identity} is waiting,'
                        ' released and ready to run'))
                elif st.status in FINAL and not st.outputs.is_complete():
                    self.bad.append(self.viol(
                        'auto-shutdown-with-incomplete-task',
                        f'automatic shutdown while {it.identity} is '
                        f'{st.status} and incomplete'))
                elif st.status == 'waiting' and (
                        stop is None or it.point <= stop):
                    sat = [p.is_satisfied() for p in st.prerequisites]
                    atoms_sat = [
                        bool(v) for p in st.prerequisites
                        for v in p._satisfied.values()]
                    if any(atoms_sat) and not all(sat):
                        self.bad.append(self.viol(
                            'auto-shutdown-with-partially-satisfied-task',
                            f'automatic shutdown while {it.identity} has '
                            'partially satisfied prerequisites within the '
                            'stop point'))
        elif kind == 'stalled':
            ShutdownStall.stalls += 1
            schd = w.schd
            for it in schd.pool.get_tasks():
                if it.state.status in ACTIVE:
                    self.bad.append(self.viol(
                        'stall-with-active-task',
                        f'stall reported while {it.identity} is '
                        f'{it.state.status}'))
                elif _ready(w, it):
                    self.bad.append(self.viol(
                        'stall-with-ready-task' + (
                            ':still-flagged-runahead'
                            if it.state.is_runahead else ''),
                        f'stall reported while {it.identity} is ready to '
                        'run'))
            if schd.message_queue.qsize():
                self.bad.append(self.viol(
                    'stall-with-queued-messages',
                    'stall reported with job messages still queued'))
            if schd.proc_pool.is_not_done():
                self.bad.append(self.viol(
                    'stall-with-running-commands',
                    'stall reported with commands queued/running in the '
                    'process pool'))

    def after(self, w, ev):
        out, self.bad = self.bad, []
        return out

    def terminal(self, w: World, kind: str) -> List[dict]:
        if not kind.startswith('quiescent') or not w.running:
            return []
        schd = w.schd
        if schd.is_paused or schd.stop_mode is not None:
            return []
        out = []
        for it in schd.pool.get_tasks():
            if _ready(w, it) and not self.queues_limited:
                out.append(self.viol(
                    'ready-task-never-submitted',
                    f'quiescent ({kind}) with {it.identity} waiting, '
                    'prerequisites satisfied, not held, within the runahead'
                    ' limit: it is never submitted'))
        return out


# ---------------------------------------------------------------------------
def _proxy_of_state(w: World, state):
    if not w.running and getattr(w.schd, 'pool', None) is None:
        return None
    for t in w.schd.pool.get_tasks():
        if t.state is state:
            return t
    return None


def _ids(kwargs, key='tasks'):
    out = []
    for tid in kwargs.get(key, []) or []:
        parts = tid.split('/')
        if len(parts) >= 2:
            out.append((parts[1].split(':')[0], parts[0]))
    return out


class Holds(Monitor):
    """C06: held tasks never enter preparation; holds apply to future
    instances; held set and hold point survive restart.

    Reference (from the statement): H = explicitly held instances + every
    instance that was beyond the hold point when the point was set or when
    it entered the pool; release removes; release_hold_point clears all."""
    name = 'holds'
    prep_events = 0

    def __init__(self):
        self.bad: List[dict] = []
        self.H: Set[Tuple[str, str]] = set()      # (name, point)
        self.HP: Optional[int] = None
        self.manual: Set[Tuple[str, str]] = set()
        self._cfg_done = False

    def key(self):
        return (tuple(sorted(self.H)), self.HP, tuple(sorted(self.manual)))

    def _from_config(self, w) -> None:
        """A hold point configured in flow.cylc / on the command line
        (spec['hold']) is in effect from the start."""
        if self._cfg_done:
            return
        self._cfg_done = True
        hp = w.spec.get('hold')
        if hp is None:
            return
        self.HP = int(hp)
        pool = getattr(getattr(w, 'schd', None), 'pool', None)
        if pool is not None:
            for it in pool.get_tasks():
                if int(str(it.point)) > self.HP:
                    self.H.add((it.tdef.name, str(it.point)))

    def on_event(self, kind: str, data: dict) -> None:
        w = self.w
        self._from_config(w)
        if kind == 'command':
            ok = bool(data['result'][0]) if data.get('result') else False
            if not ok:
                return
            name, kw = data['name'], data['kwargs']
            self.pending_cmd = (name, kw)   # takes effect when processed
        elif kind == 'cmd_processed':
            self._apply_cmd(w)
        elif kind == 'add':
            it = data['itask']
            ident = (it.tdef.name, str(it.point))
            if self.HP is not None and int(str(it.point)) > self.HP:
                self.H.add(ident)
        elif kind == 'remove':
            it = data['itask']
            self.H.discard((it.tdef.name, str(it.point)))
            self.manual.discard((it.tdef.name, str(it.point)))
        elif kind == 'reset':
            if data['after'][0] == 'preparing' and \
                    data['before'][0] != 'preparing':
                Holds.prep_events += 1
                it = _proxy_of_state(w, data['state'])
                ident = (it.tdef.name, str(it.point)) if it else None
                if ident in self.manual:
                    return
                if data['before'][1]:
                    self.bad.append(self.viol(
                        'held-task-prepared',
                        f'{ident}: a held task entered job preparation'))
                elif ident is not None and ident in self.H:
                    self.bad.append(self.viol(
                        'reference-held-task-prepared',
                        f'{ident} should be held (hold set {sorted(self.H)},'
                        f' hold point {self.HP}) but entered preparation'))

    def _apply_cmd(self, w: World) -> None:
        """Commands are queued: apply to the reference once the scheduler
        has processed its command queue (end of the same iteration)."""
        cmd = getattr(self, 'pending_cmd', None)
        if cmd is None:
            return
        self.pending_cmd = None
        name, kw = cmd
        if name == 'hold':
            self.H.update(_ids(kw))
        elif name == 'release':
            for i in _ids(kw):
                self.H.discard(i)
        elif name == 'set_hold_point':
            self.HP = int(kw['point'])
            if w.running:
                for it in w.schd.pool.get_tasks():
                    if int(str(it.point)) > self.HP:
                        self.H.add((it.tdef.name, str(it.point)))
        elif name == 'release_hold_point':
            self.HP = None
            self.H.clear()
        elif name == 'force_trigger_tasks':
            self.manual.update(_ids(kw))
            # "until it is released or manually triggered": the statement
            # leaves open whether a manual trigger also ends the hold (cylc
            # releases the triggered instance); the reference follows the
            # scheduler for the triggered instances only
            if w.running:
                held_now = {(n, str(p))
                            for n, p in w.schd.pool.tasks_to_hold}
                for i in _ids(kw):
                    if i not in held_now:
                        self.H.discard(i)

    def after(self, w: World, ev: tuple) -> List[dict]:
        self._from_config(w)
        out, self.bad = self.bad, []
        if not w.running:
            self.pending_cmd = None   # a queued command dies with the process
            return out
        pool = w.schd.pool
        got_h = {(n, str(p)) for n, p in pool.tasks_to_hold}
        if got_h != self.H:
            out.append(self.viol(
                'held-set-differs',
                f'scheduler holds {sorted(got_h)} but the reference held set'
                f' is {sorted(self.H)} (after {ev[0]})'))
        got_hp = None if pool.hold_point is None else int(str(
            pool.hold_point))
        if got_hp != self.HP:
            out.append(self.viol(
                'hold-point-differs',
                f'scheduler hold point {got_hp} != reference {self.HP} '
                f'(after {ev[0]})'))
        for it in pool.get_tasks():
            ident = (it.tdef.name, str(it.point))
            if ident in self.manual:
                continue
            if it.state.is_held != (ident in self.H):
                out.append(self.viol(
                    'proxy-held-flag-differs',
                    f'{it.identity}: is_held={it.state.is_held} but '
                    f'reference says {ident in self.H} (after {ev[0]})'))
        return out
