"""Engine A harness: the real Scheduler under a virtual loop/clock/proc pool.

Nothing in /repo is modified: every seam is a harness-side replacement of a
module attribute (see DESIGN.md 3.2).
"""
from __future__ import annotations

import asyncio
import heapq
import json
import os
import shutil
import sys
import time as _time_mod
from asyncio import events as _aio_events
from datetime import datetime as _real_datetime, timezone as _tz
from pathlib import Path
from queue import Queue
from typing import Any, Dict, List, Optional, Tuple

_ORIG_TIME = _time_mod.time
_ORIG_SLEEP = _time_mod.sleep

EPOCH0 = 1_577_880_000.0   # 2020-01-01T12:00:00Z : virtual "now" at start


class Clock:
    def __init__(self, now: float = EPOCH0):
        self.now = float(now)

    def time(self) -> float:
        return self.now

    def sleep(self, secs: float = 0) -> None:
        # non-async sleeps in cylc are "yield to other threads" only
        self.now += max(0.0, float(secs))


CLOCK = Clock()


class _VDateTime(_real_datetime):
    """datetime whose now()/utcnow() read the virtual clock."""

    @classmethod
    def now(cls, tz=None):
        if tz is None:
            # naive local time; TZ is forced to UTC by hermetic_env
            return cls.fromtimestamp(CLOCK.now, _tz.utc).replace(tzinfo=None)
        return cls.fromtimestamp(CLOCK.now, tz)

    @classmethod
    def utcnow(cls):
        return cls.fromtimestamp(CLOCK.now, _tz.utc).replace(tzinfo=None)


class _VDateTimeModule:
    """Stand-in for the `datetime` *module* where cylc does
    `import datetime`."""
    def __init__(self):
        import datetime as _dt
        self.__dict__.update({
            k: getattr(_dt, k) for k in dir(_dt) if not k.startswith('__')})
        self.datetime = _VDateTime


def install_clock() -> int:
    """Rebind every module-level reference to time()/sleep() in cylc.flow."""
    _time_mod.time = CLOCK.time
    _time_mod.sleep = CLOCK.sleep
    n = 0
    import datetime as _dt
    for name, mod in list(sys.modules.items()):
        if mod is None or not (
            name == 'cylc.flow' or name.startswith('cylc.flow.')
        ):
            continue
        for attr, val in list(vars(mod).items()):
            if val is _ORIG_TIME:
                setattr(mod, attr, CLOCK.time)
                n += 1
            elif val is _ORIG_SLEEP:
                setattr(mod, attr, CLOCK.sleep)
                n += 1
            elif val is _real_datetime:
                setattr(mod, attr, _VDateTime)
                n += 1
            elif val is _dt and attr == 'datetime':
                setattr(mod, attr, _VDateTimeModule())
                n += 1
    return n


# ---------------------------------------------------------------------------
# virtual event loop

class VirtualLoop(asyncio.BaseEventLoop):
    """Selector-less loop; the explorer pops _ready/_scheduled by hand."""

    def __init__(self):
        super().__init__()
        self._exc: List[dict] = []
        self.set_exception_handler(
            lambda loop, ctx: self._exc.append(ctx))

    def time(self):
        return CLOCK.now

    def _process_events(self, event_list):
        pass

    def _write_to_self(self):
        pass

    def assert_running(self):
        # asyncio stores the pid with the running loop: re-assert after fork
        _aio_events._set_running_loop(self)

    def drain(self, limit: int = 100000) -> None:
        """Run ready callbacks (and due timers) until nothing is ready."""
        n = 0
        while True:
            while self._scheduled and (
                self._scheduled[0]._cancelled
                or self._scheduled[0]._when <= CLOCK.now
            ):
                h = heapq.heappop(self._scheduled)
                h._scheduled = False
                if not h._cancelled:
                    self._ready.append(h)
            if not self._ready:
                return
            h = self._ready.popleft()
            if not h._cancelled:
                h._run()
            n += 1
            if n > limit:
                raise RuntimeError('virtual loop: runaway ready queue')

    def next_timer(self) -> Optional[float]:
        while self._scheduled and self._scheduled[0]._cancelled:
            h = heapq.heappop(self._scheduled)
            h._scheduled = False
        return self._scheduled[0]._when if self._scheduled else None


# ---------------------------------------------------------------------------
# fake subprocesses

class FakeProc:
    """Stands for a Popen; the environment decides when/how it exits."""
    _next_pid = [50000]

    def __init__(self, ctx):
        self.ctx = ctx
        self.returncode: Optional[int] = None
        self.out = ''
        self.err = ''
        self.stdout = None
        self.stderr = None
        FakeProc._next_pid[0] += 1
        self.pid = FakeProc._next_pid[0]
        self.killed = False

    def finish(self, ret: int, out: str = '', err: str = '') -> None:
        self.returncode = ret
        self.out = out
        self.err = err

    def poll(self):
        return self.returncode

    def wait(self, timeout=None):
        if self.returncode is None:
            # reaped while still running: only after a kill
            self.returncode = -9
        return self.returncode

    def communicate(self, timeout=None):
        return self.out.encode(), self.err.encode()

    def kill(self):
        self.killed = True
        if self.returncode is None:
            self.returncode = -9


def make_pool_class(env_ref):
    from cylc.flow.subprocpool import SubProcPool

    class FakePool(SubProcPool):
        def _run_command_init(      # type: ignore[override]
            self, ctx, bad_hosts=None, callback=None, callback_args=None,
            callback_255=None, callback_255_args=None
        ):
            proc = FakeProc(ctx)
            env_ref[0].on_command_start(proc)
            return proc

        def _poll_proc_pipes(self, proc, ctx):
            return None

    return FakePool


class StubServer:
    """Replacement for WorkflowRuntimeServer: no thread, no sockets; keeps a
    real Resolvers object and records every published delta."""

    def __init__(self, schd):
        from cylc.flow.network.resolvers import Resolvers
        self.schd = schd
        self.port = 43001
        self.pub_port = 43002
        self.publish_queue: Queue = Queue()
        self.thread = None
        self.resolvers = Resolvers(schd.data_store_mgr, schd=schd)
        self.stopped = False

    def start(self, barrier):
        barrier.wait()

    async def stop(self, reason):
        self.stopped = True

    def configure_curve(self):
        pass


class _NoBarrier:
    def __init__(self, *a, **k):
        pass

    def wait(self, *a, **k):
        return 0


class _SyncThread:
    def __init__(self, target=None, args=(), kwargs=None, daemon=None):
        self._t, self._a, self._k = target, args, kwargs or {}

    def start(self):
        self._t(*self._a, **self._k)

    def join(self, timeout=None):
        pass

    def is_alive(self):
        return False


_SEAMS_DONE = False
ENV_REF: List[Any] = [None]


def install_seams() -> None:
    """Idempotent: replace the scheduler's process/network seams."""
    global _SEAMS_DONE
    if _SEAMS_DONE:
        return
    import cylc.flow.scheduler as S
    import cylc.flow.subprocpool as SP
    import cylc.flow.task_job_mgr as TJM
    import cylc.flow.job_file as JF
    import cylc.flow.commands  # noqa
    import cylc.flow.main_loop  # noqa
    import cylc.flow.xtriggers.wall_clock  # noqa

    S.WorkflowRuntimeServer = StubServer
    S.SubProcPool = make_pool_class(ENV_REF)
    S.Barrier = _NoBarrier
    S.Thread = _SyncThread
    SP._killpg = lambda proc, sig: (proc.kill(), True)[1]

    # no `bash -n` per job file (job script syntax is C41's subject)
    _orig_write = JF.JobFileWriter.write

    def _write(self, local_job_file_path, job_conf, check_syntax=True):
        return _orig_write(
            self, local_job_file_path, job_conf, check_syntax=False)
    JF.JobFileWriter.write = _write

    # psutil process inspection is slow and irrelevant
    import psutil

    class _P:
        pid = 4242

        def cmdline(self):
            return ['cylc', 'play', 'vf']
    S.psutil = type('psutil_stub', (), {'Process': lambda *a: _P()})

    # the importlib.metadata entry-point scan (plugins, main-loop plugins,
    # xtriggers) costs ~35 ms per scheduler start and is static: memoise
    import cylc.flow as CF
    _orig_iep = CF.iter_entry_points
    _cache: Dict[str, list] = {}

    def iter_entry_points(entry_point_name):
        if entry_point_name not in _cache:
            _cache[entry_point_name] = list(_orig_iep(entry_point_name))
        return iter(_cache[entry_point_name])
    CF.iter_entry_points = iter_entry_points
    for name, mod in list(sys.modules.items()):
        if name.startswith('cylc.flow') and mod is not None and getattr(
                mod, 'iter_entry_points', None) is _orig_iep:
            mod.iter_entry_points = iter_entry_points

    install_clock()
    _SEAMS_DONE = True


# ---------------------------------------------------------------------------
# run directory

def make_run_dir(workflow_id: str, flow_text: str) -> Path:
    run_dir = Path(os.environ['HOME']) / 'cylc-run' / workflow_id
    if run_dir.exists():
        shutil.rmtree(run_dir)
    run_dir.mkdir(parents=True, exist_ok=True)
    (run_dir / 'flow.cylc').write_text(flow_text)
    return run_dir


def default_options(**over) -> dict:
    opts = dict(
        run_mode='live',
        paused_start=False,
        no_detach=True,
        profile_mode=False,
        log_timestamp=False,
    )
    opts.update(over)
    return opts
