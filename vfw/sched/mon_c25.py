"""C25 The published data store reflects the task pool: funnel, monitor,
client mirror.

Two oracles, both read straight from the statement:

* pool vs store - immediately after every `Scheduler.update_data_structure`
  (main loop, reload wait loop, shutdown) every pooled proxy must have a task
  proxy element in the scheduler's store with equal status, held / queued /
  runahead flags, flow numbers, completed outputs and per-atom prerequisite
  satisfaction (the reference side is read from the pool objects, the store
  side from the protobuf element);
* client mirror - a subscriber that starts from the first published batch
  (the full snapshot) and applies every later batch, in order, through the
  functions a real client uses (`AllDeltas` wire round trip, then
  `data_store_mgr.apply_delta` per element type, clearing a type when its
  delta carries `reloaded`, exactly as the UI server's `_apply_all_delta`
  does) must hold element-wise the same data as the scheduler whenever
  nothing is left unpublished, and the checksum shipped with each delta must
  equal `generate_checksum` over the mirror.
"""
from __future__ import annotations

import hashlib
import json
from copy import deepcopy
from queue import Empty
from typing import Dict, List, Optional

from .mon_c27 import Counters
from .profile import Monitor
from .world import World, _CUR

COUNTS = Counters('c25-counters')

_FUNNEL = False


def install_ds_funnel() -> None:
    """Idempotent: emit `ds_update` after Scheduler.update_data_structure."""
    global _FUNNEL
    if _FUNNEL:
        return
    _FUNNEL = True
    from cylc.flow.scheduler import Scheduler

    o_uds = Scheduler.update_data_structure

    async def update_data_structure(self, *a, **kw):
        ret = await o_uds(self, *a, **kw)
        w = _CUR[0]
        if w is not None and w.schd is self:
            w.emit('ds_update')
        return ret
    Scheduler.update_data_structure = update_data_structure


# ---------------------------------------------------------------------------
# canonical digests (timestamps and time-derived stamps excluded)

# not part of the state key: times, scratch paths (differ per search
# worker) and the recency lists (`latest_state_tasks`: the order of tasks
# that change state in the same batch follows object addresses). All of them
# ARE compared between the client mirror and the scheduler's store.
TIME_FIELDS = {'stamp', 'time', 'last_updated', 'submitted_time',
               'started_time', 'finished_time', 'estimated_finish_time',
               'mean_elapsed_time', 'job_log_dir', 'workflow_log_dir',
               'latest_state_tasks', 'host'}


def _canon_msg(msg) -> tuple:
    out = []
    for fd, val in msg.ListFields():
        if fd.name in TIME_FIELDS:
            continue
        out.append((fd.name, _canon_val(fd, val)))
    return tuple(out)


def _canon_val(fd, val):
    if fd.message_type is not None and fd.message_type.GetOptions().map_entry:
        vfd = fd.message_type.fields_by_name['value']
        return tuple(sorted(
            (str(k), _canon_msg(v) if vfd.message_type is not None else v)
            for k, v in val.items()))
    if getattr(fd, 'is_repeated', None) if hasattr(fd, 'is_repeated') \
            else fd.label == 3:
        # order-insensitive: the order of elements that are created in the
        # same batch (jobs of tasks submitted together, ...) follows set
        # iteration over objects, i.e. memory addresses
        if fd.message_type is not None:
            return tuple(sorted((_canon_msg(v) for v in val), key=repr))
        return tuple(sorted(val))
    if fd.message_type is not None:
        return _canon_msg(val)
    return val


def store_digest(data: dict) -> str:
    from cylc.flow.data_store_mgr import WORKFLOW
    h = hashlib.sha1()
    for key in sorted(data):
        if key == WORKFLOW:
            h.update(repr((key, _canon_msg(data[key]))).encode())
        elif isinstance(data[key], dict):
            h.update(repr((key, tuple(
                (i, _canon_msg(e)) for i, e in sorted(data[key].items())
            ))).encode())
    return h.hexdigest()


def first_difference(key: str, a, b) -> str:
    """Name of the first field in which two elements differ."""
    names = sorted({f.name for f, _ in a.ListFields()}
                   | {f.name for f, _ in b.ListFields()})
    for n in names:
        if getattr(a, n) != getattr(b, n):
            return n
    return '?'


# ---------------------------------------------------------------------------
ACTIVE_STATES = ('preparing', 'submitted', 'running')


class StoreReflectsPool(Monitor):
    name = 'store-reflects-pool'

    def __init__(self):
        install_ds_funnel()
        self.bad: List[dict] = []
        self.mirror: Optional[dict] = None
        self.delta_times: Dict[str, float] = {}
        self.batches = 0
        self.updates_seen = 0
        self.server = None
        # identities of proxies removed from the pool while their job was
        # live (the job's kill result / late messages are still to come)
        self.live_removed: set = set()

    # the mirror and the store are path-dependent: both enter the state key
    def key(self):
        w = getattr(self, 'w', None)
        if w is None or not w.running or self.mirror is None:
            return None
        dsm = w.schd.data_store_mgr
        return (store_digest(self.mirror),
                store_digest(dsm.data[dsm.workflow_id]),
                bool(dsm.publish_pending), bool(dsm.updates_pending),
                dsm.n_edge_distance, dsm.next_n_edge_distance,
                tuple(sorted(self.live_removed)))

    # ------------------------------------------------------------ pool/store
    def on_event(self, kind: str, data: dict) -> None:
        if kind == 'remove':
            it = data['itask']
            if it.state(*ACTIVE_STATES):
                self.live_removed.add(it.identity)
        if kind == 'ds_update':
            self.updates_seen += 1
            COUNTS.bump('data-store updates checked')
            self._pool_vs_store(self.w)

    def _pool_vs_store(self, w: World) -> None:
        from cylc.flow.data_store_mgr import TASK_PROXIES
        schd = w.schd
        dsm = schd.data_store_mgr
        store = dsm.data[dsm.workflow_id][TASK_PROXIES]
        v = self.bad
        for it in schd.pool.get_tasks():
            COUNTS.bump('pooled proxies compared with the store')
            el = store.get(it.tokens.id)
            if el is None:
                v.append(self.viol(
                    'pooled-task-missing-from-store',
                    f'{it.identity} ({it.state}) is in the pool but has no '
                    'task proxy element in the data store after the update'))
                continue
            st = it.state
            pairs = [
                ('state', el.state, st.status),
                ('is_held', bool(el.is_held), bool(st.is_held)),
                ('is_queued', bool(el.is_queued), bool(st.is_queued)),
                ('is_runahead', bool(el.is_runahead), bool(st.is_runahead)),
                ('flow_nums', sorted(json.loads(el.flow_nums or '[]')),
                 sorted(it.flow_nums)),
                ('outputs',
                 sorted(o.message for o in el.outputs.values()
                        if o.satisfied),
                 sorted(m for m, d in st.outputs._completed.items() if d)),
                ('prerequisites', _store_prereqs(el), _pool_prereqs(it)),
            ]
            if st.is_held:
                COUNTS.bump('held proxies compared')
            if st.is_queued:
                COUNTS.bump('queued proxies compared')
            if st.is_runahead:
                COUNTS.bump('runahead proxies compared')
            for fld, got, want in pairs:
                if got != want:
                    # root cause class of its own (recorded finding): the
                    # pooled proxy replaced a proxy of the same ID that was
                    # removed while its job was live; what that job reports
                    # afterwards is written to the same store node
                    why = (':respawned-after-removal-with-live-job'
                           if it.identity in self.live_removed else '')
                    v.append(self.viol(
                        f'store-differs-from-pool:{fld}{why}',
                        f'{it.identity}: after the data-store update the '
                        f'store has {fld}={got!r} but the pool has {want!r}'
                        + (' (this proxy replaced one that was removed '
                           'while its job was live)' if why else '')
                    ))

    # ---------------------------------------------------------------- mirror
    def _drain(self, w: World) -> None:
        from cylc.flow.data_store_mgr import (
            ALL_DELTAS, DATA_TEMPLATE, EDGES, WORKFLOW, apply_delta,
            generate_checksum)
        from cylc.flow.data_messages_pb2 import AllDeltas
        server = w.schd.server
        if server is not self.server:
            # a new server (boot / restart): the client connects afresh
            self.server = server
            self.mirror = None
        q = server.publish_queue
        while True:
            try:
                batch = q.get(False)
            except Empty:
                break
            self.batches += 1
            COUNTS.bump('published batches applied')
            wire = None
            for topic, delta, _meth in batch:
                if topic == ALL_DELTAS.encode('utf-8'):
                    wire = delta.SerializeToString()
            if wire is None:
                self.bad.append(self.viol(
                    'batch-without-all-topic',
                    'a published batch has no `all` topic'))
                continue
            msg = AllDeltas.FromString(wire)
            if self.mirror is None:
                self.mirror = deepcopy(DATA_TEMPLATE)
                self.delta_times = {k: 0.0 for k in DATA_TEMPLATE}
            for fd, sub in msg.ListFields():
                key = fd.name
                if sub.reloaded:
                    COUNTS.bump('reloaded deltas applied')
                    if key == WORKFLOW:
                        self.mirror[key].Clear()
                    else:
                        self.mirror[key].clear()
                    self.delta_times[key] = 0.0
                dtime = getattr(sub, 'time', 0.0)
                if dtime < self.delta_times[key]:
                    self.bad.append(self.viol(
                        f'delta-time-goes-back:{key}',
                        f'{key} delta stamped {dtime} after one stamped '
                        f'{self.delta_times[key]}: a client drops it'))
                    continue
                apply_delta(key, sub, self.mirror)
                self.delta_times[key] = dtime
                if key != WORKFLOW and sub.HasField('checksum'):
                    COUNTS.bump('checksums compared')
                    att = 'id' if key == EDGES else 'stamp'
                    local = generate_checksum(
                        [getattr(e, att) for e in self.mirror[key].values()])
                    if local != sub.checksum:
                        self.bad.append(self.viol(
                            f'client-checksum-mismatch:{key}',
                            f'after applying a {key} delta the client\'s '
                            f'checksum {local} differs from the published '
                            f'{sub.checksum} ({len(self.mirror[key])} '
                            'elements)'))

    def _mirror_vs_store(self, w: World, when: str) -> List[dict]:
        from cylc.flow.data_store_mgr import WORKFLOW
        out: List[dict] = []
        dsm = w.schd.data_store_mgr
        store = dsm.data[dsm.workflow_id]
        if self.mirror is None:
            return [self.viol('nothing-published',
                              'no batch was ever published')]
        COUNTS.bump('mirror comparisons')
        for key in sorted(store):
            a, b = store[key], self.mirror[key]
            if key == WORKFLOW:
                if a != b:
                    out.append(self.viol(
                        f'client-differs:{key}.'
                        f'{first_difference(key, a, b)}',
                        f'{when}: the client\'s workflow element differs '
                        'from the scheduler\'s in field '
                        f'{first_difference(key, a, b)}'))
                continue
            if set(a) != set(b):
                only_s = sorted(set(a) - set(b))
                only_c = sorted(set(b) - set(a))
                out.append(self.viol(
                    f'client-differs:{key}:'
                    f"{'missing' if only_s else 'stale'}-element",
                    f'{when}: {key} only in the scheduler\'s store '
                    f'{only_s}; only in the client {only_c}'))
                continue
            for i in sorted(a):
                if a[i] != b[i]:
                    fld = first_difference(key, a[i], b[i])
                    out.append(self.viol(
                        f'client-differs:{key}.{fld}',
                        f'{when}: {i}: field {fld} is '
                        f'{getattr(a[i], fld)!r} in the scheduler\'s store '
                        f'and {getattr(b[i], fld)!r} in the client'))
                    break
        return out

    # ------------------------------------------------------------------
    def after(self, w: World, ev: tuple) -> List[dict]:
        if w.schd is not None and getattr(w.schd, 'server', None) is not None:
            self._drain(w)
        out, self.bad = self.bad, []
        if w.running and not out and ev[0] != 'boot':
            # (the start-up batches are judged after the first transition, so
            # that a start-up defect does not leave an exploration without a
            # single transition)
            dsm = w.schd.data_store_mgr
            if dsm.publish_pending:
                COUNTS.bump('boundaries with an unpublished batch')
            else:
                out.extend(self._mirror_vs_store(w, f'after {ev[0]}'))
        COUNTS.flush()
        return out

    def terminal(self, w: World, kind: str) -> List[dict]:
        if not w.running or not kind.startswith('quiescent'):
            return []
        dsm = w.schd.data_store_mgr
        if dsm.publish_pending:
            return [self.viol(
                'delta-never-published',
                f'{kind}: nothing more will happen but the last batch of '
                'deltas applied to the scheduler\'s store was not '
                'published')]
        return []


def _store_prereqs(el) -> list:
    out = []
    for pre in el.prerequisites:
        for c in pre.conditions:
            out.append((c.task_proxy, c.req_state, bool(c.satisfied)))
    return sorted(out)


def _pool_prereqs(it) -> list:
    out = []
    for pre in it.state.prerequisites:
        for k, val in pre.items():
            out.append((f'{k.point}/{k.task}', str(k.output), bool(val)))
    return sorted(out)
